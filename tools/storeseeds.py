#!/usr/bin/env python3
"""Copy confirmed seeded changes from a scratch directory into /verif/seeded/<property>-m<k>/ with meta.json.
usage: storeseeds.py <seedout dir> <confirm.out> <matrix dir> <offset>   (offset 0: m1..m3, 3: m4..m6)"""
import json
import os
import re
import shutil
import subprocess
import sys

base, conf_file, matrix_dir, offset = sys.argv[1], sys.argv[2], sys.argv[3], int(sys.argv[4])
out = '/verif/seeded'
conf = {}
for l in open(conf_file):
    m = re.match(r'^(C\d+) (m\d) patch=(\S+) suite=\[(.*?)\] mutated-demo=\[(.*?)\] clean-demo=\[(.*?)\]', l)
    if m:
        conf[(m.group(1), m.group(2))] = m.groups()[2:]
head = subprocess.run(['git', '-C', '/repo', 'rev-parse', '--short', 'HEAD'], capture_output=True, text=True).stdout.strip()
n = 0
for pid in sorted(os.listdir(base)):
    for k in (1, 2, 3):
        m = 'm%d' % k
        d = os.path.join(base, pid, m)
        if (pid, m) not in conf:
            print('not confirmed:', pid, m)
            continue
        pf, suite, mut, clean = conf[(pid, m)]
        if '686 passed' not in suite or 'failed' not in mut or 'failed' in clean:
            print('confirmation does not hold:', pid, m, suite, mut, clean)
            continue
        sid = '%s-m%d' % (pid, k + offset)
        o = os.path.join(out, sid)
        os.makedirs(o, exist_ok=True)
        shutil.copy(os.path.join(d, pf), os.path.join(o, 'patch.diff'))
        shutil.copy(os.path.join(d, 'demo_test.py'), os.path.join(o, 'demo_test.py'))
        notes = open(os.path.join(d, 'notes.md')).read()
        shutil.copy(os.path.join(d, 'notes.md'), os.path.join(o, 'notes.md'))
        title = notes.strip().splitlines()[0].lstrip('# ').strip()
        need = ''
        mm = re.search(r'(?ims)^(?:#+\s*|\*\*)?[^\n]*\b(?:manifest|needed to|needs|trigger)[^\n]*\n(.*?)(?=^\s*#+\s|\n(?:\*\*)?commands|\Z)', notes)
        if mm:
            need = ' '.join(mm.group(1).split())
        files = sorted(set(re.findall(r'^diff --git a/(\S+)', open(os.path.join(o, 'patch.diff')).read(), re.M)))
        caught = []
        mf = os.path.join(matrix_dir, '%s_%s.txt' % (pid, m))
        for l in open(mf):
            p = l.split()
            if len(p) >= 2 and p[1] == '1':
                caught.append({'check': p[0], 'rules': [r for r in p[2:] if r != 'rule']})
            elif len(p) >= 2 and p[1] == '2':
                caught.append({'check': p[0], 'analysis_error': True})
        meta = {'id': sid, 'property': pid, 'title': title, 'files': files,
                'needs_to_manifest': need[:1200] if len(need) >= 30 else 'see notes.md',
                'origin': 'written by a fresh sub-agent that was given only the text of %s and a scratch worktree of the repository '
                          '(nothing from /verif)' % pid,
                'rebased': pf != 'patch.diff',
                'confirmed': {'repo_head': head,
                              'how': 'fresh scratch worktree of /repo at repo_head; `git apply patch.diff`; /venv/bin/python -m pytest -q -p '
                                     'no:cacheprovider --timeout=900 --continue-on-collection-errors; /venv/bin/python -m pytest -q -p '
                                     'no:cacheprovider demo_test.py with and without the patch',
                              'suite_with_patch': suite, 'demo_with_patch': mut, 'demo_without_patch': clean},
                'checks_run': 'all 20 quick checks (./check <ID> --tier quick --repo <worktree with the patch>)',
                'caught_by': sorted(caught, key=lambda c: c['check'])}
        json.dump(meta, open(os.path.join(o, 'meta.json'), 'w'), indent=1)
        n += 1
print('stored', n)
