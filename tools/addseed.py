#!/usr/bin/env python3
"""Confirm one change written by a sub-agent and store it as /verif/seeded/<property>-m<next>/.
usage: addseed.py <property> <dir with patch.diff demo_test.py notes.md>
Confirmation (all in a fresh scratch worktree of /repo's head under /tmp, removed afterwards): the patch applies, the
686-test suite passes with it, the demonstration fails with it and passes without it.  `caught_by` is filled in by a
later `MATRIXDIR=<dir> tools/regress.sh seeded` + `tools/refreshmeta.py <dir>`."""
import json
import os
import re
import shutil
import subprocess
import sys
import tempfile

pid, src = sys.argv[1], sys.argv[2].rstrip('/')
PY = '/venv/bin/python'


def run(cmd, cwd):
    r = subprocess.run(cmd, cwd=cwd, capture_output=True, text=True)
    lines = [l for l in (r.stdout + r.stderr).strip().splitlines() if l.strip()]
    return r.returncode, (lines[-1] if lines else '').strip('= ')


for f in ('patch.diff', 'demo_test.py', 'notes.md'):
    if not os.path.isfile(os.path.join(src, f)):
        sys.exit('missing %s in %s' % (f, src))
head = subprocess.run(['git', '-C', '/repo', 'rev-parse', '--short', 'HEAD'], capture_output=True, text=True).stdout.strip()
tmp = tempfile.mkdtemp(prefix='addseed.')
wt = os.path.join(tmp, 'wt')
subprocess.run(['git', '-C', '/repo', 'worktree', 'add', '-q', '--detach', wt, 'HEAD'], check=True)
try:
    demo = os.path.join(tmp, 'demo_test.py')
    shutil.copy(os.path.join(src, 'demo_test.py'), demo)
    rc0, clean = run([PY, '-m', 'pytest', '-q', '-p', 'no:cacheprovider', demo], wt)
    if subprocess.run(['git', '-C', wt, 'apply', os.path.abspath(os.path.join(src, 'patch.diff'))]).returncode != 0:
        sys.exit('%s: patch does not apply' % src)
    rc1, suite = run([PY, '-m', 'pytest', '-q', '-p', 'no:cacheprovider', '--timeout=900', '--continue-on-collection-errors'], wt)
    rc2, mut = run([PY, '-m', 'pytest', '-q', '-p', 'no:cacheprovider', demo], wt)
finally:
    subprocess.run(['git', '-C', '/repo', 'worktree', 'remove', '--force', wt])
    shutil.rmtree(tmp, ignore_errors=True)
print('%s: suite=[%s] mutated-demo=[%s] clean-demo=[%s]' % (src, suite, mut, clean))
if rc1 != 0 or '686 passed' not in suite or rc2 == 0 or 'failed' not in mut or rc0 != 0 or 'failed' in clean or 'error' in clean:
    sys.exit('%s: CONFIRMATION DOES NOT HOLD' % src)
ks = [int(m.group(1)) for d in os.listdir('/verif/seeded') for m in [re.match(r'%s-m(\d+)$' % pid, d)] if m]
sid = '%s-m%d' % (pid, max(ks + [0]) + 1)
o = os.path.join('/verif/seeded', sid)
os.makedirs(o)
for f in ('patch.diff', 'demo_test.py', 'notes.md'):
    shutil.copy(os.path.join(src, f), os.path.join(o, f))
notes = open(os.path.join(o, 'notes.md')).read()
title = notes.strip().splitlines()[0].lstrip('# ').strip()
need = ''
mm = re.search(r'(?ims)^(?:#+\s*|\*\*)?[^\n]*\b(?:manifest|needed to|needs|trigger)[^\n]*\n(.*?)(?=^\s*#+\s|\n(?:\*\*)?commands|\Z)', notes)
if mm:
    need = ' '.join(mm.group(1).split())
files = sorted(set(re.findall(r'^diff --git a/(\S+)', open(os.path.join(o, 'patch.diff')).read(), re.M)))
meta = {'id': sid, 'property': pid, 'title': title, 'files': files,
        'needs_to_manifest': need[:1200] if len(need) >= 30 else 'see notes.md',
        'origin': 'written by a fresh sub-agent that was given only the text of %s and a scratch worktree of the repository '
                  '(nothing from /verif); round 6: cooperating sites, multi-step sequences, faults at a particular point, '
                  'unusual inputs (round 7: with an avoid list of stored titles)' % pid,
        'rebased': False,
        'confirmed': {'repo_head': head,
                      'how': 'fresh scratch worktree of /repo at repo_head; `git apply patch.diff`; /venv/bin/python -m pytest -q -p '
                             'no:cacheprovider --timeout=900 --continue-on-collection-errors; /venv/bin/python -m pytest -q -p '
                             'no:cacheprovider demo_test.py with and without the patch',
                      'suite_with_patch': suite, 'demo_with_patch': mut, 'demo_without_patch': clean},
        'checks_run': 'pending', 'caught_by': []}
json.dump(meta, open(os.path.join(o, 'meta.json'), 'w'), indent=1)
print('stored', sid)
