#!/usr/bin/env python3
"""Regenerates /verif/MANIFEST.json from the table below (kept in one place so the
manifest stays valid while checks are added)."""
import json
import os

HERE = os.path.dirname(os.path.dirname(os.path.abspath(__file__)))
props = [json.loads(l) for l in open(os.path.join(HERE, 'properties.jsonl'))]

CLAIMS = {
    'C06': dict(
        category='translation_validation', design_ref='DESIGN.md section 4 (C06/C07), section 3',
        technique='ROBDD partition of all 2^32 words over the decoder ASTs + bit-vector abstract interpretation of '
                  'from_bitarray, compared with reference encoding tables by BDD identity',
        text='The ARM decoder and all 271 A1/A2 from_bitarray functions are validated as a translation of the '
             'reference encoding table: class selection for every one of the 2^32 words, operand wiring per bit, '
             'UNDEFINED/UNPREDICTABLE sets, purity. Exhaustive over words and the state atoms read; this decides the '
             'decode tables and wiring, not the numeric results of the expand-immediate / shift helpers.',
        note='Trusted: CPython ast; the reference table spec/enc_arm.json (generated from the audited tree, deviations '
             'from the ARM ARM repaired by fix: commits or corrected by hand); the abstract interpreter sa/bitdom.py.'),
    'C07': dict(
        category='translation_validation', design_ref='DESIGN.md section 4 (C06/C07), section 3',
        technique='ROBDD partition of all 2^16 / 2^32 Thumb words over the decoder ASTs + bit-vector abstract '
                  'interpretation of from_bitarray, compared with reference encoding tables by BDD identity',
        text='The Thumb 16- and 32-bit decoders and all 331 T1..T4 from_bitarray functions are validated against the '
             'reference tables: class selection for every halfword / halfword pair, operand wiring per bit including '
             'the IT-block and APSR.C dependences, UNDEFINED/UNPREDICTABLE sets, purity.',
        note='Trusted: CPython ast; spec/enc_t16.json and spec/enc_t32.json; sa/bitdom.py. Two recorded deviations of the '
             'tree (CBZ imm32 scale, PUSH T2 UnalignedAllowed) are known findings.'),
}

CLAIMS['C05'] = dict(
    category='proof', design_ref='DESIGN.md section 4 (C05)',
    technique='truth-table extraction of ConditionPassed/CurrentCond by bit-vector abstract interpretation + guard '
              'dominance over all execute() bodies (structured effect walk)',
    text='Decided essentially completely: the 16x16 condition table and the CurrentCond decision table are extracted '
         'from source and equal the architectural tables; every effect of every one of the 273 execute() bodies is '
         'dominated by a positive condition_passed() test (a property of all paths, hence all operands/flags), except '
         'the architecturally unconditional instructions bound through the reference encodings.',
    note='Trusted: CPython ast; sa/reftables.py (condition table, unconditional list); the closed effect vocabulary of '
         'sa/flow.py with effect summaries of ArmV6/Registers methods (unknown calls count as effects).')

CLAIMS['C11'] = dict(
    category='other', design_ref='DESIGN.md section 4 (C11), Appendix A.4',
    technique='bit-vector abstract interpretation of the exception-entry functions to exact final-state tables, '
              'compared with a reference model of the architecture pseudocode by BDD equality; AST check of the '
              'emulate_cycle dispatch map',
    text='For every take_*_exception (with EnterHypMode / EnterMonitorMode routes), ExcVectorBase and TakeReset the '
         'final CPSR, banked SPSR and LR (ELR_hyp), SCR.NS and PC are proved equal to the reference model for all PCs, '
         'CPSR values, control-register values and extension configurations; the dispatch of raised exception classes '
         'is checked structurally. Decides entry mode, saved state, return address, masks, IT/J/T/E, vector and routing; '
         'not asynchronous delivery nor HSR syndrome contents.',
    note='Trusted: CPython ast; sa/refmodel.py (transcription of ARM ARM B1.9 entry pseudocode); sa/bitdom.py. Mock '
         'predicates (is_external_abort, ...) are free atoms.')

CLAIMS['C12'] = dict(
    category='other', design_ref='DESIGN.md section 4 (C12), Appendix A.5',
    technique='bit-vector abstract interpretation of CPSRWriteByInstr/SPSRWriteByInstr/BadMode/CoprocAccepted to exact '
              'tables compared with a reference model by BDD equality; ordering/dominance/frame rules over the execute() '
              'bodies of return, MSR/CPS/SETEND/MRS, hint and coprocessor opcodes',
    text='The PSR writers are proved equal to the architecture for every value x byte mask x exception-return flag x state, '
         'with the privilege and execution-state implications checked separately; the exception-return opcodes follow the '
         'read-PC / restore-CPSR / branch template with write-back before the restore; MSR/CPS/SETEND/MRS/hint frames and '
         'coprocessor gating are decided structurally. The entry-then-return round trip as a history is not decided.',
    note='Trusted: CPython ast; sa/refmodel.py and the tables in sa/props/c12.py; effect vocabulary of sa/flow.py. '
         'Known finding: MRS Rd,CPSR in privileged modes returns the APSR view.')
CLAIMS['C08'] = dict(
    category='other', design_ref='DESIGN.md section 4 (C08)',
    technique='exact table of ITAdvance and the IT predicates by bit-vector abstract interpretation; structured walk of '
              'execute_instruction (placement of the advance); reference wiring setflags = !InITBlock(); re-evaluated '
              'C11-T / C12-M equalities for IT clear-on-entry and restore-on-return',
    text='Mechanism conformance of IT blocks: advance table, predicates, advance placed exactly once after the opcode '
         'under the in_it_block() value sampled before execution, the IT instruction\'s write, flag suppression wiring of '
         'all 16-bit data-processing encodings, IT saved-then-cleared on every exception entry and restored only on '
         'exception return, and the restored ITSTATE not advanced by the returning instruction (C08-R). The trace-level statement (next 1-4 instructions conditional) is implied, not decided.',
    note='Trusted: CPython ast; sa/refmodel.py; spec/enc_t16.json.')

CLAIMS['C09'] = dict(
    category='other', design_ref='DESIGN.md section 4 (C09)',
    technique='bit-vector abstract interpretation (in-house ROBDD domain) of the 91 multiply / saturating / parallel / extend / '
              'bit-field / reverse execute() bodies with symbolic operand registers, CPSR and decode-feasible control fields, compared '
              'bit for bit with reference models transcribed from the architecture pseudocode; wide `*` and `/` are uninterpreted '
              'symbols shared by both sides (operands matched semantically under the path condition); effect-walker frame / sticky-Q / '
              'read-before-write / guard rules; interval widths',
    text='Decides for every operand value, flag state and control field at once: result registers (operand selection, sign '
         'interpretation, lane slicing and lane isolation, accumulate, rounding, truncation, saturation bounds, extension, bit-field '
         'positions, byte/bit reversal, CLZ), N/Z from the truncated result, the sticky Q condition, GE[3:0], UNPREDICTABLE and '
         'zero-divisor paths, and that nothing else changes. Trusted, not decided: that Python integer `*` and `/` are the '
         'mathematical product and quotient. Not decided: USAD8/USADA8 values (BDD too large; their frame/guard/order/width are).',
    note='Trusted: CPython ast; sa/oprefs.py (ARM ARM A8 pseudocode); register-number fields are bound to distinct indices, which is '
         'sound because every operand read precedes every register write (C09-O, checked).')
CLAIMS['C10'] = dict(
    category='proof', design_ref='DESIGN.md section 4 (C10), 2.4',
    technique='interval / bit-width abstract interpretation of every value reaching a register sink (helpers analysed '
              'from source, modular contracts for ArmV6/Registers methods) + exact banking tables by bit-vector abstract '
              'interpretation + AST ownership rule',
    text='Inductive range invariant: every value stored to a register, banked register, SPSR, ELR_hyp or the PC by any of '
         'the 273 execute() bodies or any ArmV6/Registers method is proved to lie in [0, 2^32) (unknown counts as a '
         'violation); the banking map and SPSR selection equal the architectural tables for every register x legal mode; '
         'the bank storage is touched only through that map; exception entry and the user-bank LDM/STM forms write exactly '
         'the architectural bank. By induction over single accesses this gives the all-sequences clause.',
    note='Trusted: CPython ast; the hypotheses listed in the evidence (registers/system registers read in range, memory '
         'reads of size s below 2^(8s), mock hooks deliver 32-bit words); field ranges from the decode layer.')

CLAIMS['C16'] = dict(
    category='proof', design_ref='DESIGN.md section 4 (C16)',
    technique='AST structural rules on the hub and device classes (bounded slices, first match, exact delegation, '
              'statelessness, ownership, format table) + interval analysis of every stored value',
    text='Structurally complete for the hub and RAM: every slice store is bounded by the device size and cut to the slice '
         'length, loads are padded, lookup is first-match with no other state, delegation is exactly (address - beginning, '
         'size), unmapped addresses read 0 / ignore writes, formats are little-endian of the right size, and every value '
         'reaching the hub store is proved < 2^(8*size). The hub is stateless, so the per-operation frame gives the '
         'all-histories clause by induction.',
    note='Trusted: CPython ast; struct.pack length; the device invariant size == len(backing array) set in __init__.')

CLAIMS['C13'] = dict(
    category='other', design_ref='DESIGN.md section 4 (C13), Appendix A.8',
    technique='bit-vector abstract interpretation of MemA/MemU get/set per access size with translation, faults and the '
              'hub abstracted as events; event lists and per-byte wiring compared with the architecture pseudocode',
    text='For sizes 1/2/4/8 and every address, value, SCTLR.A/U, HSCTLR.A, CPSR.E, mode and arch version: which accesses '
         'fault, which are aligned down, which go byte-wise; what is translated (address, privilege, direction, size, '
         'wasaligned); that the bytes handed to / returned from the hub are the register value with exactly one reversal iff '
         'CPSR.E and byte i goes to address+i mod 2^32; wrapper privileges; instruction fetch independent of CPSR.E with the '
         'top-five-bits length rule. The store/load round trip over real memory is implied (with C16), not decided.',
    note='Trusted: CPython ast; the reference coded in sa/props/c13.py from ARM ARM MemA_with_priv / MemU_with_priv; '
         'translation / hub behaviour is judged by C14/C15/C16.')
CLAIMS['C14'] = dict(
    category='other', design_ref='DESIGN.md section 4 (C14), Appendix A.6',
    technique='bit-vector abstract interpretation of TranslateAddressP with symbolic MPU regions compared with a reference '
              'model by BDD equality (compositional: match predicate for every size with one region, combination logic with '
              'three regions), AST loop-shape rule, exact tables for the PMSA arm of DataAbort, event-order rule over the effect '
              'traces of all 67 load/store classes',
    text='Region match (base, size 2^2..2^32, subregion disable), priority of the highest-numbered enabled matching region, '
         'background-region rule, AP permission table and the abort outcome are proved equal to the reference for every '
         'address, privilege, direction and SCTLR setting; DataAbort never returns and sets DFAR/DFSR per abort type. LR_abt / '
         'SPSR_abt are C11; no base write-back precedes a memory access on any path of any single or block load/store (C14-O).',
    note='Trusted: CPython ast; reference coded in sa/props/c14.py; UNPREDICTABLE region programming excluded; more than '
         'three regions by the loop-shape rule.')

CLAIMS['C15'] = dict(
    category='other', design_ref='DESIGN.md section 4 (C15), Appendix A.6/A.9',
    technique='bit-vector abstract interpretation of the short-descriptor walk, fault encoders, CheckDomain / '
              'CheckPermission, DataAbort (VMSA arm), FCSE and TranslateAddressV dispatch to exact tables compared with '
              'reference models by BDD equality; the stage-1 long-descriptor walk interpreted whole (level loop unrolled) once per '
              '(T0SZ, T1SZ) pair and compared with a reference of TranslationTableWalkLD; AST rules on the level loop and sibling arms',
    text='For every MVA, TTBR0/1, TTBCR.N 0..7 / PD0 / PD1, SCTLR.AFE/HA and every first/second-level descriptor value: the '
         'descriptor addresses, type decision, translation / access-flag faults with level and domain, and the resulting PA, '
         'domain, AP, XN, PXN, nG, NS, level, block size and attribute bits equal the short-descriptor format; fault status '
         'encodings, DFSR/DFAR placement, the domain and AP tables, FCSE, the MMU-off flat map and the walk/check dispatch '
         'are exact. The stage-1 long-descriptor walk (PL1&0 regime) is decided for every input address, TTBR0/1, EPD0/1, '
         'security state and three 64-bit descriptors per (T0SZ, T1SZ) pair (7 pairs quick, all 64 thorough): TTBR / start level '
         'selection, descriptor address per level, fault level, block / page output address, hierarchical attribute bits and '
         'result fields; likewise the Hyp regime (HTTBR / HTCR.T0SZ) and the stage-2 regime (VTTBR / VTCR.T0SZ, SL0; 40-bit IPA). '
         'The composition of the two stages (SecondStageTranslate, CheckPermissionS2) is not decided.',
    note='Trusted: CPython ast; references coded in sa/props/c15.py from the ARM ARM; stage 2 and big-endian descriptor '
         'fetch not in play; hub / translation results symbolic.')

CLAIMS['C17'] = dict(
    category='other', design_ref='DESIGN.md section 4 (C17)',
    technique='bit-vector abstract interpretation of every register-view getter/setter and of the wiring helpers for all '
              'constant positions, decision tables of DecodeImmShift/DecodeRegShift/Shift_C dispatch, argument wiring of the '
              'expand-immediate helpers, AST who-calls rule for the shifter operand width; the arithmetic primitives interpreted '
              'with fully symbolic (bit-interleaved) arguments and compared bit for bit with gate-level / per-amount wiring references',
    text='Second sentence of the property decided completely: every named field of every register view reads and writes '
         'exactly its architectural bits (190 fields, 38 classes, indexed accessors for every index) and a field write changes '
         'no other bit. First sentence: slices, insertions, concatenation, sign extension, byte reversal, RRX, immediate-shift '
         'decoding, Shift_C dispatch and operand width as wiring/tables; AddWithCarry (sum, carry, overflow), add/sub mod 2^32, '
         'LSL_C/LSR_C/ASR_C/ROR_C and Shift_C for every amount 0..255 incl. carry-out, ARM/ThumbExpandImm_C for all 4096 '
         'immediates, SignedSatQ/UnsignedSatQ for every N, to_signed/to_unsigned/sign_extend for every width, BitCount and '
         'LowestSetBit bit-exactly for every argument value (BDD equality at the widths the instruction set uses).',
    note='Trusted: CPython ast; spec/regfields.json (audited against the manual; one deviation corrected); sa/bitdom.py.')

CLAIMS['C19'] = dict(
    category='other', design_ref='DESIGN.md section 4 (C19)',
    technique='who-may-write / dominance analysis over the resolved call graph and the execute() effect traces (privileged '
              'sinks must be inside the gated PSR writers, part of exception entry, or dominated by a privilege test), with the '
              'C12-M / C13-W / C14-R / C11-T equalities re-evaluated for the gated pieces',
    text='No path from any of the 273 execute() bodies reaches a store of privileged state (CPSR.M/A/I/F, SPSRs, banked '
         'registers of a named mode, system / protection / translation registers) except through CPSRWriteByInstr / '
         'SPSRWriteByInstr (gating proved for all inputs), architectural exception entry, or under a privilege test; the set of '
         'direct writers of privileged state is closed; LDRT/STRT-class opcodes and only they use the unprivileged accessor, '
         'which passes privileged=False to a permission check that honours it; exception entry from User mode is exact.',
    note='Trusted: CPython ast; the effect vocabulary / summaries of sa/flow.py, sa/effects.py; reference models of C11/C12/C14.')
CLAIMS['C20'] = dict(
    category='other', design_ref='DESIGN.md section 4 (C20)',
    technique='AST inventory of module/class-level mutable objects and of every run-time write to them, nondeterminism-source '
              'scan, def-before-use dataflow of per-step scratch attributes over the emulate_cycle call tree (incl. the Registers '
              'markers the driver reads: reset unconditionally before the opcode executes), dataflow rule on '
              'the fetch-decode-execute pipeline, constructor freshness / closure rule',
    text='Structural necessary conditions of determinism and isolation: no run-time write to shared mutable state (one known '
         'finding: the configurations singleton reloaded by every constructor), no nondeterminism source, no per-instance '
         'non-architectural state carried from one step to the next (scratch written before read; no memoised decode), '
         'constructor-created state fresh and deep-copyable. Trace equality itself is a property of histories and is not decided.',
    note='Trusted: CPython ast; absence of exec/eval/setattr in the package.')

CLAIMS['C18'] = dict(
    category='other', design_ref='DESIGN.md section 4 (C18), Appendix A.12',
    technique='exception-escape / error-discipline analysis: None-test dominance, exact decode-path host errors from the '
              'decode model, constructor binding, attribute definedness, flow-sensitive definite assignment with if/elif '
              'exhaustiveness from the table domain and the decode field sets, interval analysis of helper assertions and '
              'register indices, raise-class and division-site inventories, width obligations against struct.error, '
              'implicit-None-result rule (fall-off-the-end paths of value-returning functions vs. None tests at their call sites)',
    text='Every enumerated kind of host-error site reachable from a step is discharged: None results are tested before use; '
         'no decoder / from_bitarray path can raise a host error for any word; constructor calls bind; attributes exist; no '
         'local is read before assignment; helper assertions, register-index assertions and the banking lookup cannot fail for '
         'any operand / accepted field combination; only architectural exceptions or NotImplementedError are raised; values '
         'stay in range for struct.pack. Errors that need numeric coincidences outside these domains are not decided.',
    note='Trusted: CPython ast; the decode model and field sets (sa/decode.py, sa/fields.py); configuration validity; '
         'DRegion <= number_of_mpu_regions.')

CLAIMS['C01'] = dict(
    category='other', design_ref='DESIGN.md section 4 (C01)',
    technique='bit-vector abstract interpretation (ROBDD) of the 68 data-processing execute() bodies compared bit for bit with '
              'pseudocode references (shifter compositional); structured effect walk with term normalisation, compared with a '
              'per-instruction role table (operand roles, carry-in, which helper result feeds which flag); frame / dominance / '
              'joint PC-destination rules against the decode model; interval widths; ALUWritePC exact table',
    text='Decides, for every operand value / flag state / shift amount (properties of all paths of loop-free bodies): which '
         'operands are combined how (ADD..RSC carry-in and inversion roles, logical ops, moves, shifts), which result feeds N, Z, '
         'C, V, that flags change only under setflags, that nothing outside {Rd, PC, NZCV} is written, that Rd == PC takes the '
         'ALUWritePC path exactly where decode allows d == 15, guard and widths; AddWithCarry, Shift_C (every amount, incl. carry) and '
         'the expand-immediate helpers are compared bit for bit with gate-level references (C01-H).',
    note='Trusted: CPython ast; the role table in sa/props/c01.py (ARM ARM A8 pseudocode); binding through spec/enc_*.json.')
CLAIMS['C02'] = dict(
    category='other', design_ref='DESIGN.md section 4 (C02)',
    technique='structured effect walk of the 49 single load/store execute() bodies; partial evaluation over every assignment of the '
              'boolean addressing fields (add, index, wback, post_index, register_form) and term comparison with the family template '
              'derived from the bound reference encoding; event-order rule (access and operand reads before register writes); joint '
              'load-to-PC rule against the decode model; exclusive-monitor consistency; frame, guard, interval widths',
    text='Decides, for every base / offset / data value and configuration (properties of all paths of loop-free bodies): the address '
         'expression incl. add/sub selection and mod-2^32 helper, pre/post-index selection, access size and accessor kind, '
         'sign/zero extension, target register(s), stored value truncation, doubleword split and endianness halves, that alignment '
         'tests and rotate amounts use the access address, write-back value and condition, that no write-back or destination write '
         'precedes an access or an operand read, the LoadWritePC path (operand = loaded word, guard, decode-feasible t == 15), '
         'exclusive monitor address/size/status protocol, frame and widths. Not decided: bytes moved for given data/endianness '
         '(C13/C17).',
    note='Trusted: CPython ast; the template in sa/props/c02.py (ARM ARM A8 pseudocode); binding through spec/enc_*.json.')
CLAIMS['C03'] = dict(
    category='other', design_ref='DESIGN.md section 4 (C03)',
    technique='structured effect walk of the 18 block-transfer execute() bodies with loop-carried variables; loop-shape rule '
              '(range(15), bit test, running address stepped by add(address,4,32), register i / user bank); linear forms mod 2^32 of '
              'start address and write-back value over base, BitCount(registers<14:0>) and registers<15> (fixed by the decode model '
              'where the encoding fixes it) compared with the addressing-mode table for every assignment of increment / word_higher / '
              'wback; write-back and UNKNOWN guards; event-order rule; frame, guard, interval widths',
    text='Decides, for every register list, base value and mode (shape of a bounded loop plus loop-free code): ascending order and '
         'one word per listed register at consecutive addresses, PC slot after the loop, start and final address for IA/IB/DA/DB, '
         'PUSH/POP, user-bank, exception-return LDM, SRS and RFE incl. mod-2^32 arithmetic, write-back only when selected and not of a '
         'just-loaded base, UNKNOWN stores only in the base-in-list-not-lowest case, no write-back before an access, frame and widths. '
         'PUSH;POP restoring SP is derived from the two table rows. Not decided: memory contents for a concrete list (run-time).',
    note='Trusted: CPython ast; the table in sa/props/c03.py (ARM ARM A8/B9 pseudocode); binding through spec/enc_*.json.')
CLAIMS['C04'] = dict(
    category='other', design_ref='DESIGN.md section 4 (C04), Appendix A.7',
    technique='ordering / ownership rules on the PC-advance mechanism, exact tables of the PC read and the four PC-write '
              'functions by bit-vector abstract interpretation against a reference, normalised effect templates of every '
              'branch opcode, reference wiring of branch offsets, interval widths',
    text='PC advances by the fetched length exactly when the instruction did not branch; R15 reads address + 8 / + 4; '
         'BranchWritePC / BXWritePC / ALUWritePC / LoadWritePC equal the reference for every address, instruction-set state and '
         'architecture version and keep the PC aligned; B, BL/BLX, BX, CBZ/CBNZ, TBB/TBH produce the architectural target, link '
         'value (bit 0 from Thumb) and instruction-set switch; offsets are sign-extended and scaled per the reference wiring '
         '(known finding: CBZ scale).',
    note='Trusted: CPython ast; sa/refmodel.py + tables in sa/props/c04.py; spec/enc_*.json.')

PENDING = 'checker not armed yet in this session (under construction); nothing is claimed for it until its rules run clean'

checks = []
na = []
for p in props:
    pid = p['id']
    c = CLAIMS.get(pid)
    if c is None:
        na.append({'property_id': pid, 'reason': PENDING})
        continue
    checks.append({
        'property_id': pid,
        'quick_cmd': './check %s --tier quick' % pid,
        'thorough_cmd': './check %s --tier thorough' % pid,
        'evidence_file': '/verif/evidence/%s.json' % pid,
        'replay_cmd_template': './check %s --tier quick --replay {path}' % pid,
        'engine': 'sa',
        'level_claimed': {'category': c['category'], 'text': c['text'], 'design_ref': c['design_ref']},
        'level_note': c['note'],
        'technique': c['technique'],
    })

m = {
    'version': 1,
    'setup_cmd': 'python3 -m compileall -q sa check >/dev/null 2>&1 || true',
    'hooks': {'guard': 'ARMULATOR_VERIF',
              'enable': 'none needed: the checks parse /repo with ast and never import or run armulator',
              'baseline_off_cmd': 'cd /repo && /venv/bin/python -m pytest -ra -q -p no:cacheprovider --timeout=900 '
                                  '--continue-on-collection-errors',
              'source_commits': [], 'add_only': True},
    'engines': [{'name': 'sa', 'path': '/verif/sa', 'serves_properties': sorted(CLAIMS),
                 'kind_free_text': 'repository-specific static analysis: ast source model + resolver, in-house ROBDD '
                                   'table domain / bit-vector abstract interpreter, structured effect walker, '
                                   'interval analysis; no execution of repo code, no solver'}],
    'checks': checks,
    'notes': 'Static analysis only; see DESIGN.md. Exit 0 ok / 1 VIOLATION / 2 ANALYSIS-ERROR (fail closed). A violation that was '
             'established before a later rule met a construct it cannot analyse is still reported (exit 1, evidence marked INCOMPLETE). '
             'Every run is bounded (VERIF_MAX_SECONDS, default 900 quick / 14400 thorough; VERIF_MAX_MEM_GB, default 6 / 24): a tree on '
             'which a symbolic evaluation explodes ends as ANALYSIS-ERROR. C05/C13/C14/C15/C16/C17/C19/C20 additionally share the memo '
             'detector (<ID>-MEMO, sa/memo.py): no function of their scope returns a result remembered from an earlier call under an '
             'incomplete key. Regression corpora: seeded/ (270 breaking changes, all caught) and benign/ (240 behaviour-preserving '
             'refactorings, all silent); tools/regress.sh re-runs them. VERIF_EVIDENCE_DIR redirects the evidence of such sweeps.',
    'not_applicable': na,
}
json.dump(m, open(os.path.join(HERE, 'MANIFEST.json'), 'w'), indent=1)
print('claimed', sorted(CLAIMS), 'not_applicable', len(na))
