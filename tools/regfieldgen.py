#!/usr/bin/env python3
"""Development tool: prints a draft of spec/regfields.json from the tree (field -> list of bit
positions MSB first, as read by the getter).  The draft is audited against the architecture
manual before being committed (NOT a registered check)."""
import json, os, sys
HERE = os.path.dirname(os.path.dirname(os.path.abspath(__file__)))
sys.path.insert(0, HERE)
from sa.srcmodel import Repo
from sa.props.c17 import view_classes, getter_bits

repo = Repo(sys.argv[1] if len(sys.argv) > 1 else '/repo')
out = {}
for ci in view_classes(repo):
    d = {}
    for name in sorted(ci.getters):
        b = getter_bits(repo, ci, name)
        d[name] = b
    out[ci.name] = d
json.dump(out, open(os.path.join(HERE, 'spec', 'regfields.json'), 'w'), indent=1, sort_keys=True)
print(len(out), 'classes', sum(len(v) for v in out.values()), 'fields')
