#!/usr/bin/env python3
"""Refresh the `caught_by` field of /verif/seeded/*/meta.json from the per-entry files a regression sweep wrote
(MATRIXDIR=<dir> tools/regress.sh seeded).  usage: refreshmeta.py <matrix dir>"""
import json
import os
import subprocess
import sys

mdir = sys.argv[1]
head = subprocess.run(['git', '-C', '/repo', 'rev-parse', '--short', 'HEAD'], capture_output=True, text=True).stdout.strip()
vhead = subprocess.run(['git', '-C', '/verif', 'rev-parse', '--short', 'HEAD'], capture_output=True, text=True).stdout.strip()
n = miss = 0
for sid in sorted(os.listdir('/verif/seeded')):
    mf = os.path.join(mdir, sid + '.txt')
    meta_p = os.path.join('/verif/seeded', sid, 'meta.json')
    if not os.path.isfile(mf) or not os.path.isfile(meta_p):
        continue
    caught = []
    for line in open(mf):
        p = line.split()
        if len(p) >= 2 and p[1] == '1':
            caught.append({'check': p[0], 'rules': [r for r in p[2:] if r != 'rule']})
        elif len(p) >= 2 and p[1] == '2':
            caught.append({'check': p[0], 'analysis_error': True})
    meta = json.load(open(meta_p))
    meta['caught_by'] = sorted(caught, key=lambda c: c['check'])
    meta['checks_run'] = ('all 20 quick checks (./check <ID> --tier quick --repo <worktree with the patch>), last sweep with /repo at %s and '
                          '/verif at %s' % (head, vhead))
    json.dump(meta, open(meta_p, 'w'), indent=1)
    n += 1
    if not any(not c.get('analysis_error') for c in caught):
        miss += 1
        print('NOT CAUGHT:', sid)
print('refreshed', n, 'not caught', miss)
