#!/bin/bash
# Runs every quick check against every behaviour-preserving refactoring under /verif/benign (each applied to a scratch
# worktree of /repo, outside /repo and /verif, removed afterwards).  Any non-zero exit is a false alarm (1) or a construct
# the analysis cannot follow (2).  usage: tools/benigntest.sh [jobs]
jobs=${1:-3}
tmp=$(mktemp -d)
run_one() {
  b=$1; tmp=$2
  wt=$tmp/wt_$b
  git -C /repo worktree add -q --detach $wt HEAD 2>/dev/null
  if ! git -C $wt apply /verif/benign/$b/patch.diff 2>/dev/null; then echo "$b NOAPPLY"; git -C /repo worktree remove --force $wt; return; fi
  bad=""
  for c in C01 C02 C03 C04 C05 C06 C07 C08 C09 C10 C11 C12 C13 C14 C15 C16 C17 C18 C19 C20; do
    ( cd /verif && ./check $c --tier quick --repo $wt > $tmp/$b.$c.out 2>&1; echo $? > $tmp/$b.$c.rc ) &
  done
  wait
  for c in C01 C02 C03 C04 C05 C06 C07 C08 C09 C10 C11 C12 C13 C14 C15 C16 C17 C18 C19 C20; do
    r=$(cat $tmp/$b.$c.rc); [ "$r" != "0" ] && bad="$bad $c($r)"
  done
  git -C /repo worktree remove --force $wt
  echo "$b:${bad:- silent}"
}
export -f run_one
ls /verif/benign | xargs -P $jobs -I{} bash -c "run_one {} $tmp"
rm -rf $tmp; git -C /repo worktree prune
echo "evidence files were rewritten by these runs: run tools/runall.sh before committing"
