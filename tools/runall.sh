#!/bin/bash
# Runs every claimed check (quick tier by default) on the current /repo tree, in parallel, and
# prints one line per check; regenerates /verif/evidence/*.json.  usage: tools/runall.sh [quick|thorough]
tier=${1:-quick}
cd /verif || exit 9
ids=$(python3 -c "import json;print(' '.join(c['property_id'] for c in json.load(open('MANIFEST.json'))['checks']))")
tmp=$(mktemp -d)
for id in $ids; do ( ./check $id --tier $tier > $tmp/$id.out 2>&1; echo $? > $tmp/$id.rc ) & done
wait
rc=0
for id in $ids; do r=$(cat $tmp/$id.rc); echo "$id exit=$r $(tail -1 $tmp/$id.out | cut -c1-150)"; [ "$r" != "0" ] && { rc=1; grep -A2 "^VIOLATION\|ANALYSIS-ERROR" $tmp/$id.out | head -20; }; done
rm -rf $tmp
python3-vt - <<'PY'
import json,jsonschema,glob
m=json.load(open('/verif/MANIFEST.json')); jsonschema.validate(m,json.load(open('/root/.vp/MANIFEST.schema.json')))
es=json.load(open('/root/.vp/EVIDENCE.schema.json'))
for c in m['checks']:
    e=json.load(open(c['evidence_file'])); jsonschema.validate(e,es)
    cov=e['coverage']
    if e['level']=='proof' and cov['obligations']!=cov['discharged']: print('PROOF LEVEL MISMATCH',c['property_id'],cov['obligations'],cov['discharged'])
    assert e['level']==c['level_claimed']['category'],(c['property_id'],e['level'])
print('manifest + evidence schemas ok')
PY
exit $rc
