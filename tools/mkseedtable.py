#!/usr/bin/env python3
"""Regenerate the table of DESIGN.md section 11 from /verif/seeded/*/meta.json.

The rows between `<!-- seedtable:begin -->` and `<!-- seedtable:end -->` are replaced; the hand-written
short titles of rows that already exist are kept, new rows take the first line of the seed's notes.md."""
import json
import os
import re

D = '/verif/DESIGN.md'
S = '/verif/seeded'
src = open(D).read()
b, e = src.index('<!-- seedtable:begin -->'), src.index('<!-- seedtable:end -->')
old = dict(re.findall(r'^\| (C\d+-m\d+) \| (.*?) \| [^|]*\|$', src[b:e], re.M))


def key(s):
    m = re.match(r'C(\d+)-m(\d+)', s)
    return int(m.group(1)), int(m.group(2))


rows, own, total, by_rule = [], 0, 0, {}
for sid in sorted((d for d in os.listdir(S) if re.match(r'C\d+-m\d+$', d)), key=key):
    meta = json.load(open(os.path.join(S, sid, 'meta.json')))
    title = old.get(sid) or re.sub(r'\s+', ' ', meta['title']).replace('|', '/')
    title = re.sub(r'^(?:C\d+\s*[/-]?\s*)?(?:round \d\s*[/-]?\s*)?(?:m\d|mutation \d)\s*[:/-]*\s*', '', title, flags=re.I).strip(' -:\u2014\u2013')
    if len(title) > 130:
        title = title[:127] + '...'
    cb = []
    for c in meta['caught_by']:
        if c.get('analysis_error'):
            cb.append('%s (exit 2)' % c['check'])
        else:
            letters = ' '.join(sorted({r.split('-', 1)[1] for r in c['rules'] if '-' in r}))
            cb.append('%s [%s]' % (c['check'], letters) if letters else c['check'])
            for r in c['rules']:
                by_rule[r] = by_rule.get(r, 0) + 1
    total += 1
    if any(c['check'] == meta['property'] and not c.get('analysis_error') for c in meta['caught_by']):
        own += 1
    rows.append('| %s | %s | %s |' % (sid, title, ', '.join(cb) or '**not caught**'))
table = '<!-- seedtable:begin -->\n| seed | change | caught by |\n|---|---|---|\n' + '\n'.join(rows) + '\n'
open(D, 'w').write(src[:b] + table + src[e:])
print('rows', total, 'caught by own check', own, 'uncaught', sum('not caught' in r for r in rows))
print('rules that fired most:', sorted(by_rule.items(), key=lambda kv: -kv[1])[:15])
