#!/usr/bin/env python3
"""Development tool (NOT a registered check): prints / writes a draft of the
encoding reference tables from a tree, in the canonical form used by
/verif/spec/enc_*.json.  The draft is audited against the architecture manual
before being committed; where the tree deviates from the architecture the
tree is repaired first (fix: commits) or the entry is corrected by hand.

usage: tools/specgen.py [--repo /repo] [--out /verif/spec]
"""
import argparse
import json
import os
import sys

HERE = os.path.dirname(os.path.dirname(os.path.abspath(__file__)))
sys.path.insert(0, HERE)
sys.setrecursionlimit(20000)

from sa.srcmodel import Repo          # noqa: E402
from sa.bdd import BDD                # noqa: E402
from sa import decode, spec           # noqa: E402


def care(B, em):
    return B.AND(em.region, B.var('ARCH[2]'))


def gen_root(repo, root, B):
    rm = decode.build(repo, root, B)
    p = rm.part
    nb = rm.nbits
    out = {'root': root, 'nbits': nb,
           'domain': spec.region_to_json(B, p.domain, nb),
           'decoder': {
               'not_implemented': spec.region_to_json(B, p.raises.get('NotImplementedError', 0), nb),
               'undefined': spec.region_to_json(
                   B, B.OR(p.raises.get('UndefinedInstructionException', 0), p.none), nb)},
           'encodings': {}}
    for name, em in sorted(rm.encodings.items()):
        e = {'abstract': em.abstract,
             'pattern': decode.pattern(B, em.region, nb),
             'region': spec.region_to_json(B, em.region, nb),
             # recorded *within* region (and ARCH in 4..7): the full set is region & cubes;
             # the accepting set is region minus (undef | unpred | other)
             'undef': spec.region_to_json(B, B.simplify(em.undef, care(B, em)), nb),
             'unpred': spec.region_to_json(B, B.simplify(em.unpred, care(B, em)), nb),
             'kwargs': {}}
        rest = B.AND(care(B, em), B.NOT(B.all_or([em.accept, em.undef, em.unpred] + list(em.other_raise.values()))))
        if rest != 0:
            raise SystemExit('%s: from_bitarray outcomes do not cover the region' % name)
        if em.other_raise:
            e['other'] = {k: spec.region_to_json(B, B.simplify(c, care(B, em)), nb)
                          for k, c in sorted(em.other_raise.items())}
        for k, v in sorted(em.kwargs.items()):
            if k == '#0':
                continue
            e['kwargs'][k] = spec.value_to_json(B, v, nb, em.accept)
        out['encodings'][name] = e
    return out


# Entries where the pinned tree deviates from the architecture and the deviation cannot be
# repaired without editing the existing test-suite (the tests assert the deviating value).
# The table records the ARCHITECTURE; the tree's deviation is then a (known) finding.
CORRECTIONS = {
    ('T16', 'CbzT1', 'imm32'): ([{'int': ['i[9]', 'i[7:3]', '0b0']}],
                                "imm32 = ZeroExtend(i:imm5:'0', 32) (ARM ARM A8.8.29); tree shifts by 2"),
    ('T32', 'PushT2', 'unaligned_allowed'): ([{'int': ['0b0']}],
                                             'PUSH T2: UnalignedAllowed = FALSE (ARM ARM A8.8.133); tree passes True'),
}


def main():
    ap = argparse.ArgumentParser()
    ap.add_argument('--repo', default='/repo')
    ap.add_argument('--out', default=os.path.join(HERE, 'spec'))
    args = ap.parse_args()
    repo = Repo(args.repo)
    B = BDD()
    for root, fn in (('ARM', 'enc_arm.json'), ('T16', 'enc_t16.json'), ('T32', 'enc_t32.json')):
        d = gen_root(repo, root, B)
        for (r, enc, kw), (val, why) in CORRECTIONS.items():
            if r == root:
                d['encodings'][enc]['kwargs'][kw] = val
                d['encodings'][enc].setdefault('corrections', {})[kw] = why
        with open(os.path.join(args.out, fn), 'w') as fh:
            json.dump(d, fh, indent=1, sort_keys=True)
        print(root, len(d['encodings']), 'encodings ->', fn)


if __name__ == '__main__':
    main()
