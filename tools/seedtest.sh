#!/bin/bash
# usage: tools/seedtest.sh <patch.diff> <PROP> [<PROP>...]
# Applies a seeded change to /repo, runs the named checks, and always reverts.
patch="$1"; shift
cd /repo || exit 9
if ! git diff --quiet || ! git diff --cached --quiet; then echo "REPO DIRTY - refusing"; exit 9; fi
if ! git apply "$patch" 2>/dev/null; then
  if ! git apply --3way "$patch" 2>/dev/null; then echo "PATCH DOES NOT APPLY: $patch"; git reset -q --hard HEAD; exit 8; fi
fi
for p in "$@"; do
  out=$(cd /verif && VERIF_EVIDENCE_DIR=$(mktemp -d /tmp/seedtest_ev.XXXXXX) ./check "$p" 2>&1); rc=$?   # evidence of a patched tree never lands in /verif/evidence
  echo "== $p exit=$rc"; echo "$out" | grep -A2 "^VIOLATION\|ANALYSIS-ERROR" | grep -v "^--" | head -12
done
git reset -q --hard HEAD; git status --short | head -3
