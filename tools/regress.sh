#!/bin/bash
# Regression sweep: every stored change (seeded/<id> must be caught, benign/<id> must be silent) against all twenty quick
# checks.  Each patch is applied to a scratch worktree of /repo (outside /repo and /verif, removed afterwards); evidence of
# these runs goes to a scratch directory so that /verif/evidence keeps coming from /repo itself.
# usage: tools/regress.sh [seeded|benign|<directory of entries>] [jobs]      output: one line per entry on stdout
what=${1:-seeded}; jobs=${2:-4}
case "$what" in seeded|benign) base=/verif/$what ;; *) base=$what ;; esac
tmp=$(mktemp -d /tmp/regress.XXXXXX)
export tmp base
one() {
  id=$1; d=$base/$id
  p=$d/patch.diff; [ -f $d/patch_rebased.diff ] && p=$d/patch_rebased.diff
  [ -f $p ] || return
  tag=$(echo $id | tr '/' '_')
  wt=$tmp/wt_$tag
  git -C /repo worktree add -q --detach $wt HEAD 2>/dev/null
  if ! git -C $wt apply $p 2>/dev/null && ! git -C $wt apply -3 $p 2>/dev/null; then
    echo "$id NOAPPLY"; git -C /repo worktree remove --force $wt; return
  fi
  out=$tmp/$tag.txt; : > $out
  for c in ${CHECKS:-C01 C02 C03 C04 C05 C06 C07 C08 C09 C10 C11 C12 C13 C14 C15 C16 C17 C18 C19 C20}; do
    ( res=$(cd /verif && VERIF_EVIDENCE_DIR=$tmp/ev_$tag ./check $c --tier quick --repo $wt 2>&1); rc=$?
      rules=$(echo "$res" | grep -o "rule C[0-9]*-[A-Za-z0-9]*" | sort -u | tr '\n' ' ')
      echo "$c $rc $rules" >> $out ) &
  done
  wait
  git -C /repo worktree remove --force $wt; rm -rf $tmp/ev_$tag
  [ -n "$MATRIXDIR" ] && cp $out $MATRIXDIR/$tag.txt
  echo "$id: $(sort $out | awk '$2!=0{printf "%s(%s) ", $1, $2}')"
}
export -f one
(cd $base && ls -d */ 2>/dev/null | sed 's#/$##'; [ -n "$SUBDIRS" ] && for s in $SUBDIRS; do ls -d */$s 2>/dev/null; done) | sort -u | \
  while read e; do [ -f $base/$e/patch.diff ] && echo $e; done | xargs -P $jobs -I{} bash -c "one {}"
rm -rf $tmp; git -C /repo worktree prune
