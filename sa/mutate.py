"""In-memory AST mutants of one function (thorough-tier sensitivity self-tests).

`mutants(source, qualname)` yields (description, new_source) for single-point edits inside the
named function/method: arithmetic and bitwise operator swaps, comparison boundary changes,
integer constants +-1, swapped first two call arguments, negated `if` tests, deleted expression
statements (calls), swapped if/else arms.  Nothing is written to disk; the caller hands the new
source to `Repo(..., overrides=...)`.
"""
import ast
import copy

BINOPS = {ast.Add: ast.Sub, ast.Sub: ast.Add, ast.BitAnd: ast.BitOr, ast.BitOr: ast.BitAnd, ast.BitXor: ast.BitAnd,
          ast.LShift: ast.RShift, ast.RShift: ast.LShift, ast.Mult: ast.Add}
CMPOPS = {ast.Lt: ast.LtE, ast.LtE: ast.Lt, ast.Gt: ast.GtE, ast.GtE: ast.Gt, ast.Eq: ast.NotEq, ast.NotEq: ast.Eq}


def _find(tree, qualname):
    parts = qualname.split('.')
    body = tree.body
    node = None
    for p in parts:
        node = next((n for n in body if isinstance(n, (ast.ClassDef, ast.FunctionDef)) and n.name == p), None)
        if node is None:
            return None
        body = node.body
    return node


def _sites(fn):
    """[(kind, path index)] enumerating mutation points in a stable order."""
    out = []
    for i, n in enumerate(ast.walk(fn)):
        if isinstance(n, ast.BinOp) and type(n.op) in BINOPS:
            out.append(('binop', i))
        elif isinstance(n, ast.Compare) and len(n.ops) == 1 and type(n.ops[0]) in CMPOPS:
            out.append(('cmp', i))
        elif isinstance(n, ast.Constant) and isinstance(n.value, int) and not isinstance(n.value, bool):
            out.append(('const+', i))
            if n.value > 0:
                out.append(('const-', i))
        elif isinstance(n, ast.Call) and len(n.args) >= 2 and not n.keywords and \
                ast.dump(n.args[0]) != ast.dump(n.args[1]):
            out.append(('swapargs', i))
        elif isinstance(n, ast.If):
            out.append(('negate', i))
        elif isinstance(n, ast.IfExp):
            out.append(('swaparms', i))
        elif isinstance(n, ast.Expr) and isinstance(n.value, ast.Call):
            out.append(('delete', i))
    return out


def mutants(source, qualname, kinds=None, limit=None):
    tree = ast.parse(source)
    fn = _find(tree, qualname)
    if fn is None:
        return
    sites = _sites(fn)
    if kinds is not None:
        sites = [s for s in sites if s[0] in kinds]
    if limit is not None and len(sites) > limit:
        step = len(sites) / float(limit)
        sites = [sites[int(k * step)] for k in range(limit)]
    for kind, idx in sites:
        t2 = copy.deepcopy(tree)
        f2 = _find(t2, qualname)
        node = list(ast.walk(f2))[idx]
        before = ast.unparse(node)[:70]
        if kind == 'binop':
            node.op = BINOPS[type(node.op)]()
        elif kind == 'cmp':
            node.ops = [CMPOPS[type(node.ops[0])]()]
        elif kind == 'const+':
            node.value = node.value + 1
        elif kind == 'const-':
            node.value = node.value - 1
        elif kind == 'swapargs':
            node.args[0], node.args[1] = node.args[1], node.args[0]
        elif kind == 'negate':
            node.test = ast.UnaryOp(op=ast.Not(), operand=node.test)
        elif kind == 'swaparms':
            node.body, node.orelse = node.orelse, node.body
        elif kind == 'delete':
            node.value = ast.Constant(value=None)
        ast.fix_missing_locations(t2)
        after = ast.unparse(node)[:70]
        try:
            new = ast.unparse(t2)
        except Exception:       # noqa
            continue
        yield '%s: `%s` -> `%s`' % (kind, before, after), new
