"""Findings, known-findings matching, evidence writing, exit codes.

Exit 0: every armed rule instance holds (known findings printed).
Exit 1: ``VIOLATION property=<id> replay=<path>`` per unlisted violation.
Exit 2: ``ANALYSIS-ERROR`` - the analysis cannot give a verdict it owes.
"""
import hashlib
import json
import os
import sys
import time

VERIF = os.path.dirname(os.path.dirname(os.path.abspath(__file__)))
# regression sweeps over scratch worktrees (tools/seedtest.sh, tools/benigntest.sh) redirect their evidence so that the
# committed evidence always comes from a run against /repo itself
EVIDENCE = os.environ.get('VERIF_EVIDENCE_DIR') or os.path.join(VERIF, 'evidence')


class AnalysisError(Exception):
    pass


class Finding:
    def __init__(self, rule, file, func, construct, message, detail=None):
        self.rule = rule
        self.file = file
        self.func = func
        self.construct = construct
        self.message = message
        self.detail = detail or {}

    @property
    def key(self):
        return '%s|%s|%s|%s' % (self.rule, self.file, self.func, self.construct)

    def as_dict(self):
        return {'rule': self.rule, 'file': self.file, 'function': self.func,
                'construct': self.construct, 'message': self.message, 'detail': self.detail,
                'key': self.key}


MAIN_RUN = None      # the first Run of the process (the one a property's main() creates)


class Run:
    """Collects what one check run analysed and found."""

    def __init__(self, prop, tier='quick', level='other', seed=0):
        self.prop = prop
        self.tier = tier
        self.level = level
        self.seed = seed
        self.t0 = time.time()
        self.findings = []
        self.rules = {}        # rule id -> dict(instances, nontrivial, obligations, discharged, text)
        self.samples = []
        self.notes = []
        self.controls = []     # positive controls: (name, fired)
        self.extra = {}
        self.assumptions = []
        self.trusted_base = ['CPython ast', 'reference tables under /verif/spec (audited transcription)']
        self.undecided = []
        self.exhaustive = False
        self._distinct = set()
        global MAIN_RUN
        if MAIN_RUN is None:
            MAIN_RUN = self

    # -- recording -----------------------------------------------------
    def rule(self, rid, text):
        r = self.rules.setdefault(rid, {'text': text, 'instances': 0, 'nontrivial': 0,
                                        'obligations': 0, 'discharged': 0, 'violations': 0})
        r['text'] = text
        return r

    def instance(self, rid, ident, obligations=1, ok=True, nontrivial=True, sample=None):
        """One rule instance (e.g. one function judged by one rule)."""
        r = self.rules.setdefault(rid, {'text': '', 'instances': 0, 'nontrivial': 0,
                                        'obligations': 0, 'discharged': 0, 'violations': 0})
        r['instances'] += 1
        r['obligations'] += obligations
        if ok:
            r['discharged'] += obligations
        if nontrivial and obligations > 0:
            key = (rid, ident)
            if key not in self._distinct:
                self._distinct.add(key)
                r['nontrivial'] += 1
        if sample is not None and len(self.samples) < 40:
            per_rule = sum(1 for s in self.samples if s.get('rule') == rid)
            if per_rule < 3:
                s = {'rule': rid, 'instance': ident}
                s.update(sample)
                self.samples.append(s)

    def violation(self, rule, file, func, construct, message, detail=None):
        f = Finding(rule, file, func, construct, message, detail)
        # de-duplicate by key
        for g in self.findings:
            if g.key == f.key:
                return g
        self.findings.append(f)
        r = self.rules.setdefault(rule, {'text': '', 'instances': 0, 'nontrivial': 0,
                                         'obligations': 0, 'discharged': 0, 'violations': 0})
        r['violations'] += 1
        return f

    def control(self, name, fired, what=''):
        """Positive control: a known-bad in-memory variant the rule must flag.  `what` empty means the
        variant could not be constructed on this tree (its anchor was edited): recorded, not a failure."""
        if not what:
            self.controls.append({'control': name, 'fired': None, 'what': 'not constructible on this tree (anchor edited)'})
        else:
            self.controls.append({'control': name, 'fired': bool(fired), 'what': what})

    def floor(self, what, measured, minimum):
        if measured < minimum:
            raise AnalysisError('instance floor: %s analysed %d < confirmed %d (a rule matching too few sites '
                                'would pass vacuously)' % (what, measured, minimum))
        self.extra.setdefault('floors', {})[what] = {'measured': measured, 'floor': minimum}

    def note(self, s):
        self.notes.append(s)

    # -- finishing -----------------------------------------------------
    def finish(self, explanation, checker_cmd, partial=None):
        """partial: message of the AnalysisError that stopped the run after violations had already been established -
        they are reported (exit 1); the rules that did not run are named in the evidence notes."""
        if partial is not None:
            self.controls = [c for c in self.controls if c['fired'] is not False]
            self.notes.append('INCOMPLETE RUN: the analysis stopped with `%s` after the violations below had been established; '
                              'the remaining rules of this property were not evaluated' % partial)
            self.exhaustive = False
        known = load_known()
        listed = {k['key']: k for k in known.get('findings', []) if k.get('property') == self.prop}
        unlisted = []
        known_hit = []
        for f in self.findings:
            if f.key in listed:
                known_hit.append(f)
            else:
                unlisted.append(f)
        for c in self.controls:
            if c['fired'] is False:
                raise AnalysisError('positive control %r did not fire - the rule would pass vacuously' % c['control'])
        for f in known_hit:
            print('KNOWN-FINDING: property=%s %s [%s %s] %s' % (self.prop, listed[f.key].get('what', f.message),
                                                                 f.file, f.func, f.rule))
        replay_dir = os.path.join(EVIDENCE, 'replay')
        for f in unlisted:
            os.makedirs(replay_dir, exist_ok=True)
            h = hashlib.sha1(f.key.encode()).hexdigest()[:12]
            p = os.path.join(replay_dir, '%s-%s.json' % (self.prop, h))
            with open(p, 'w') as fh:
                json.dump(f.as_dict(), fh, indent=1, sort_keys=True)
            print('VIOLATION property=%s replay=%s' % (self.prop, p))
            print('  rule %s: %s :: %s :: %s' % (f.rule, f.file, f.func, f.construct))
            print('  %s' % f.message)
        evaluations = sum(r['instances'] for r in self.rules.values())
        distinct = sum(r['nontrivial'] for r in self.rules.values())
        obligations = sum(r['obligations'] for r in self.rules.values())
        discharged = sum(r['discharged'] for r in self.rules.values())
        cov = {
            'explanation': explanation,
            'evaluations': evaluations,
            'distinct_nontrivial': distinct,
            'rule': 'one evaluation = one rule instance (a function, class, table row or call site judged by one '
                    'rule) computed from the ast of /repo on this run; non-trivial = the instance carried at '
                    'least one obligation (effect, branch, field or table row to judge); distinct by (rule, construct)',
            'samples': self.samples or [{'note': 'no instances'}],
            'obligations': obligations,
            'discharged': discharged,
            'checker_cmd': checker_cmd,
            'trusted_base': self.trusted_base,
            'exhaustive': self.exhaustive,
            'rules': self.rules,
            'positive_controls': self.controls,
            'undecided_clauses': self.undecided,
            'known_findings_matched': [f.as_dict() for f in known_hit],
            'violations_unlisted': [f.as_dict() for f in unlisted],
            'notes': self.notes,
        }
        cov.update(self.extra)
        ev = {
            'property_id': self.prop,
            'tier': self.tier,
            'seed': self.seed,
            'level': self.level,
            'coverage': cov,
            'assumptions': self.assumptions,
            'wall_s': round(time.time() - self.t0, 3),
            'violations': len(unlisted),
        }
        os.makedirs(EVIDENCE, exist_ok=True)
        with open(os.path.join(EVIDENCE, '%s.json' % self.prop), 'w') as fh:
            json.dump(ev, fh, indent=1, sort_keys=True, default=str)
        print('%s %s: %d rule instances, %d obligations (%d discharged), %d known finding(s), %d violation(s), %.2fs'
              % (self.prop, self.tier, evaluations, obligations, discharged, len(known_hit), len(unlisted),
                 time.time() - self.t0))
        return 1 if unlisted else 0


def load_known():
    p = os.path.join(VERIF, 'known_findings.json')
    if not os.path.exists(p):
        return {'findings': [], 'fixed': []}
    with open(p) as fh:
        return json.load(fh)


def write_error_evidence(prop, tier, msg):
    """Evidence for a run that ended with an analysis error (still rewritten)."""
    os.makedirs(EVIDENCE, exist_ok=True)
    ev = {'property_id': prop, 'tier': tier, 'seed': 0, 'level': 'other',
          'coverage': {'explanation': 'ANALYSIS-ERROR: ' + msg, 'evaluations': 0, 'distinct_nontrivial': 0},
          'wall_s': 0.0, 'violations': 0}
    with open(os.path.join(EVIDENCE, '%s.json' % prop), 'w') as fh:
        json.dump(ev, fh, indent=1)
