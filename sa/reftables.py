"""Reference tables transcribed from the ARM Architecture Reference Manual (ARMv7-A/R
edition) pseudocode - see DESIGN.md Appendix A.  Keyed by semantic identity; compared with
what the analyses extract from the tree as truth tables / decision tables."""

# A.2  ConditionPassed(): cond[3:1] selects the base predicate over N,Z,C,V; the result is
# inverted when cond[0] == 1 and cond != 1111.
COND_BASE = {
    0b000: 'Z',
    0b001: 'C',
    0b010: 'N',
    0b011: 'V',
    0b100: 'C & !Z',
    0b101: 'N == V',
    0b110: 'N == V & !Z',
    0b111: '1',
}

# Architecturally unconditional instructions (they ignore / have no condition): the reference
# encodings whose abstract opcode may run its effects without a ConditionPassed() guard.
UNCONDITIONAL_ENCODINGS = {
    'BkptA1': 'BKPT: "BKPT is always executed" - cond must be 1110, and in Thumb it is unconditional even inside an IT block (A8.8.24)',
    'BkptT1': 'BKPT (see BkptA1)',
    'CbzT1': 'CBZ/CBNZ: no condition field, not permitted in an IT block (A8.8.29)',
    'CpsArmA1': 'CPS (ARM): unconditional encoding space cond=1111 (B9.3.2)',
    'CpsThumbT1': 'CPS (Thumb): not permitted in an IT block (B9.3.2)',
    'CpsThumbT2': 'CPS (Thumb): not permitted in an IT block (B9.3.2)',
    'EnterxLeavexT1': 'ENTERX/LEAVEX: unconditional (A9.3.1)',
    'ItT1': 'IT: not itself conditional; not permitted in an IT block (A8.8.54)',
    'SetendA1': 'SETEND (ARM): unconditional encoding space cond=1111 (A8.8.157)',
    'SetendT1': 'SETEND (Thumb): not permitted in an IT block (A8.8.157)',
}
