"""Binding of reference encodings to the tree's classes *without relying on names*:
an encoding of /verif/spec/enc_*.json is bound to the class the decoder returns for its
region (name first, identical region as the fallback for renamed classes).  Per-opcode
rules are instantiated through this binding (family tags, exemptions)."""
from . import decode, spec
from .bdd import BDD
from .report import AnalysisError

SPEC_FILES = {'ARM': 'enc_arm.json', 'T16': 'enc_t16.json', 'T32': 'enc_t32.json'}


class Binding:
    def __init__(self, repo, B=None):
        self.repo = repo
        self.B = B or BDD()
        self.parts = {}
        self.enc2cls = {}
        self.enc_root = {}
        self.unbound = []
        for root, fn in SPEC_FILES.items():
            sp = spec.load(fn)
            part = decode.partition(repo, root, self.B)
            self.parts[root] = part
            free = set(part.classes)
            pending = []
            for name in sp['encodings']:
                self.enc_root[name] = root
                if name in part.classes:
                    self.enc2cls[name] = name
                    free.discard(name)
                else:
                    pending.append(name)
            for name in pending:
                reg = spec.region_from_json(self.B, sp['encodings'][name]['region'], sp['nbits'])
                hit = [c for c in free if part.classes[c] == reg]
                if hit:
                    self.enc2cls[name] = hit[0]
                    free.discard(hit[0])
                else:
                    self.unbound.append(name)
        self.cls2enc = {c: e for e, c in self.enc2cls.items()}

    def abstract_of_encoding(self, enc):
        c = self.enc2cls.get(enc)
        if c is None:
            return None
        ci = self.repo.cls(c)
        return ci.bases[0] if ci.bases else None

    def abstract_classes_of(self, encs):
        out = {}
        for e in encs:
            a = self.abstract_of_encoding(e)
            if a is not None:
                out[a.name] = a
        return out

    def encodings_of_abstract(self, aname):
        out = []
        for e, c in self.enc2cls.items():
            ci = self.repo.cls(c)
            if ci.bases and ci.bases[0].name == aname:
                out.append(e)
        return sorted(out)
