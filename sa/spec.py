"""Serialisation of BDD regions / abstract values to the reference tables in
/verif/spec and back, plus semantic comparison (never textual)."""
import json
import os
import re

from .bitdom import Int, Tup, UF, Top, Value, V, NONE
from .report import AnalysisError, VERIF

SPEC_DIR = os.path.join(VERIF, 'spec')
IBIT = re.compile(r'^i\[(\d+)\]$')


# ---------------------------------------------------------------------------
# irredundant sum of products (Minato-Morreale) - compact, readable cube lists
# ---------------------------------------------------------------------------
def isop(B, f):
    memo = {}

    def cof(u, v, b):
        if u > 1:
            n = B.nodes[u]
            if n[0] == v:
                return n[2 if b else 1]
        return u

    def rec(L, U):
        if L == 0:
            return [], 0
        if U == 1:
            return [{}], 1
        k = (L, U)
        r = memo.get(k)
        if r is not None:
            return r
        v = min(B.top(L), B.top(U))
        L0, L1, U0, U1 = cof(L, v, 0), cof(L, v, 1), cof(U, v, 0), cof(U, v, 1)
        c0, f0 = rec(B.AND(L0, B.NOT(U1)), U0)
        c1, f1 = rec(B.AND(L1, B.NOT(U0)), U1)
        Ld = B.OR(B.AND(L0, B.NOT(f0)), B.AND(L1, B.NOT(f1)))
        cd, fd = rec(Ld, B.AND(U0, U1))
        cubes = [{**c, v: 0} for c in c0] + [{**c, v: 1} for c in c1] + cd
        fr = B.OR(B.mk(v, f0, f1), fd)
        memo[k] = (cubes, fr)
        return memo[k]

    cubes, cover = rec(f, f)
    if cover != f:
        raise AnalysisError('internal: isop cover mismatch')
    return cubes


def region_to_json(B, u, nbits):
    """List of cube strings: '<pattern of nbits 0/1/->[ & atom & !atom ...]'."""
    if u == 0:
        return []
    out = []
    for cube in isop(B, u):
        pat = ['-'] * nbits
        atoms = []
        for v, b in sorted(cube.items()):
            name = B.names[v]
            m = IBIT.match(name)
            if m and int(m.group(1)) < nbits:
                pat[nbits - 1 - int(m.group(1))] = '1' if b else '0'
            else:
                atoms.append(('' if b else '!') + name)
        s = ''.join(pat)
        if atoms:
            s += ' & ' + ' & '.join(atoms)
        out.append(s)
    return sorted(out)


def region_from_json(B, cubes, nbits):
    u = 0
    for s in cubes:
        parts = [p.strip() for p in s.split('&')]
        pat = parts[0]
        if len(pat) != nbits:
            raise AnalysisError('spec cube %r has wrong width (expected %d)' % (s, nbits))
        c = 1
        for pos, ch in enumerate(pat):
            if ch == '-':
                continue
            v = B.var('i[%d]' % (nbits - 1 - pos))
            c = B.AND(c, v if ch == '1' else B.NOT(v))
        for a in parts[1:]:
            if a.startswith('!'):
                c = B.AND(c, B.NOT(B.var(a[1:])))
            else:
                c = B.AND(c, B.var(a))
        u = B.OR(u, c)
    return u


def fn_to_str(B, u):
    """Single-bit function as sum of cubes over variable names."""
    if u == 0:
        return '0'
    if u == 1:
        return '1'
    cubes = []
    for cube in isop(B, u):
        lits = [('' if b else '!') + B.names[v] for v, b in sorted(cube.items())]
        cubes.append(' & '.join(lits))
    return ' | '.join(sorted(cubes))


def fn_brief(B, u, limit=150):
    """fn_to_str for small functions, a size note for large ones (sum-of-cubes of an adder bit is exponential)."""
    if u in (0, 1):
        return str(u)
    seen, stack, vars_ = set(), [u], set()
    while stack:
        x = stack.pop()
        if x in seen or x in (0, 1):
            continue
        seen.add(x)
        if len(seen) > limit:
            return '<function with more than %d BDD nodes>' % limit
        v, lo, hi = B.nodes[x]
        vars_.add(v)
        stack.append(lo)
        stack.append(hi)
    return fn_to_str(B, u)


def fn_from_str(B, s):
    s = s.strip()
    if s == '0':
        return 0
    if s == '1':
        return 1
    u = 0
    for cube in s.split('|'):
        c = 1
        for lit in cube.split('&'):
            lit = lit.strip()
            if lit.startswith('!'):
                c = B.AND(c, B.NOT(B.var(lit[1:])))
            else:
                c = B.AND(c, B.var(lit))
        u = B.OR(u, c)
    return u


# ---------------------------------------------------------------------------
# Int <-> segments (MSB first): "i[19:16]", "i[5]", "0b0110", or {"f": "<sop>"}
# ---------------------------------------------------------------------------
def int_to_json(B, x, care=1):
    segs = []
    bits = [B.simplify(b, care) for b in reversed(x.bits)]   # MSB first
    i = 0
    n = len(bits)
    while i < n:
        b = bits[i]
        if b in (0, 1):
            j = i
            s = ''
            while j < n and bits[j] in (0, 1):
                s += str(bits[j])
                j += 1
            segs.append('0b' + s)
            i = j
            continue
        name = None
        if b > 1:
            v, lo, hi = B.nodes[b]
            if lo == 0 and hi == 1:
                name = B.names[v]
        m = IBIT.match(name) if name else None
        if m:
            hi_ = int(m.group(1))
            j = i + 1
            k = hi_
            while j < n:
                bb = bits[j]
                if bb > 1:
                    v2, lo2, hi2 = B.nodes[bb]
                    if lo2 == 0 and hi2 == 1 and B.names[v2] == 'i[%d]' % (k - 1):
                        k -= 1
                        j += 1
                        continue
                break
            segs.append('i[%d:%d]' % (hi_, k) if k != hi_ else 'i[%d]' % hi_)
            i = j
            continue
        segs.append({'f': fn_to_str(B, b)})
        i += 1
    d = {'int': segs}
    if x.signed:
        d['signed'] = True
    return d


def int_from_json(B, d):
    bits = []
    for seg in d['int']:
        if isinstance(seg, dict):
            bits.append(fn_from_str(B, seg['f']))
        elif seg.startswith('0b'):
            bits.extend(int(ch) for ch in seg[2:])
        else:
            m = re.match(r'^i\[(\d+)(?::(\d+))?\]$', seg)
            if not m:
                raise AnalysisError('bad spec segment %r' % (seg,))
            hi = int(m.group(1))
            lo = int(m.group(2)) if m.group(2) is not None else hi
            for k in range(hi, lo - 1, -1):
                bits.append(B.var('i[%d]' % k))
    return Int(list(reversed(bits)), bool(d.get('signed')))


def value_to_json(B, v, nbits, within=1):
    cases = []
    for c, p in v.cases:
        if B.AND(c, within) == 0:
            continue
        cases.append((c, p))
    out = []
    for c, p in cases:
        d = payload_to_json(B, p, nbits, B.AND(c, within))
        if len(cases) > 1:
            d['when'] = region_to_json(B, simplify(B, c, within), nbits)
        out.append(d)
    return out


def simplify(B, c, care):
    """Any function equal to c inside `care` (used only to print shorter guards)."""
    return B.simplify(c, care)


def payload_to_json(B, p, nbits, within):
    if isinstance(p, Int):
        return int_to_json(B, p, within)
    if isinstance(p, Tup):
        return {'tuple': [value_to_json(B, x, nbits, within) for x in p.items]}
    if isinstance(p, UF):
        d = {'uf': p.name, 'args': [value_to_json(B, a, nbits, within) for a in p.args]}
        if p.proj is not None:
            d['proj'] = p.proj
        return d
    if isinstance(p, Top):
        raise AnalysisError('value outside the idiom cannot be recorded in a spec: %s' % p.why)
    if isinstance(p, tuple):
        if p == NONE:
            return {'none': 1}
        if p[0] == 'enum':
            return {'enum': '%s.%s' % (p[1], p[2])}
        if p[0] == 'class':
            return {'class': p[1]}
        if p[0] == 'str':
            return {'str': p[1]}
    raise AnalysisError('payload %r cannot be recorded in a spec' % (p,))


def value_from_json(B, lst, nbits):
    cases = []
    for d in lst:
        c = region_from_json(B, d['when'], nbits) if 'when' in d else 1
        cases.append((c, payload_from_json(B, d, nbits)))
    return Value(cases)


def payload_from_json(B, d, nbits):
    if 'int' in d:
        return int_from_json(B, d)
    if 'tuple' in d:
        return Tup([value_from_json(B, x, nbits) for x in d['tuple']])
    if 'uf' in d:
        return UF(d['uf'], [value_from_json(B, a, nbits) for a in d['args']], d.get('proj'))
    if 'none' in d:
        return NONE
    if 'enum' in d:
        a, b = d['enum'].split('.')
        return ('enum', a, b)
    if 'class' in d:
        return ('class', d['class'])
    if 'str' in d:
        return ('str', d['str'])
    raise AnalysisError('bad spec payload %r' % (d,))


# ---------------------------------------------------------------------------
# semantic comparison
# ---------------------------------------------------------------------------
def diff_values(it, cond, a, b, path=''):
    """Return None if a == b everywhere inside cond, else (description, witness bdd)."""
    B = it.B
    cov_a = B.all_or(c for c, _ in a.cases)
    cov_b = B.all_or(c for c, _ in b.cases)
    miss = B.AND(cond, B.NOT(B.AND(cov_a, cov_b)))
    if miss != 0:
        return ('%s: value undefined for some words' % path, miss)
    for ca, pa in a.cases:
        for cb, pb in b.cases:
            ov = B.AND(cond, B.AND(ca, cb))
            if ov == 0:
                continue
            r = diff_payload(it, ov, pa, pb, path)
            if r is not None:
                return r
    return None


def diff_payload(it, cond, pa, pb, path):
    B = it.B
    if isinstance(pa, Int) and isinstance(pb, Int):
        w = max(len(pa.bits) + (0 if pa.signed else 1), len(pb.bits) + (0 if pb.signed else 1))
        xa, xb = it.ext(pa, w), it.ext(pb, w)
        for k, (p, q) in enumerate(zip(xa, xb)):
            if p == q:
                continue
            d = B.AND(cond, B.XOR(p, q))
            if d != 0:
                return ('%s: bit %d differs (tree: %s ; reference: %s)' % (
                    path, k, fn_brief(B, p)[:80], fn_brief(B, q)[:80]), d)
        return None
    if isinstance(pa, Tup) and isinstance(pb, Tup):
        if len(pa.items) != len(pb.items):
            return ('%s: tuple arity differs' % path, cond)
        for k, (x, y) in enumerate(zip(pa.items, pb.items)):
            r = diff_values(it, cond, x, y, '%s[%d]' % (path, k))
            if r is not None:
                return r
        return None
    if isinstance(pa, UF) and isinstance(pb, UF):
        if pa.name != pb.name or pa.proj != pb.proj or len(pa.args) != len(pb.args):
            return ('%s: helper application differs (tree: %s%s ; reference: %s%s)' % (
                path, pa.name, '' if pa.proj is None else '[%d]' % pa.proj, pb.name,
                '' if pb.proj is None else '[%d]' % pb.proj), cond)
        for k, (x, y) in enumerate(zip(pa.args, pb.args)):
            r = diff_values(it, cond, x, y, '%s.%s(arg%d)' % (path, pa.name, k))
            if r is not None:
                return r
        return None
    if isinstance(pa, tuple) and isinstance(pb, tuple):
        if pa == pb:
            return None
        return ('%s: %r (tree) vs %r (reference)' % (path, pa[1:], pb[1:]), cond)
    return ('%s: kind differs (tree: %s ; reference: %s)' % (path, kind(pa), kind(pb)), cond)


def kind(p):
    if isinstance(p, Int):
        return 'integer'
    if isinstance(p, UF):
        return 'helper %s' % p.name
    if isinstance(p, Tup):
        return 'tuple'
    if isinstance(p, tuple):
        return p[0]
    return type(p).__name__


def witness(B, u, nbits):
    """A concrete instruction word (+ atoms) inside region u, for diagnostics."""
    a = B.pick(u)
    if a is None:
        return None
    word = 0
    atoms = {}
    for v, b in a.items():
        name = B.names[v]
        m = IBIT.match(name)
        if m and int(m.group(1)) < nbits:
            word |= b << int(m.group(1))
        else:
            atoms[name] = b
    fmt = '0x%%0%dX' % (nbits // 4)
    return {'word': fmt % word, 'state': atoms}


def load(name):
    p = os.path.join(SPEC_DIR, name)
    if not os.path.exists(p):
        raise AnalysisError('reference table %s missing' % p)
    with open(p) as fh:
        return json.load(fh)
