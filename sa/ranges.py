"""M4 (part 2) - interval / bit-width analysis.

Abstract value of a Python int: an interval [lo, hi] with possibly infinite bounds.  Helper
functions (bits_ops.py, shift.py) are analysed **from their own source** at each call with
the argument intervals (context-sensitive, memoised); small-range parameters (shift amounts,
widths) are case-split so that ``substring(x, s + n - 1, s)`` keeps width n.  The analysis is
sound in the direction that matters: a value flowing to a 32-bit sink must be *proved* to lie
in [0, 2^32); anything unknown is reported, never assumed.
"""
import ast

from .report import AnalysisError

INF = float('inf')
SPLIT_LIMIT = 300
MAXDEPTH = 10


class Iv:
    __slots__ = ('lo', 'hi')

    def __init__(self, lo, hi):
        self.lo = lo
        self.hi = hi

    def __repr__(self):
        def f(x):
            if x in (INF, -INF):
                return 'inf' if x > 0 else '-inf'
            if abs(x) > 1 << 16:
                s = '-' if x < 0 else ''
                ax = abs(x)
                if (ax + 1) & ax == 0:
                    return '%s2^%d-1' % (s, (ax + 1).bit_length() - 1)
                if ax & (ax - 1) == 0:
                    return '%s2^%d' % (s, ax.bit_length() - 1)
                return '%s~2^%d' % (s, ax.bit_length())
            return str(x)
        return '[%s, %s]' % (f(self.lo), f(self.hi))

    def const(self):
        return self.lo if self.lo == self.hi and self.lo not in (INF, -INF) else None

    def within(self, lo, hi):
        return self.lo >= lo and self.hi <= hi

    def finite(self):
        return self.lo != -INF and self.hi != INF

    def size(self):
        return (self.hi - self.lo + 1) if self.finite() else INF


class Tupv:
    __slots__ = ('items',)

    def __init__(self, items):
        self.items = list(items)

    def __repr__(self):
        return 'Tup%r' % (self.items,)


class Enumv:
    __slots__ = ('cls', 'members')

    def __init__(self, cls, members):
        self.cls = cls
        self.members = frozenset(members)

    def __repr__(self):
        return 'Enum(%s:%s)' % (self.cls, sorted(self.members))


class Topv:
    def __init__(self, why=''):
        self.why = why

    def __repr__(self):
        return 'Top(%s)' % self.why


class Nonev:
    def __repr__(self):
        return 'None'


class Botv:
    """No value: the computation cannot complete (every path raises / fails its assertion)."""
    def __repr__(self):
        return 'Bottom'


BOOL = Iv(0, 1)
U32 = Iv(0, (1 << 32) - 1)


def u(bits):
    return Iv(0, (1 << bits) - 1)


def join(a, b):
    if a is None or isinstance(a, Botv):
        return b
    if b is None or isinstance(b, Botv):
        return a
    if isinstance(a, Iv) and isinstance(b, Iv):
        return Iv(min(a.lo, b.lo), max(a.hi, b.hi))
    if isinstance(a, Tupv) and isinstance(b, Tupv) and len(a.items) == len(b.items):
        return Tupv([join(x, y) for x, y in zip(a.items, b.items)])
    if isinstance(a, Enumv) and isinstance(b, Enumv) and a.cls == b.cls:
        return Enumv(a.cls, a.members | b.members)
    if isinstance(a, Nonev) and isinstance(b, Nonev):
        return a
    return Topv('join of %r and %r' % (a, b))


def _mul(x, y):
    if x == 0 or y == 0:
        return 0
    return x * y


def _bitlen(x):
    return INF if x == INF else int(x).bit_length()


def _pow2(e):
    if e == INF:
        return INF
    if e > 100000:
        return INF
    return 1 << int(e) if e >= 0 else 0


def _shl(x, k):
    if x in (INF, -INF):
        return x
    if k == INF:
        return INF if x > 0 else (-INF if x < 0 else 0)
    if k > 100000:
        return INF if x > 0 else (-INF if x < 0 else 0)
    return int(x) << int(k)


def _shr(x, k):
    if x in (INF, -INF):
        return x
    if k == INF or k > 100000:
        return 0 if x >= 0 else -1
    return int(x) >> int(k)


def binop(op, a, b):
    if isinstance(a, Botv) or isinstance(b, Botv):
        return Botv()
    if not isinstance(a, Iv) or not isinstance(b, Iv):
        # masking an integer of unknown range: x & m (m >= 0) is in [0, m], x % p (p > 0) is in [0, p-1] for every int x
        if isinstance(op, ast.BitAnd):
            for m, other in ((a, b), (b, a)):
                if isinstance(m, Iv) and m.lo >= 0 and m.hi != INF and isinstance(other, Topv):
                    return Iv(0, m.hi)
        if isinstance(op, ast.Mod) and isinstance(b, Iv) and b.lo > 0 and b.hi != INF and isinstance(a, Topv):
            return Iv(0, b.hi - 1)
        if isinstance(op, ast.RShift) and isinstance(a, Iv) and a.lo >= 0 and isinstance(b, Topv):
            return Iv(0, a.hi)
        return Topv('arithmetic on %r, %r' % (a, b))
    if isinstance(op, ast.Add):
        return Iv(a.lo + b.lo, a.hi + b.hi)
    if isinstance(op, ast.Sub):
        return Iv(a.lo - b.hi, a.hi - b.lo)
    if isinstance(op, ast.Mult):
        c = [_mul(a.lo, b.lo), _mul(a.lo, b.hi), _mul(a.hi, b.lo), _mul(a.hi, b.hi)]
        return Iv(min(c), max(c))
    if isinstance(op, ast.Pow):
        if a.const() == 2 and b.lo >= 0:
            return Iv(_pow2(b.lo), _pow2(b.hi))
        if a.const() is not None and b.const() is not None and b.const() >= 0 and abs(a.const()) < 1 << 16 and b.const() < 4096:
            v = a.const() ** b.const()
            return Iv(v, v)
        if a.lo >= 0 and b.lo >= 0 and a.finite() and b.finite() and b.hi < 4096 and a.hi < 1 << 64:
            return Iv(int(a.lo) ** int(b.lo), int(a.hi) ** int(b.hi))
        return Topv('power')
    if isinstance(op, ast.Mod):
        if b.lo > 0:
            if a.lo >= 0 and a.hi < b.lo:
                return a
            return Iv(0, b.hi - 1)
        return Topv('modulo by possibly non-positive')
    if isinstance(op, ast.FloorDiv):
        if b.lo > 0:
            c = []
            for x in (a.lo, a.hi):
                for y in (b.lo, b.hi):
                    if x in (INF, -INF):
                        c.append(x)
                    elif y == INF:
                        c.append(0 if x >= 0 else -1)
                    else:
                        c.append(int(x) // int(y))
            return Iv(min(c), max(c))
        if b.hi < 0:
            return binop(op, Iv(-a.hi, -a.lo), Iv(-b.hi, -b.lo))
        return Topv('division by interval containing zero')
    if isinstance(op, ast.Div):
        return Topv('true division')
    if isinstance(op, ast.LShift):
        if b.lo < 0:
            return Topv('negative shift')
        c = [_shl(a.lo, b.lo), _shl(a.lo, b.hi), _shl(a.hi, b.lo), _shl(a.hi, b.hi)]
        return Iv(min(c), max(c))
    if isinstance(op, ast.RShift):
        if b.lo < 0:
            return Topv('negative shift')
        c = [_shr(a.lo, b.lo), _shr(a.lo, b.hi), _shr(a.hi, b.lo), _shr(a.hi, b.hi)]
        return Iv(min(c), max(c))
    if isinstance(op, ast.BitAnd):
        if a.lo >= 0 and b.lo >= 0:
            return Iv(0, min(a.hi, b.hi))
        if a.lo >= 0:
            return Iv(0, a.hi)
        if b.lo >= 0:
            return Iv(0, b.hi)
        return Iv(-INF, INF)
    if isinstance(op, (ast.BitOr, ast.BitXor)):
        if a.lo >= 0 and b.lo >= 0:
            n = max(_bitlen(a.hi), _bitlen(b.hi))
            lo = max(a.lo, b.lo) if isinstance(op, ast.BitOr) else 0
            return Iv(lo, _pow2(n) - 1 if n != INF else INF)
        return Iv(-INF, INF)
    return Topv('operator %s' % type(op).__name__)


def compare(op, a, b):
    """Iv(1,1) / Iv(0,0) when decided, else BOOL."""
    if isinstance(a, Enumv) and isinstance(b, Enumv):
        if isinstance(op, ast.Eq):
            if len(a.members) == 1 and a.members == b.members:
                return Iv(1, 1)
            if not (a.members & b.members):
                return Iv(0, 0)
        if isinstance(op, ast.NotEq):
            if len(a.members) == 1 and a.members == b.members:
                return Iv(0, 0)
            if not (a.members & b.members):
                return Iv(1, 1)
        return BOOL
    if not isinstance(a, Iv) or not isinstance(b, Iv):
        return BOOL
    if isinstance(op, ast.Lt):
        return Iv(1, 1) if a.hi < b.lo else (Iv(0, 0) if a.lo >= b.hi else BOOL)
    if isinstance(op, ast.LtE):
        return Iv(1, 1) if a.hi <= b.lo else (Iv(0, 0) if a.lo > b.hi else BOOL)
    if isinstance(op, ast.Gt):
        return compare(ast.Lt(), b, a)
    if isinstance(op, ast.GtE):
        return compare(ast.LtE(), b, a)
    if isinstance(op, ast.Eq):
        if a.const() is not None and a.const() == b.const():
            return Iv(1, 1)
        if a.hi < b.lo or b.hi < a.lo:
            return Iv(0, 0)
        return BOOL
    if isinstance(op, ast.NotEq):
        r = compare(ast.Eq(), a, b)
        return Iv(1 - r.hi, 1 - r.lo)
    return BOOL


def truthiness(v):
    """(may be true, may be false)"""
    if isinstance(v, Iv):
        return (not (v.lo == 0 and v.hi == 0)), (v.lo <= 0 <= v.hi)
    if isinstance(v, Nonev):
        return False, True
    if isinstance(v, Tupv):
        return (len(v.items) > 0), (len(v.items) == 0)
    return True, True


class FuncAnalyzer:
    """Abstract interpretation of a repository helper function over intervals."""

    def __init__(self, repo):
        self.repo = repo
        self.memo = {}
        self.depth = 0
        self.problems = []      # (function, message) - e.g. possible assertion failures, divisions
        self.calls = 0

    # ------------------------------------------------------------------
    def call(self, fi, args, kwargs=None):
        params = fi.params()
        env = {}
        for n, v in zip(params, args):
            env[n] = v
        for k, v in (kwargs or {}).items():
            env[k] = v
        d = fi.node.args.defaults
        for n, dn in zip(params[len(params) - len(d):], d):
            if n not in env:
                env[n] = self.expr(dn, {}, fi)
        for n in params:
            if n not in env:
                return Topv('missing argument %s of %s' % (n, fi.name))
        key = (fi.module.name, fi.name, repr([env[n] for n in params]))
        if key in self.memo:
            return self.memo[key]
        if self.depth >= MAXDEPTH:
            return Topv('depth')
        # case split on small-range integer parameters that steer slices / shifts
        split = None
        for n in params:
            v = env[n]
            if isinstance(v, Iv) and v.const() is None and v.finite() and v.size() <= SPLIT_LIMIT and \
                    n in ('shift', 'amount', 'm', 'n', 'x_len', 'length', 'src_length', 'dst_length', 'lsb', 'msb',
                          'index', 'chunk_length', 'lower_length', 'imm5', 'type_o', 'saturate_to'):
                split = n
                break
        self.depth += 1
        self.calls += 1
        try:
            if split is not None:
                res = None
                v = env[split]
                for k in range(int(v.lo), int(v.hi) + 1):
                    e2 = dict(env)
                    e2[split] = Iv(k, k)
                    sub = self.call(fi, [e2[n] for n in params])
                    res = join(res, sub)
            else:
                res = self.body(fi, env)
        finally:
            self.depth -= 1
        self.memo[key] = res
        return res

    def body(self, fi, env):
        rets = []
        out = self.block(fi.node.body, env, fi, rets)
        if out is not None:
            rets.append(Nonev())
        res = None
        for r in rets:
            res = join(res, r)
        return res if res is not None else Botv()

    # returns the fall-through env or None if no path falls through
    def block(self, stmts, env, fi, rets):
        for s in stmts:
            if env is None:
                return None
            env = self.stmt(s, env, fi, rets)
        return env

    def stmt(self, s, env, fi, rets):
        if isinstance(s, ast.Assign):
            v = self.expr(s.value, env, fi)
            env = dict(env)
            for t in s.targets:
                self.assign(t, v, env)
                if isinstance(t, ast.Name):
                    # remember simple definitions `t = x >> k` so that a test on t refines x
                    for k in [k for k in env if k.startswith('#def:') and (k == '#def:' + t.id or env[k][0] == t.id)]:
                        del env[k]
                    sv = s.value
                    if isinstance(sv, ast.BinOp) and isinstance(sv.op, ast.RShift) and isinstance(sv.left, ast.Name):
                        kv = self.expr(sv.right, env, fi)
                        if isinstance(kv, Iv) and kv.const() is not None and kv.const() >= 0:
                            env['#def:' + t.id] = (sv.left.id, int(kv.const()))
            return env
        if isinstance(s, ast.AugAssign):
            cur = self.expr(s.target, env, fi)
            v = binop(s.op, cur, self.expr(s.value, env, fi))
            env = dict(env)
            self.assign(s.target, v, env)
            return env
        if isinstance(s, ast.Return):
            rets.append(self.expr(s.value, env, fi) if s.value is not None else Nonev())
            return None
        if isinstance(s, ast.If):
            et, ef = self.refine(s.test, env, fi)
            outs = []
            if et is not None:
                outs.append(self.block(s.body, et, fi, rets))
            if ef is not None:
                outs.append(self.block(s.orelse, ef, fi, rets))
            return self.join_envs([o for o in outs if o is not None])
        if isinstance(s, ast.Assert):
            et, ef = self.refine(s.test, env, fi)
            if ef is not None:
                self.problems.append((fi.qualname, 'assert %s may fail' % ast.unparse(s.test)[:60]))
            return et
        if isinstance(s, ast.Expr):
            if not isinstance(s.value, ast.Constant):
                self.expr(s.value, env, fi)
            return env
        if isinstance(s, ast.Pass):
            return env
        if isinstance(s, ast.For):
            return self.for_loop(s, env, fi, rets)
        if isinstance(s, ast.Raise):
            return None
        if isinstance(s, ast.While):
            return self.while_loop(s, env, fi, rets)
        self.problems.append((fi.qualname, 'statement %s outside the interval idiom' % type(s).__name__))
        return env

    def const_elements(self, node, env, fi):
        """Exact element list of a small constant iteration (literal tuple / list of constants, constant range), else None."""
        if isinstance(node, (ast.Tuple, ast.List)) and len(node.elts) <= 64:
            out = []
            for x in node.elts:
                v = self.expr(x, env, fi)
                if isinstance(v, Iv) and v.const() is not None:
                    out.append(v)
                elif isinstance(x, (ast.Tuple, ast.List)):
                    sub = self.const_elements(x, env, fi)
                    if sub is None:
                        return None
                    out.append(Tupv(sub))
                else:
                    return None
            return out
        if isinstance(node, ast.Call) and isinstance(node.func, ast.Name) and node.func.id == 'range' and not node.keywords:
            vals = [self.expr(a, env, fi) for a in node.args]
            if vals and all(isinstance(v, Iv) and v.const() is not None for v in vals):
                r = range(*[int(v.const()) for v in vals])
                if len(r) <= 64:
                    return [Iv(k, k) for k in r]
        if isinstance(node, ast.Name):
            r = self.repo.resolve_name(fi.module, node.id)
            if r and r[0] == 'const' and isinstance(r[2], (ast.Tuple, ast.List)):
                return self.const_elements(r[2], {}, fi)
        return None

    def for_loop(self, s, env, fi, rets):
        elems = self.const_elements(s.iter, env, fi)
        if elems is not None and not s.orelse and not any(isinstance(n, (ast.Break, ast.Continue)) for n in ast.walk(s)):
            cur = dict(env)
            for el in elems:
                self.assign(s.target, el, cur)
                out = self.block(s.body, cur, fi, rets)
                if out is None:
                    return cur
                cur = out
            return cur
        it = self.expr(s.iter, env, fi)
        if not isinstance(it, Tupv) or not (len(it.items) == 1 and isinstance(it.items[0], tuple)):
            var_iv = Topv('loop iterable')
        else:
            var_iv = it.items[0][1]
        cur = dict(env)
        for _ in range(4):
            e = dict(cur)
            if isinstance(s.target, ast.Name):
                e[s.target.id] = var_iv
            out = self.block(s.body, e, fi, rets)
            if out is None:
                break
            nxt = self.join_envs([cur, out])
            if repr(sorted(nxt.items(), key=lambda kv: kv[0])) == repr(sorted(cur.items(), key=lambda kv: kv[0])):
                break
            cur = nxt
        else:
            # widen everything that still changes
            e = dict(cur)
            if isinstance(s.target, ast.Name):
                e[s.target.id] = var_iv
            out = self.block(s.body, e, fi, rets)
            if out is not None:
                for k in out:
                    a, b = cur.get(k), out[k]
                    if isinstance(a, Iv) and isinstance(b, Iv) and (b.lo < a.lo or b.hi > a.hi):
                        cur[k] = Iv(-INF if b.lo < a.lo else a.lo, INF if b.hi > a.hi else a.hi)
        return cur

    def while_loop(self, s, env, fi, rets):
        cur = dict(env)
        for i in range(6):
            et, ef = self.refine(s.test, cur, fi)
            if et is None:
                break
            out = self.block(s.body, et, fi, rets)
            if out is None:
                break
            nxt = self.join_envs([cur, out])
            if i >= 3:
                for k in nxt:
                    a, b = cur.get(k), nxt[k]
                    if isinstance(a, Iv) and isinstance(b, Iv) and (b.lo < a.lo or b.hi > a.hi):
                        nxt[k] = Iv(-INF if b.lo < a.lo else a.lo, INF if b.hi > a.hi else a.hi)
            if repr(sorted(nxt.items())) == repr(sorted(cur.items())):
                break
            cur = nxt
        et, ef = self.refine(s.test, cur, fi)
        return ef if ef is not None else cur

    def join_envs(self, envs):
        if not envs:
            return None
        out = dict(envs[0])
        for e in envs[1:]:
            for k in set(out) | set(e):
                if k.startswith('#def:'):
                    if out.get(k) != e.get(k):
                        out.pop(k, None)
                    continue
                if k in out and k in e:
                    out[k] = join(out[k], e[k])
                else:
                    out[k] = Topv('possibly unbound %s' % k)
        return out

    def assign(self, t, v, env):
        if isinstance(t, ast.Name):
            env[t.id] = v
        elif isinstance(t, (ast.Tuple, ast.List)):
            for k, x in enumerate(t.elts):
                if isinstance(v, Tupv) and k < len(v.items):
                    self.assign(x, v.items[k], env)
                else:
                    self.assign(x, v if isinstance(v, Botv) else Topv('unpack'), env)

    # ------------------------------------------------------------------
    def refine(self, test, env, fi):
        """-> (env if test may be true, env if test may be false); None when impossible."""
        if isinstance(test, ast.UnaryOp) and isinstance(test.op, ast.Not):
            a, b = self.refine(test.operand, env, fi)
            return b, a
        if isinstance(test, ast.BoolOp):
            if isinstance(test.op, ast.And):
                cur = env
                falses = []
                for v in test.values:
                    if cur is None:
                        break
                    t, f = self.refine(v, cur, fi)
                    if f is not None:
                        falses.append(f)
                    cur = t
                return cur, (self.join_envs(falses) if falses else None)
            else:
                cur = env
                trues = []
                for v in test.values:
                    if cur is None:
                        break
                    t, f = self.refine(v, cur, fi)
                    if t is not None:
                        trues.append(t)
                    cur = f
                return (self.join_envs(trues) if trues else None), cur
        if isinstance(test, ast.Compare) and len(test.ops) == 1:
            l, r = test.left, test.comparators[0]
            lv, rv = self.expr(l, env, fi), self.expr(r, env, fi)
            op = test.ops[0]
            if isinstance(op, (ast.In, ast.NotIn)):
                return env, env
            res = compare(op, lv, rv)
            et = env if res.hi >= 1 else None
            ef = env if res.lo <= 0 else None
            if isinstance(lv, Iv) and isinstance(rv, Iv):
                if isinstance(l, ast.Name):
                    if et is not None:
                        et = self._narrow(et, l.id, op, rv, True)
                    if ef is not None:
                        ef = self._narrow(ef, l.id, op, rv, False)
                if isinstance(r, ast.Name):
                    flip = {ast.Lt: ast.Gt, ast.Gt: ast.Lt, ast.LtE: ast.GtE, ast.GtE: ast.LtE, ast.Eq: ast.Eq,
                            ast.NotEq: ast.NotEq}.get(type(op))
                    if flip is not None:
                        if et is not None:
                            et = self._narrow(et, r.id, flip(), lv, True)
                        if ef is not None:
                            ef = self._narrow(ef, r.id, flip(), lv, False)
            if isinstance(lv, Enumv) and isinstance(rv, Enumv) and isinstance(l, ast.Name) and len(rv.members) == 1:
                if isinstance(op, ast.Eq):
                    if et is not None:
                        et = dict(et)
                        et[l.id] = Enumv(lv.cls, lv.members & rv.members)
                    if ef is not None:
                        ef = dict(ef)
                        ef[l.id] = Enumv(lv.cls, lv.members - rv.members)
                        if not ef[l.id].members:
                            ef = None
            return et, ef
        if isinstance(test, ast.Compare):
            return env, env
        v = self.expr(test, env, fi)
        mt, mf = truthiness(v)
        et = env if mt else None
        ef = env if mf else None
        if isinstance(test, ast.Name) and isinstance(v, Iv):
            if et is not None and v.lo == 0:
                et = dict(et)
                et[test.id] = Iv(1, v.hi) if v.hi >= 1 else v
            if ef is not None:
                ef = dict(ef)
                ef[test.id] = Iv(0, 0)
            d = env.get('#def:' + test.id)
            if d is not None and isinstance(env.get(d[0]), Iv) and env[d[0]].lo >= 0:
                src = env[d[0]]
                thr = 1 << d[1]
                if et is not None:
                    if src.hi < thr:
                        et = None
                    else:
                        et[d[0]] = Iv(max(src.lo, thr), src.hi)
                if ef is not None:
                    if src.lo >= thr:
                        ef = None
                    else:
                        ef[d[0]] = Iv(src.lo, min(src.hi, thr - 1))
        return et, ef

    def _narrow(self, env, name, op, other, truth):
        v = env.get(name)
        if not isinstance(v, Iv):
            return env
        lo, hi = v.lo, v.hi
        if not truth:
            op = {ast.Lt: ast.GtE, ast.GtE: ast.Lt, ast.Gt: ast.LtE, ast.LtE: ast.Gt, ast.Eq: ast.NotEq,
                  ast.NotEq: ast.Eq}[type(op)]()
        if isinstance(op, ast.Lt):
            hi = min(hi, other.hi - 1)
        elif isinstance(op, ast.LtE):
            hi = min(hi, other.hi)
        elif isinstance(op, ast.Gt):
            lo = max(lo, other.lo + 1)
        elif isinstance(op, ast.GtE):
            lo = max(lo, other.lo)
        elif isinstance(op, ast.Eq):
            lo, hi = max(lo, other.lo), min(hi, other.hi)
        elif isinstance(op, ast.NotEq):
            c = other.const()
            if c is not None:
                if lo == c:
                    lo += 1
                if hi == c:
                    hi -= 1
        if lo > hi:
            return None
        e = dict(env)
        e[name] = Iv(lo, hi)
        return e

    # ------------------------------------------------------------------
    def expr(self, e, env, fi):
        if isinstance(e, ast.Constant):
            if isinstance(e.value, bool):
                return Iv(int(e.value), int(e.value))
            if isinstance(e.value, int):
                return Iv(e.value, e.value)
            if e.value is None:
                return Nonev()
            return Topv('constant')
        if isinstance(e, ast.Name):
            if e.id in env:
                return env[e.id]
            if e.id in ('True', 'False'):
                return Iv(int(e.id == 'True'), int(e.id == 'True'))
            r = self.repo.resolve_name(fi.module, e.id)
            if r and r[0] == 'const' and isinstance(r[2], ast.Constant) and isinstance(r[2].value, int):
                return Iv(r[2].value, r[2].value)
            return Topv('name %s' % e.id)
        if isinstance(e, ast.Attribute):
            r = self.repo.resolve_expr(fi.module, e)
            if r and r[0] == 'enum_member':
                return Enumv(r[1].name, [r[2]])
            return Topv('attribute %s' % ast.unparse(e)[:40])
        if isinstance(e, ast.BinOp):
            return binop(e.op, self.expr(e.left, env, fi), self.expr(e.right, env, fi))
        if isinstance(e, ast.Name) and False:
            pass
        if isinstance(e, ast.UnaryOp):
            v = self.expr(e.operand, env, fi)
            if isinstance(e.op, ast.Not):
                mt, mf = truthiness(v)
                return Iv(0 if mt else 1, 1 if mf else 0)
            if isinstance(e.op, ast.USub) and isinstance(v, Iv):
                return Iv(-v.hi, -v.lo)
            if isinstance(e.op, ast.Invert) and isinstance(v, Iv):
                return Iv(-v.hi - 1, -v.lo - 1)
            return Topv('unary')
        if isinstance(e, ast.BoolOp):
            res = None
            for v in e.values:
                res = join(res, self.expr(v, env, fi))
            return res
        if isinstance(e, ast.Compare):
            if len(e.ops) == 1:
                return compare(e.ops[0], self.expr(e.left, env, fi), self.expr(e.comparators[0], env, fi))
            return BOOL
        if isinstance(e, ast.IfExp):
            et, ef = self.refine(e.test, env, fi)
            res = None
            if et is not None:
                res = join(res, self.expr(e.body, et, fi))
            if ef is not None:
                res = join(res, self.expr(e.orelse, ef, fi))
            return res if res is not None else Topv('ifexp')
        if isinstance(e, ast.Tuple):
            return Tupv([self.expr(x, env, fi) for x in e.elts])
        if isinstance(e, ast.Subscript):
            b = self.expr(e.value, env, fi)
            i = self.expr(e.slice, env, fi) if not isinstance(e.slice, ast.Slice) else None
            if isinstance(b, Tupv) and isinstance(i, Iv) and i.const() is not None and 0 <= i.const() < len(b.items):
                return b.items[int(i.const())]
            if isinstance(b, Tupv) and isinstance(i, Iv):
                res = None
                for x in b.items:
                    res = join(res, x)
                return res
            return Topv('subscript')
        if isinstance(e, ast.Call):
            return self.call_expr(e, env, fi)
        return Topv('expression %s' % type(e).__name__)

    def sum_of_comprehension(self, e, env, fi):
        """sum(f(k) for k in <iteration>): exact over a small constant iteration, count * [lo, hi] over range(n)."""
        c = e.args[0]
        g = c.generators[0]
        elems = self.const_elements(g.iter, env, fi)
        inner = dict(env)
        if elems is not None:
            total = Iv(0, 0)
            for el in elems:
                self.assign(g.target, el, inner)
                v = self.expr(c.elt, inner, fi)
                if not isinstance(v, Iv):
                    return Topv('sum of non-integers')
                total = binop(ast.Add(), total, v)
            return total
        it = self.expr(g.iter, env, fi)
        if isinstance(it, Tupv) and len(it.items) == 1 and isinstance(it.items[0], tuple) and it.items[0][0] == 'range' \
                and isinstance(g.target, ast.Name):
            rv = it.items[0][1]
            if rv.finite() and rv.lo >= 0:
                inner[g.target.id] = rv
                v = self.expr(c.elt, inner, fi)
                if isinstance(v, Iv) and v.finite():
                    n = rv.hi + 1
                    return Iv(min(0, v.lo * n), max(0, v.hi * n))
        return Topv('sum over an unbounded iteration')

    def call_expr(self, e, env, fi):
        f = e.func
        if isinstance(f, ast.Name) and f.id == 'sum' and len(e.args) == 1 and not e.keywords and \
                isinstance(e.args[0], (ast.GeneratorExp, ast.ListComp)) and len(e.args[0].generators) == 1 and \
                not e.args[0].generators[0].ifs:
            return self.sum_of_comprehension(e, env, fi)
        args = [self.expr(a, env, fi) for a in e.args]
        kwargs = {k.arg: self.expr(k.value, env, fi) for k in e.keywords}
        # bin(x).count('1')
        if isinstance(f, ast.Attribute) and f.attr == 'count' and isinstance(f.value, ast.Call) \
                and isinstance(f.value.func, ast.Name) and f.value.func.id == 'bin':
            x = self.expr(f.value.args[0], env, fi)
            if isinstance(x, Iv) and x.lo >= 0:
                return Iv(0, _bitlen(x.hi))
            return Iv(0, INF)
        if isinstance(f, ast.Attribute) and f.attr == 'bit_length' and not e.args:
            x = self.expr(f.value, env, fi)
            if isinstance(x, Iv) and x.finite():
                return Iv(0, max(_bitlen(abs(x.lo)), _bitlen(abs(x.hi))))
            return Iv(0, INF)
        if isinstance(f, ast.Name):
            if f.id in ('int', 'bool'):
                if not args:
                    return Iv(0, 0)
                if isinstance(args[0], Iv) and f.id == 'int':
                    return args[0]
                mt, mf = truthiness(args[0])
                return Iv(0 if mf else 1, 1 if mt else 0)
            if f.id == 'abs' and isinstance(args[0], Iv):
                a = args[0]
                lo = 0 if a.lo <= 0 <= a.hi else min(abs(a.lo), abs(a.hi))
                return Iv(lo, max(abs(a.lo), abs(a.hi)))
            if f.id in ('min', 'max') and len(args) == 2 and all(isinstance(a, Iv) for a in args):
                g = min if f.id == 'min' else max
                return Iv(g(args[0].lo, args[1].lo), g(args[0].hi, args[1].hi))
            if f.id == 'range':
                if all(isinstance(a, Iv) and a.finite() for a in args):
                    if len(args) == 1:
                        return Tupv([('range', Iv(0, args[0].hi - 1))])
                    if len(args) == 2:
                        return Tupv([('range', Iv(args[0].lo, args[1].hi - 1))])
                    if len(args) == 3:
                        lo = min(args[0].lo, args[1].lo + 1)
                        hi = max(args[0].hi, args[1].hi - 1)
                        return Tupv([('range', Iv(lo, hi))])
                return Tupv([('range', Iv(-INF, INF))])
            if f.id == 'print':
                return Nonev()
            if f.id == 'round':
                return Topv('round')
            if f.id == 'len':
                return Iv(0, INF)
        r = self.repo.resolve_expr(fi.module, f) if isinstance(f, (ast.Name, ast.Attribute)) else None
        if r and r[0] == 'func':
            return self.call(r[1], args, kwargs)
        return Topv('call %s' % ast.unparse(f)[:40])


def _subterms(t):
    yield t
    if isinstance(t, tuple):
        for x in t[1:]:
            if isinstance(x, tuple):
                yield from _subterms(x)
            elif isinstance(x, list):
                for y in x:
                    if isinstance(y, tuple):
                        yield from _subterms(y)


# ---------------------------------------------------------------------------
# term evaluation (terms produced by sa.flow.Walker)
# ---------------------------------------------------------------------------
FLAG_WIDTH = {'n': 1, 'z': 1, 'c': 1, 'v': 1, 'q': 1, 'j': 1, 'e': 1, 'a': 1, 'i': 1, 'f': 1, 't': 1, 'ge': 4, 'it': 8,
              'm': 5, 'value': 32, 'apsr': 32, 'isetstate': 2}
PCALL_RANGES = {'this_instr': u(32), 'this_instr_length': Iv(16, 32), 'exclusive_monitors_pass': BOOL,
                'condition_passed': BOOL, 'coproc_accepted': BOOL, 'unaligned_support': BOOL, 'big_endian': BOOL,
                'in_it_block': BOOL, 'last_in_it_block': BOOL, 'event_registered': BOOL,
                'integer_zero_divide_trapping_enabled': BOOL, 'current_cond': u(4),
                # mock hooks (raise NotImplementedError today); documented assumption: they deliver 32-bit words
                'coproc_get_one_word': u(32), 'coproc_get_word_to_store': u(32),
                'coproc_done_loading': BOOL, 'coproc_done_storing': BOOL}
RCALL_RANGES = {'current_mode_is_not_user': BOOL, 'current_mode_is_hyp': BOOL, 'current_mode_is_user_or_system': BOOL,
                'is_secure': BOOL, 'bad_mode': BOOL}


class TermEval:
    def __init__(self, repo, fa, field_ranges, opcode_module):
        self.repo = repo
        self.fa = fa
        self.fields = field_ranges       # field name -> abstract value
        self.module = opcode_module
        self.loop_env = {}               # (name, lid) -> Iv during fixpoint
        self.lv_env = {}                 # (loop var, lid) -> Iv during a case split
        self.split_env = {}              # ('f', field) -> Iv during a case split
        self.joint = None                # callable {field: value} -> bool (joint feasibility from the decode model)
        self.method_ranges = None        # callable (cls, method) -> abstract return value
        self.sys_width = None            # callable (path) -> bits
        self.loops = {}                  # lid -> {name: (init term, update term)} from LoopExit events
        self.inv = {}
        self.params = {}                 # parameter name -> abstract value (contract of the analysed method)
        self.notes = []

    def ev(self, t):
        k = t[0]
        if k == 'const':
            v = t[1]
            if isinstance(v, bool):
                return Iv(int(v), int(v))
            if isinstance(v, int):
                return Iv(v, v)
            if v is None:
                return Nonev()
            return Topv('const %r' % (v,))
        if k == 'field':
            if ('f', t[1]) in self.split_env:
                return self.split_env[('f', t[1])]
            v = self.fields.get(t[1])
            return v if v is not None else Topv('field %s' % t[1])
        if k in ('reg', 'pc', 'rawpc', 'spsr', 'rmode'):
            return U32
        if k == 'flag':
            return u(FLAG_WIDTH.get(t[1], 32))
        if k == 'sys':
            if self.sys_width is not None:
                w = self.sys_width(t[1])
                if w is not None:
                    return u(w)
            return u(64) if (t[1].endswith('_64') or t[1] in ('httbr', 'vttbr')) else u(32)
        if k == 'procattr':
            # per-step scratch written by fetch_instruction (rule C04-I): length in bits, fetched word
            if t[1] == 'opcode_len':
                return Iv(16, 32)
            if t[1] == 'opcode':
                return U32
            return Topv('processor attribute %s' % t[1])
        if k == 'methodcall':
            if t[2] == 'bit_length' and not t[3]:
                b = self.ev(t[1])
                if isinstance(b, Iv) and b.finite():
                    return Iv(0, max(_bitlen(abs(b.lo)), _bitlen(abs(b.hi))))
            return Topv('method %s on a value' % t[2])
        if k == 'getattr':
            b = t[1]
            if b[0] == 'global' and b[2] == 'configurations':
                # configuration constants: vector addresses are 32-bit values (documented assumption)
                return U32 if t[2].startswith('impdef_') else u(32)
            bv = self.ev(b)
            if isinstance(bv, Enumv) and t[2] == 'value':
                ci = self.repo.classes.get(bv.cls)
                vals = []
                if ci:
                    for mname in bv.members:
                        vn = ci[0].class_assigns.get(mname)
                        if isinstance(vn, ast.Constant) and isinstance(vn.value, int):
                            vals.append(vn.value)
                if vals and len(vals) == len(bv.members):
                    return Iv(min(vals), max(vals))
            return Topv('attribute %s' % t[2])
        if k == 'mem':
            s = self.ev(t[3])
            if isinstance(s, Iv) and s.const() is not None and 0 < s.const() <= 8:
                return u(8 * int(s.const()))
            return u(64)
        if k == 'enum':
            return Enumv(t[1], [t[2]])
        if k == 'call':
            fi = self.find_func(t[1])
            if fi is None:
                return Topv('unresolved helper %s' % t[1])
            return self.fa.call(fi, [self.ev(a) for a in t[2]])
        if k == 'proj':
            b = self.ev(t[1])
            if isinstance(b, Tupv) and t[2] < len(b.items):
                return b.items[t[2]]
            if t[1][0] == 'pcall' and t[1][1] == 'coproc_get_two_words':
                return u(32)
            return Topv('projection of %r' % (b,))
        if k == 'tuple':
            return Tupv([self.ev(x) for x in t[1]])
        if k == 'op':
            opcls = getattr(ast, t[1])
            return binop(opcls(), self.ev(t[2]), self.ev(t[3]))
        if k == 'uop':
            v = self.ev(t[2])
            if isinstance(v, Iv):
                if t[1] == 'USub':
                    return Iv(-v.hi, -v.lo)
                if t[1] == 'Invert':
                    return Iv(-v.hi - 1, -v.lo - 1)
            return Topv('unary')
        if k in ('cmp', 'not'):
            return BOOL
        if k in ('and', 'or'):
            res = None
            for x in t[1]:
                res = join(res, self.ev(x))
            return res
        if k == 'ite':
            return join(self.ev(t[2]), self.ev(t[3]))
        if k == 'phi':
            a = self.ev(t[2]) if t[2] != ('undef',) else None
            b = self.ev(t[3]) if t[3] != ('undef',) else None
            r = join(a, b)
            return r if r is not None else Topv('undefined')
        if k == 'loopvar':
            if (t[1], t[2]) in self.lv_env:
                return self.lv_env[(t[1], t[2])]
            it = t[3]
            if it[0] == 'builtin' and it[1] == 'range':
                a = [self.ev(x) for x in it[2]]
                if all(isinstance(x, Iv) and x.finite() for x in a):
                    if len(a) == 1:
                        return Iv(0, a[0].hi - 1)
                    if len(a) >= 2:
                        return Iv(min(a[0].lo, a[1].lo + 1), max(a[0].hi, a[1].hi - 1))
            return Topv('loop variable over %s' % (it[0],))
        if k == 'loopcarried':
            key = (t[1], t[2])
            if key in self.loop_env:
                return self.loop_env[key]
            if key in self.inv:
                return self.inv[key]
            info = self.loops.get(t[2], {}).get(t[1])
            if info is None:
                return Topv('loop-carried %s without a recorded update' % t[1])
            r = self.loop_fix(t[1], t[2], info[0], info[1])
            self.inv[key] = r
            return r
        if k == 'name':
            v = self.params.get(t[1])
            return v if v is not None else Topv('unbound name %s' % t[1])
        if k == 'index':
            b = t[1]
            if b == ('sys', '_R'):
                return U32
            return Topv('indexing')
        if k == 'afterloop':
            return self.loop_fix(t[1], t[2], t[3], t[4])
        if k in ('pcall', 'rcall') and self.method_ranges is not None:
            r = self.method_ranges('ArmV6' if k == 'pcall' else 'Registers', t[1])
            if r is not None:
                return r
        if k == 'pcall':
            r = PCALL_RANGES.get(t[1])
            if r is not None:
                return r
            if t[1] == 'coproc_get_two_words':
                return Tupv([u(32), u(32)])
            return Topv('return value of processor.%s' % t[1])
        if k == 'rcall':
            r = RCALL_RANGES.get(t[1])
            return r if r is not None else Topv('return value of registers.%s' % t[1])
        if k == 'builtin':
            a = [self.ev(x) for x in t[2]]
            if t[1] in ('int', 'bool') and a:
                if isinstance(a[0], Iv) and t[1] == 'int':
                    return a[0]
                return BOOL
            if t[1] == 'abs' and a and isinstance(a[0], Iv):
                lo = 0 if a[0].lo <= 0 <= a[0].hi else min(abs(a[0].lo), abs(a[0].hi))
                return Iv(lo, max(abs(a[0].lo), abs(a[0].hi)))
            if t[1] in ('min', 'max') and len(a) == 2 and all(isinstance(x, Iv) for x in a):
                g = min if t[1] == 'min' else max
                return Iv(g(a[0].lo, a[1].lo), g(a[0].hi, a[1].hi))
            return Topv('builtin %s' % t[1])
        if k == 'inlined':
            res = None
            for x in t[2]:
                res = join(res, self.ev(x))
            return res
        if k == 'undef':
            return Topv('possibly undefined value')
        return Topv('term %s' % k)

    def ev_split(self, t, guards=(), limit=2048):
        """Evaluate t, case-splitting jointly on the loop variables and small-range opcode fields
        that occur in it (keeps `substring(v, 8*i+7, 8*i)` at width 8 and relates `msbit` to
        `lsbit`); combinations contradicting a dominating guard of the event are skipped."""
        keys = {}
        for tt in [t] + [g[0] for g in guards]:
            for s in _subterms(tt):
                if isinstance(s, tuple) and s:
                    if s[0] == 'loopvar' and (s[1], s[2]) not in self.lv_env:
                        if tt is t:
                            keys[('lv', s[1], s[2])] = s
                    elif s[0] == 'field' and ('f', s[1]) not in self.split_env:
                        keys[('f', s[1])] = s
        if not keys:
            return self.ev(t)
        combos = [{}]
        for key, s in sorted(keys.items(), key=lambda kv: repr(kv[0])):
            r = self.ev(s)
            if not (isinstance(r, Iv) and r.finite() and r.size() > 1 and r.size() * len(combos) <= limit):
                continue
            if key[0] == 'f' and r.size() > 64:
                continue
            combos = [{**c, key: k} for c in combos for k in range(int(r.lo), int(r.hi) + 1)]
        if combos == [{}]:
            return self.ev(t)
        res = None
        for c in combos:
            saved_lv, saved_f = self.lv_env, self.split_env
            self.lv_env = dict(saved_lv)
            self.split_env = dict(saved_f)
            for key, k in c.items():
                if key[0] == 'lv':
                    self.lv_env[(key[1], key[2])] = Iv(k, k)
                else:
                    self.split_env[key] = Iv(k, k)
            try:
                if not self.guards_feasible(guards):
                    continue
                if self.joint is not None:
                    fa_ = {k[1]: int(v.lo) for k, v in self.split_env.items() if k[0] == 'f'}
                    if fa_ and not self.joint(fa_):
                        continue        # the decode layer never produces this combination of field values
                res = join(res, self.ev(t))
            finally:
                self.lv_env, self.split_env = saved_lv, saved_f
        return res if res is not None else Botv()

    def guards_feasible(self, guards):
        for term, pol, _ in guards:
            v = self.truth(term)
            if v is None:
                continue
            if v != pol:
                return False
        return True

    def truth(self, term):
        """True / False when the (split) environment decides the guard term, else None."""
        k = term[0]
        if k == 'not':
            v = self.truth(term[1])
            return None if v is None else (not v)
        if k == 'and':
            vs = [self.truth(x) for x in term[1]]
            if any(v is False for v in vs):
                return False
            if all(v is True for v in vs):
                return True
            return None
        if k == 'or':
            vs = [self.truth(x) for x in term[1]]
            if any(v is True for v in vs):
                return True
            if all(v is False for v in vs):
                return False
            return None
        if k == 'cmp':
            a, b = self.ev(term[2]), self.ev(term[3])
            opcls = getattr(ast, term[1], None)
            if opcls is None or opcls in (ast.In, ast.NotIn, ast.Is, ast.IsNot):
                return None
            r = compare(opcls(), a, b)
            if r.lo == 1:
                return True
            if r.hi == 0:
                return False
            return None
        v = self.ev(term)
        if isinstance(v, Iv):
            if v.lo == 0 and v.hi == 0:
                return False
            if v.lo > 0 or v.hi < 0:
                return True
        return None

    def loop_fix(self, name, lid, init, update):
        key = (name, lid)
        cur = self.ev(init) if init != ('undef',) else None
        if cur is None:
            cur = Topv('loop-carried %s has no initial value' % name)
        if not isinstance(cur, Iv):
            return cur
        for i in range(8):
            self.loop_env[key] = cur
            nxt = self.ev(update)
            if not isinstance(nxt, Iv):
                del self.loop_env[key]
                return nxt
            j = join(cur, nxt)
            if j.lo == cur.lo and j.hi == cur.hi:
                del self.loop_env[key]
                return cur
            if i >= 3:
                j = Iv(-INF if j.lo < cur.lo else cur.lo, INF if j.hi > cur.hi else cur.hi)
            cur = j
        del self.loop_env[key]
        return cur

    def loop_invariant(self, name, lid, init, update):
        return self.loop_fix(name, lid, init, update)

    def find_func(self, name):
        r = self.repo.resolve_name(self.module, name)
        if r and r[0] == 'func':
            return r[1]
        for modname in ('armulator.armv6.bits_ops', 'armulator.armv6.shift'):
            m = self.repo.modules.get(modname)
            if m and name in m.functions:
                return m.functions[name]
        return None
