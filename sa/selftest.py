"""Thorough-tier sensitivity self-test: in-memory mutants of the judged functions, re-judged by the
same per-class rule functions on 16 workers.  Survivors are listed in the evidence (many are
equivalent mutants: an edit inside an UNPREDICTABLE arm, `>=` for `>` on a value that is never
equal, a constant that only feeds a print); they are notes about the checker, never violations.
A floor on the kill rate guards against a checker that silently stopped looking."""
import multiprocessing as mp
import os
import time

from .mutate import mutants
from .report import Run, AnalysisError
from .srcmodel import Repo

_CTX = {}


class _Timeout(Exception):
    pass


def _alarm(signum, frame):
    raise _Timeout()


def _init_worker():
    import resource
    import signal
    signal.signal(signal.SIGALRM, _alarm)
    try:
        resource.setrlimit(resource.RLIMIT_AS, (4 << 30, 4 << 30))     # a mutant must not be able to exhaust the machine
    except (ValueError, OSError):
        pass


def _work(job):
    import signal
    label, relpath, qualname, desc, new_source = job
    repo_path, judge, ctx = _CTX['repo_path'], _CTX['judge'], _CTX['ctx']
    tmp = Run(_CTX['prop'])
    signal.alarm(_CTX.get('seconds', 15))
    try:
        mrepo = Repo(repo_path, overrides={relpath: new_source})
        judge(tmp, mrepo, label, ctx)
    except _Timeout:
        return label, desc, 'timeout'
    except MemoryError:
        return label, desc, 'timeout'
    except (AnalysisError, RecursionError):
        return label, desc, 'rejected'
    except Exception:        # noqa - a mutant may break an assumption of the checker itself
        return label, desc, 'rejected'
    finally:
        signal.alarm(0)
    return label, desc, 'killed' if tmp.findings else 'survived'


def run_selftest(run, repo_path, prop, targets, judge, ctx, per_function=10, kinds=None, floor=60, seconds=15):
    """targets: [(label, module relpath, source, function qualname)]; judge(run, mutated repo, label, ctx) adds findings."""
    jobs = []
    for label, relpath, source, qualname in targets:
        for desc, new in mutants(source, qualname, kinds=kinds, limit=per_function):
            jobs.append((label, relpath, qualname, desc, new))
    _CTX.update(repo_path=repo_path, judge=judge, ctx=ctx, prop=prop, seconds=seconds)
    t = time.time()
    n = min(16, os.cpu_count() or 1)
    if jobs:
        with mp.get_context('fork').Pool(n, initializer=_init_worker) as pool:
            results = pool.map(_work, jobs, chunksize=4)
    else:
        results = []
    count = {'killed': 0, 'survived': 0, 'rejected': 0, 'invalid': 0, 'timeout': 0}
    for _, _, r in results:
        count[r] += 1
    built = count['killed'] + count['survived'] + count['rejected']
    detected = count['killed'] + count['rejected']
    run.extra['selftest'] = dict(count, mutants=built, seconds=round(time.time() - t, 1),
                                 note='rejected = the mutated function left the analysable idiom (exit 2 on such a tree); timeout = the '
                                      'mutant made the bit-vector comparison exceed %d s / 4 GB (not counted either way)' % seconds,
                                 survivors=[{'target': l, 'mutation': d} for l, d, r in results if r == 'survived'][:80])
    run.instance('%s-selftest' % prop, 'in-memory mutants of the judged functions', obligations=built, ok=True,
                 sample={'mutants': built, 'killed': count['killed'], 'rejected': count['rejected'], 'survived': count['survived']})
    if built:
        run.floor('%s self-test detection rate (percent)' % prop, int(100 * detected / built), floor)
    return count
