"""M3 - structured effect / dataflow walker for ``execute()`` bodies and other
straight-line-with-branches functions.

A syntax-directed walk that maintains a guard stack, an environment local ->
term (phi at joins) and an ordered event log of effects.  Rules are queries
over the log: dominance (guard stack), ordering, frame, term shape.  Nothing
is executed.
"""
import ast

from .report import AnalysisError
from .srcmodel import norm_stmt

# ---------------------------------------------------------------------------
# closed vocabulary of the processor API (derived from the 65 methods opcodes use)
# ---------------------------------------------------------------------------
MEM_READ = {'mem_a_get': 'a', 'mem_u_get': 'u', 'mem_u_unpriv_get': 'unpriv'}
MEM_WRITE = {'mem_a_set': 'a', 'mem_u_set': 'u', 'mem_u_unpriv_set': 'unpriv'}
BRANCH = {'branch_write_pc': 'branch', 'bx_write_pc': 'bx', 'alu_write_pc': 'alu', 'load_write_pc': 'load'}
REG_GET = {'get': None, 'get_sp': 13, 'get_lr': 14, 'get_pc': 15}
REG_SET = {'set': None, 'set_sp': 13, 'set_lr': 14}
OPCODE_PKG = 'armulator.armv6.opcodes.'
PURE_MODULES = ('armulator.armv6.bits_ops', 'armulator.armv6.shift', 'armulator.armv6.configurations')
# the vocabulary of the rules: calls of these helpers stay calls (the rules and M2/M7 know them by name, C17 judges their
# bodies); any OTHER function of bits_ops / shift (a helper a refactoring added) is looked through - its body is inlined
PRIMITIVES = frozenset('''add sub sign_extend to_signed to_unsigned lower_chunk add_with_carry signed_sat_q unsigned_sat_q signed_sat
unsigned_sat sat_q sat align lowest_set_bit_ref substring bit_not set_substring bit_at set_bit_at chain bit_count
big_endian_reverse is_ones decode_imm_shift decode_reg_shift lsl_c lsl lsr_c lsr asr_c asr ror_c ror rrx_c rrx shift_c shift
arm_expand_imm_c arm_expand_imm thumb_expand_imm_c thumb_expand_imm'''.split())
HELPER_MODULES = ('armulator.armv6.bits_ops', 'armulator.armv6.shift')


def T(*a):
    return tuple(a)


def const(v):
    return ('const', v)


class Event:
    __slots__ = ('kind', 'd', 'guards', 'loops', 'idx', 'node', 'excl')

    def __init__(self, kind, d, guards, loops, idx, node, excl):
        self.kind = kind
        self.d = d
        self.guards = guards      # tuple of (term, polarity, If node id)
        self.loops = loops        # tuple of loop descriptors
        self.idx = idx
        self.node = node
        self.excl = excl          # tuple of (branch id, arm index) for exclusivity tests

    def __repr__(self):
        return '<%s %r>' % (self.kind, self.d)

    def text(self):
        return norm_stmt(self.node, 120) if self.node is not None else self.kind


class Trace:
    def __init__(self, fi):
        self.fi = fi
        self.events = []
        self.env = {}
        self.returns = []

    def of(self, *kinds):
        return [e for e in self.events if e.kind in kinds]


def guard_has(guards, pred, polarity=True):
    """Is there a guard on the stack whose term satisfies pred with the given polarity
    (looking inside conjunctions for positive guards / disjunctions for negative ones)?"""
    for term, pol, _ in guards:
        if _guard_implies(term, pol, pred, polarity):
            return True
    return False


def _guard_implies(term, pol, pred, want):
    if pol == want and pred(term):
        return True
    if term[0] == 'not':
        return _guard_implies(term[1], not pol, pred, want)
    if term[0] == 'and' and pol:
        return any(_guard_implies(t, True, pred, want) for t in term[1])
    if term[0] == 'or' and not pol:
        return any(_guard_implies(t, False, pred, want) for t in term[1])
    return False


def exclusive(e1, e2):
    """True if the two events lie in different arms of the same if/elif/else (cannot both
    happen in one execution of a loop-free region)."""
    d1 = dict(e1.excl)
    for b, arm in e2.excl:
        if b in d1 and d1[b] != arm:
            return True
    return False


def split_writes(events, key='value'):
    """Events whose `key` term is a conditional (ite / phi) are replaced by one pseudo-event per leaf, guarded by the conditions
    taken - `x = a if c else b; write(x)` and `if c: write(a) else: write(b)` then look the same to a rule."""
    out = []

    def rec(ev, v, guards, excl):
        if isinstance(v, tuple) and v and v[0] in ('ite', 'phi') and len(v) == 4:
            bid = ('split', ev.idx, repr(v[1]))
            rec(ev, v[2], guards + ((v[1], True, bid),), excl + ((bid, 0),))
            rec(ev, v[3], guards + ((v[1], False, bid),), excl + ((bid, 1),))
        else:
            out.append(Event(ev.kind, dict(ev.d, **{key: v}), guards, ev.loops, ev.idx, ev.node, excl))
    for ev in events:
        rec(ev, ev.d.get(key), tuple(ev.guards), tuple(ev.excl))
    return out


def stale_reads(tr, allow=None):
    """(read event, write event) pairs: a register read that follows a register write on some path and may name the
    same register (not two different constants; re-reading the very index just written is a deliberate read-back)."""
    out = []
    for w in tr.events:
        if w.kind not in ('RegWrite', 'RmodeWrite'):
            continue
        wi = w.d['idx']
        for e in tr.events:
            if e.kind != 'RegRead' or e.idx <= w.idx or exclusive(e, w):
                continue
            ri = e.d['idx']
            if ri == wi or (ri[0] == 'const' and wi[0] == 'const'):
                continue
            if allow is not None and allow(e, w):
                continue
            out.append((e, w))
    return out


def subterms(t):
    yield t
    if isinstance(t, tuple):
        for x in (t[1:] if t and isinstance(t[0], str) else t):
            if isinstance(x, tuple):
                yield from subterms(x)
            elif isinstance(x, list):
                for y in x:
                    if isinstance(y, tuple):
                        yield from subterms(y)


def term_has(t, pred):
    return any(pred(s) for s in subterms(t))


class Walker:
    def __init__(self, repo, effects=None, proc_name='processor', proc_cls='ArmV6'):
        self.repo = repo
        self.effects = effects
        self.proc_name = proc_name
        self.proc_cls = proc_cls
        self.seq = 0

    # ------------------------------------------------------------------
    def walk(self, fi, self_cls=None):
        self.fi = fi
        self.cls = self_cls or fi.cls
        self.tr = Trace(fi)
        self.guards = ()
        self.loops = ()
        self.excl = ()
        self.depth = 0
        env = {}
        for p in fi.params():
            if p not in ('self', self.proc_name):
                env[p] = ('name', p)
        self.block(fi.node.body, env)
        self.tr.env = env
        return self.tr

    def emit(self, _kind, node, **d):
        ev = Event(_kind, d, self.guards, self.loops, len(self.tr.events), node, self.excl)
        self.tr.events.append(ev)
        return ev

    def fresh(self):
        self.seq += 1
        return self.seq

    # ------------------------------------------------------------------
    # statements
    # ------------------------------------------------------------------
    def block(self, stmts, env):
        g0, x0 = self.guards, self.excl
        try:
            for s in stmts:
                self.stmt(s, env)
                # early-exit idiom: `if c: raise/return` (no else) guards the rest of the block with not c
                if isinstance(s, ast.If) and self._last_test is not None:
                    bt, bf = self._always_exits(s.body), (self._always_exits(s.orelse) if s.orelse else False)
                    if bt and not bf:
                        self.guards = self.guards + ((self._last_test, False, id(s)),)
                    elif bf and not bt:
                        self.guards = self.guards + ((self._last_test, True, id(s)),)
        finally:
            self.guards, self.excl = g0, x0

    def _always_exits(self, stmts):
        if not stmts:
            return False
        last = stmts[-1]
        if isinstance(last, (ast.Raise, ast.Return, ast.Continue, ast.Break)):
            return True
        if isinstance(last, ast.If) and last.orelse:
            return self._always_exits(last.body) and self._always_exits(last.orelse)
        return False

    def stmt(self, s, env):
        if isinstance(s, ast.Assign):
            v = self.expr(s.value, env)
            for t in s.targets:
                self.assign(t, v, env, s)
        elif isinstance(s, ast.AugAssign):
            cur = self.expr(s.target, env)
            rhs = self.expr(s.value, env)
            v = ('op', type(s.op).__name__, cur, rhs)
            self.assign(s.target, v, env, s)
        elif isinstance(s, ast.Expr):
            if isinstance(s.value, ast.Constant):
                return
            self.expr(s.value, env, stmt=s)
        elif isinstance(s, ast.If):
            self.if_stmt(s, env)
        elif isinstance(s, ast.For):
            self.for_stmt(s, env)
        elif isinstance(s, ast.While):
            self.while_stmt(s, env)
        elif isinstance(s, ast.Try):
            self.try_stmt(s, env)
        elif isinstance(s, ast.Raise):
            name = ast.unparse(s.exc.func) if isinstance(s.exc, ast.Call) else (ast.unparse(s.exc) if s.exc else 'reraise')
            self.emit('Raise', s, exc=name)
        elif isinstance(s, ast.Return):
            v = self.expr(s.value, env) if s.value is not None else const(None)
            self.emit('Return', s, value=v)
        elif isinstance(s, ast.Pass):
            pass
        elif isinstance(s, ast.Assert):
            t = self.expr(s.test, env)
            self.emit('Assert', s, test=t)
        elif isinstance(s, (ast.Break, ast.Continue)):
            self.emit('Break' if isinstance(s, ast.Break) else 'Continue', s)
        else:
            raise AnalysisError('statement kind %s outside the walker idiom in %s' % (type(s).__name__, self.fi.qualname))

    _last_test = None

    def if_stmt(self, s, env):
        test = self.expr(s.test, env)
        self._last_test = None
        bid = id(s)
        g0, x0 = self.guards, self.excl
        env1 = dict(env)
        self.guards = g0 + ((test, True, bid),)
        self.excl = x0 + ((bid, 0),)
        self.block(s.body, env1)
        env2 = dict(env)
        self.guards = g0 + ((test, False, bid),)
        self.excl = x0 + ((bid, 1),)
        self.block(s.orelse, env2)
        self.guards, self.excl = g0, x0
        bt = self._always_exits(s.body)
        bf = self._always_exits(s.orelse) if s.orelse else False
        for k in set(env1) | set(env2):
            a, b = env1.get(k, ('undef',)), env2.get(k, ('undef',))
            if bt and not bf:
                env[k] = b          # the true arm never falls through
            elif bf and not bt:
                env[k] = a
            else:
                env[k] = a if a == b else ('phi', test, a, b)
        self._last_test = test

    def assigned_names(self, stmts):
        out = set()
        for n in ast.walk(ast.Module(body=list(stmts), type_ignores=[])):
            if isinstance(n, ast.Name) and isinstance(n.ctx, ast.Store):
                out.add(n.id)
        return out

    def loop_elements(self, it):
        """Element terms of a small constant iteration (literal tuple/list, constant range, zip of such), else None."""
        if it[0] == 'tuple':
            return list(it[1]) if len(it[1]) <= 8 else None
        if it[0] == 'builtin' and it[1] == 'range' and all(a[0] == 'const' and isinstance(a[1], int) for a in it[2]) and it[2]:
            r = range(*[a[1] for a in it[2]])
            return [const(v) for v in r] if len(r) <= 8 else None
        if it[0] == 'builtin' and it[1] == 'zip':
            parts = [self.loop_elements(a) for a in it[2]]
            if parts and all(p is not None for p in parts):
                return [('tuple', list(x)) for x in zip(*parts)]
        if it[0] == 'builtin' and it[1] in ('reversed', 'tuple', 'list') and len(it[2]) == 1:
            p = self.loop_elements(it[2][0])
            if p is not None:
                return list(reversed(p)) if it[1] == 'reversed' else p
        if it[0] == 'builtin' and it[1] == 'enumerate' and len(it[2]) == 1:
            p = self.loop_elements(it[2][0])
            if p is not None:
                return [('tuple', [const(i), x]) for i, x in enumerate(p)]
        return None

    def for_stmt(self, s, env):
        it = self.expr(s.iter, env)
        elems = self.loop_elements(it)
        if elems is not None and not s.orelse and not any(isinstance(n, (ast.Break, ast.Continue)) for n in ast.walk(s)):
            # a loop over a handful of constants is the same as its unrolled body
            for el in elems:
                self.assign(s.target, el, env, s)
                self.block(s.body, env)
            return
        comp = None
        if it[0] == 'comp' and isinstance(s.target, ast.Name):
            # for v in [f(i) for i in range(n)]  ==  for i in range(n): v = f(i)
            comp, it, var2 = it, it[3], s.target.id
            var = '#' + it_name(comp)
        elif it[0] == 'builtin' and it[1] == 'enumerate' and len(it[2]) == 1 and it[2][0][0] == 'comp' and \
                isinstance(s.target, ast.Tuple) and len(s.target.elts) == 2 and all(isinstance(x, ast.Name) for x in s.target.elts) and \
                it[2][0][3][0] == 'builtin' and it[2][0][3][1] == 'range' and len(it[2][0][3][2]) == 1:
            # for i, v in enumerate([f(j) for j in range(n)])  ==  for i in range(n): v = f(i)
            comp, it = it[2][0], it[2][0][3]
            var, var2 = s.target.elts[0].id, s.target.elts[1].id
        lid = self.fresh()
        if comp is None:
            var = s.target.id if isinstance(s.target, ast.Name) else ast.unparse(s.target)
        carried = self.assigned_names(s.body) - {var}
        if comp is not None:
            carried -= {var2}
        desc = ('for', lid, var, it)
        inits = {}
        for k in carried:
            inits[k] = env.get(k, ('undef',))
            env[k] = ('loopcarried', k, lid, inits[k])
        env[var] = ('loopvar', var, lid, it)
        if comp is not None:
            env[var2] = subst(comp[1], comp[2], env[var])
        l0 = self.loops
        self.loops = l0 + (desc,)
        self.emit('LoopEnter', s, loop=desc, carried=sorted(carried))
        self.block(s.body, env)
        self.loops = l0
        updates = {k: env.get(k) for k in carried}
        self.emit('LoopExit', s, loop=desc, updates=updates, inits=inits)
        for k in carried:
            env[k] = ('afterloop', k, lid, inits[k], updates[k])
        if s.orelse:
            self.block(s.orelse, env)

    def while_stmt(self, s, env):
        lid = self.fresh()
        carried = self.assigned_names(s.body)
        inits = {}
        for k in carried:
            inits[k] = env.get(k, ('undef',))
            env[k] = ('loopcarried', k, lid, inits[k])
        test = self.expr(s.test, env)
        desc = ('while', lid, None, test)
        l0, g0 = self.loops, self.guards
        self.loops = l0 + (desc,)
        self.guards = g0 + ((test, True, id(s)),)
        self.emit('LoopEnter', s, loop=desc, carried=sorted(carried))
        self.block(s.body, env)
        self.loops, self.guards = l0, g0
        updates = {k: env.get(k) for k in carried}
        self.emit('LoopExit', s, loop=desc, updates=updates, inits=inits)
        for k in carried:
            env[k] = ('afterloop', k, lid, inits[k], updates[k])

    def try_stmt(self, s, env):
        # idiom: try: <calls> except X: pass/handler else: <body>
        if s.finalbody and (s.handlers or s.orelse):
            raise AnalysisError('try/except/finally outside the walker idiom in %s' % self.fi.qualname)
        if s.finalbody:
            # try: <body> finally: <cleanup> - the cleanup also runs when the body raises: its events carry the
            # guard ('finally', ...) so that rules can tell them from effects that need normal completion
            tid = id(s)
            self.block(s.body, env)
            g0 = self.guards
            self.guards = g0 + ((('finally', tid), True, tid),)
            self.emit('Finally', s)
            self.block(s.finalbody, env)
            self.guards = g0
            return
        tid = id(s)
        self.block(s.body, env)
        names = []
        for h in s.handlers:
            names.append(ast.unparse(h.type) if h.type is not None else 'BaseException')
        g0, x0 = self.guards, self.excl
        tryterm = ('tryok', tuple(names), tid)
        # handlers
        for i, h in enumerate(s.handlers):
            envh = dict(env)
            self.guards = g0 + ((tryterm, False, tid),)
            self.excl = x0 + ((tid, 1 + i),)
            if h.name:
                envh[h.name] = ('exc', names[i])
            self.emit('Handler', h, exc=names[i])
            self.block(h.body, envh)
        self.guards = g0 + ((tryterm, True, tid),)
        self.excl = x0 + ((tid, 0),)
        self.block(s.orelse, env)
        self.guards, self.excl = g0, x0

    def assign(self, target, v, env, node):
        if isinstance(target, ast.Name):
            env[target.id] = v
            self.emit('LocalAssign', node, name=target.id, value=v)
            return
        if isinstance(target, (ast.Tuple, ast.List)):
            for k, t in enumerate(target.elts):
                self.assign(t, self.project(v, k), env, node)
            return
        if isinstance(target, ast.Attribute):
            path = self.attr_path(target, env)
            if path is None:
                # a store through an expression the walker cannot name (an element of a scratch tuple, a call result ...):
                # an effect on an unknown object - frame rules see it as an ObjStore they do not allow
                self.emit('ObjStore', node, root='?' + ast.unparse(target.value)[:60], attr=target.attr, value=v)
                return
            root, chain = path
            if root == 'proc':
                self.store_proc(chain, v, node)
                if chain and chain[0] != 'registers':
                    env['#proc:' + '.'.join(chain)] = v      # processor-local scratch: later reads see this value
            elif root == 'self':
                self.emit('SelfStore', node, attr='.'.join(chain), value=v)
            else:
                self.emit('ObjStore', node, root=root, attr='.'.join(chain), value=v)
            return
        if isinstance(target, ast.Subscript):
            base = self.expr(target.value, env)
            idx = self.expr(target.slice, env) if not isinstance(target.slice, ast.Slice) else (
                'slice', self.expr(target.slice.lower, env) if target.slice.lower else const(None),
                self.expr(target.slice.upper, env) if target.slice.upper else const(None))
            self.emit('ItemStore', node, base=base, index=idx, value=v)
            return
        raise AnalysisError('assignment target outside the walker idiom in %s' % self.fi.qualname)

    def project(self, v, k):
        if v[0] == 'tuple' and k < len(v[1]):
            return v[1][k]
        if v[0] in ('ite', 'phi') and all(isinstance(b, tuple) and b and b[0] in ('tuple', 'ite', 'phi') for b in v[2:4]):
            # (a, b) if c else (d, e): the projection goes inside the conditional
            return (v[0], v[1], self.project(v[2], k), self.project(v[3], k))
        return ('proj', v, k)

    def store_proc(self, chain, v, node):
        # processor.registers.cpsr.<f> = v  -> FlagWrite ; other registers.* -> SysWrite
        if len(chain) >= 3 and chain[0] == 'registers' and chain[1] == 'cpsr':
            self.emit('FlagWrite', node, flag=chain[2], value=v)
        elif chain[0] == 'registers':
            self.emit('SysWrite', node, path='.'.join(chain[1:]), value=v)
        else:
            self.emit('ProcStore', node, path='.'.join(chain), value=v)

    # ------------------------------------------------------------------
    # expressions -> terms
    # ------------------------------------------------------------------
    def attr_path(self, e, env):
        """('proc'|'self'|localname, [attrs...]) for attribute chains rooted at a name."""
        chain = []
        while isinstance(e, ast.Attribute):
            chain.append(e.attr)
            e = e.value
        chain.reverse()
        if isinstance(e, ast.Name):
            if e.id in env:
                # a local that aliases the processor or one of its sub-objects (`regs = processor.registers`,
                # a helper's parameter bound to the processor)
                v = env[e.id]
                if v == ('proc',):
                    return 'proc', chain
                if isinstance(v, tuple) and v and v[0] == 'sys' and isinstance(v[1], str):
                    return 'proc', ['registers'] + ([x for x in v[1].split('.') if x]) + chain
                if isinstance(v, tuple) and v and v[0] == 'procattr' and isinstance(v[1], str):
                    return 'proc', [x for x in v[1].split('.') if x] + chain
                if v == ('self',) and not self.proc_cls_is_self():
                    return 'self', chain
                return e.id, chain
            if e.id == self.proc_name:
                return 'proc', chain
            if e.id == 'self':
                if self.proc_cls_is_self():
                    return 'proc', chain
                return 'self', chain
            return e.id, chain
        return None

    def proc_cls_is_self(self):
        return self.proc_name == 'self'

    def expr(self, e, env, stmt=None):
        if e is None:
            return const(None)
        if isinstance(e, ast.Constant):
            return const(e.value)
        if isinstance(e, ast.Name):
            if e.id in env:
                return env[e.id]
            if e.id == self.proc_name:
                return ('proc',)
            if e.id == 'self':
                return ('self',)
            r = self.repo.resolve_name(self.fi.module, e.id)
            if r is not None:
                if r[0] == 'class':
                    return ('classref', r[1].name)
                if r[0] == 'func':
                    return ('funcref', r[1].module.name, r[1].name)
                if r[0] == 'module':
                    return ('moduleref', r[1].name)
                if r[0] == 'const':
                    if isinstance(r[2], ast.Constant):
                        return const(r[2].value)
                    if isinstance(r[2], (ast.Tuple, ast.List)) and all(isinstance(x, ast.Constant) or (
                            isinstance(x, (ast.Tuple, ast.List)) and all(isinstance(y, ast.Constant) for y in x.elts)) for x in r[2].elts):
                        # immutable module-level table of literals
                        return ('tuple', [const(x.value) if isinstance(x, ast.Constant) else ('tuple', [const(y.value) for y in x.elts])
                                          for x in r[2].elts])
                    return ('global', r[1].name, e.id)
                if r[0] == 'external':
                    return ('external', r[1])
            if e.id in ('True', 'False', 'None'):
                return const({'True': True, 'False': False, 'None': None}[e.id])
            return ('name', e.id)
        if isinstance(e, ast.Attribute):
            return self.attr_read(e, env)
        if isinstance(e, ast.Call):
            return self.call(e, env, stmt)
        if isinstance(e, ast.BinOp):
            return ('op', type(e.op).__name__, self.expr(e.left, env), self.expr(e.right, env))
        if isinstance(e, ast.UnaryOp):
            if isinstance(e.op, ast.Not):
                return ('not', self.expr(e.operand, env))
            return ('uop', type(e.op).__name__, self.expr(e.operand, env))
        if isinstance(e, ast.BoolOp):
            return ('and' if isinstance(e.op, ast.And) else 'or', [self.expr(v, env) for v in e.values])
        if isinstance(e, ast.Compare):
            left = self.expr(e.left, env)
            parts = []
            for op, c in zip(e.ops, e.comparators):
                right = self.expr(c, env)
                parts.append(('cmp', type(op).__name__, left, right))
                left = right
            return parts[0] if len(parts) == 1 else ('and', parts)
        if isinstance(e, ast.IfExp):
            c = self.expr(e.test, env)
            # effects inside the arms are guarded
            g0, x0 = self.guards, self.excl
            bid = id(e)
            self.guards = g0 + ((c, True, bid),)
            self.excl = x0 + ((bid, 0),)
            a = self.expr(e.body, env)
            self.guards = g0 + ((c, False, bid),)
            self.excl = x0 + ((bid, 1),)
            b = self.expr(e.orelse, env)
            self.guards, self.excl = g0, x0
            return ('ite', c, a, b)
        if isinstance(e, (ast.Tuple, ast.List)):
            return ('tuple', [self.expr(x, env) for x in e.elts])
        if isinstance(e, ast.Subscript):
            base = self.expr(e.value, env)
            if isinstance(e.slice, ast.Slice):
                return ('slice', base, self.expr(e.slice.lower, env), self.expr(e.slice.upper, env))
            idx = self.expr(e.slice, env)
            if idx[0] == 'const' and isinstance(idx[1], int):
                return self.project(base, idx[1])
            if base[0] == 'comp':
                return subst(base[1], base[2], idx)
            return ('index', base, idx)
        if isinstance(e, ast.JoinedStr):
            return ('str',)
        if isinstance(e, ast.Dict):
            return ('dict', [(self.expr(k, env), self.expr(v, env)) for k, v in zip(e.keys, e.values)])
        if isinstance(e, (ast.ListComp, ast.GeneratorExp, ast.SetComp)):
            return self.comprehension(e, env)
        if isinstance(e, ast.DictComp):
            return ('listcomp', norm_stmt(e, 80))
        if isinstance(e, ast.Lambda):
            return ('lambda', norm_stmt(e, 80))
        raise AnalysisError('expression kind %s outside the walker idiom in %s' % (type(e).__name__, self.fi.qualname))

    def comprehension(self, e, env):
        """[elt for v in <small constant iteration>] is the tuple of its elements; over a symbolic range with a pure element
        it is ('comp', element term, bound variable, iteration) - for-loops and subscripts look through it; else opaque."""
        opaque = ('listcomp', norm_stmt(e, 80))
        if len(e.generators) != 1:
            return opaque
        g = e.generators[0]
        if g.ifs or g.is_async or not isinstance(g.target, (ast.Name, ast.Tuple)):
            return opaque
        it = self.expr(g.iter, env)
        elems = self.loop_elements(it)
        if elems is not None:
            out = []
            inner = dict(env)
            for el in elems:
                self.assign_quiet(g.target, el, inner)
                out.append(self.expr(e.elt, inner))
            return ('tuple', out)
        if not isinstance(g.target, ast.Name):
            return opaque
        cv = ('compvar', g.target.id, self.fresh())
        inner = dict(env)
        inner[g.target.id] = cv
        mark = len(self.tr.events)
        try:
            t = self.expr(e.elt, inner)
        except AnalysisError:
            del self.tr.events[mark:]
            return opaque
        if len(self.tr.events) != mark:
            # the element reads or writes machine state: not a value the walker can move around
            del self.tr.events[mark:]
            return opaque
        return ('comp', t, cv, it)

    def assign_quiet(self, target, v, env):
        if isinstance(target, ast.Name):
            env[target.id] = v
        else:
            for k, t in enumerate(target.elts):
                self.assign_quiet(t, self.project(v, k), env)

    def attr_read(self, e, env):
        p = self.attr_path(e, env)
        if p is not None:
            root, chain = p
            if root == 'proc':
                k = '#proc:' + '.'.join(chain)
                if k in env:
                    return env[k]
                return self.proc_attr(chain, e)
            if root == 'self':
                return ('field', '.'.join(chain))
            if root in env:
                base = env[root]
                for a in chain:
                    base = ('getattr', base, a)
                return base
            r = self.repo.resolve_expr(self.fi.module, e)
            if r is not None:
                if r[0] == 'enum_member':
                    return ('enum', r[1].name, r[2])
                if r[0] == 'func':
                    return ('funcref', r[1].module.name, r[1].name)
                if r[0] == 'class':
                    return ('classref', r[1].name)
                if r[0] == 'const' and isinstance(r[2], ast.Constant):
                    return const(r[2].value)
            rr = self.repo.resolve_name(self.fi.module, root)
            if rr is not None and rr[0] == 'const':
                return ('getattr', ('global', rr[1].name, root), '.'.join(chain))
            return ('getattr', ('name', root), '.'.join(chain))
        base = self.expr(e.value, env)
        return ('getattr', base, e.attr)

    def proc_attr(self, chain, node):
        if len(chain) >= 3 and chain[0] == 'registers' and chain[1] == 'cpsr':
            return ('flag', chain[2])
        if chain and chain[0] == 'registers':
            return ('sys', '.'.join(chain[1:]))
        return ('procattr', '.'.join(chain))

    # ------------------------------------------------------------------
    def call(self, e, env, stmt=None):
        node = stmt if stmt is not None else e
        f = e.func
        args = [self.expr(a, env) for a in e.args]
        kwargs = {k.arg: self.expr(k.value, env) for k in e.keywords}
        if isinstance(f, ast.Attribute):
            p = self.attr_path(f, env)
            if p is not None and p[0] == 'proc':
                return self.proc_call(p[1], args, kwargs, node, e)
            if p is not None and p[0] == 'self' and not self.proc_cls_is_self():
                # method of the opcode itself: inline (bounded)
                m = self.cls.find_method(p[1][-1]) if (self.cls and len(p[1]) == 1) else None
                if m is not None and self.depth < 3:
                    decos = {ast.unparse(d) for d in m.node.decorator_list}
                    if 'staticmethod' in decos:
                        return self.inline(m, args, kwargs, node)
                    if 'classmethod' in decos:
                        return self.inline(m, [('classref', self.cls.name)] + args, kwargs, node)
                    return self.inline(m, [('self',)] + args, kwargs, node)
                return ('selfcall', '.'.join(p[1]), tuple(args))
            if p is not None and p[0] in env:
                recv = env[p[0]]
                self.emit('ObjCall', node, recv=recv, method='.'.join(p[1]), args=args)
                return ('objcall', recv, '.'.join(p[1]), tuple(args), self.fresh())
            r = self.repo.resolve_expr(self.fi.module, f)
            if r is not None and r[0] == 'func':
                return self.func_call(r[1], args, kwargs, node)
            base = self.expr(f.value, env)
            if base[0] in ('name', 'getattr', 'index', 'proj', 'objcall', 'dyncall', 'phi', 'ite', 'procattr', 'sys'):
                # call on an object the walker cannot type: an effect as far as rules are concerned
                self.emit('ObjCall', node, recv=base, method=f.attr, args=args)
                return ('objcall', base, f.attr, tuple(args), self.fresh())
            return ('methodcall', base, f.attr, tuple(args))
        if isinstance(f, ast.Name):
            if f.id in env and env[f.id][0] not in ('funcref', 'classref'):
                self.emit('DynCall', node, callee=env[f.id], args=args)
                return ('dyncall', env[f.id], tuple(args), self.fresh())
            if f.id == 'print':
                txt = args[0][1] if args and args[0][0] == 'const' else None
                self.emit('Unpredictable' if txt == 'unpredictable' else 'Print', node, text=txt)
                return const(None)
            if f.id in ('sum', 'any', 'all') and len(args) == 1 and args[0][0] == 'tuple' and f.id not in env:
                # over a handful of known elements these are the unrolled expression
                el = list(args[0][1])
                if f.id == 'sum':
                    if not el:
                        return const(0)
                    t = el[0]
                    for x in el[1:]:
                        t = ('op', 'Add', t, x)
                    return t
                return ('or' if f.id == 'any' else 'and', el) if el else const(f.id == 'all')
            if f.id in ('int', 'bool', 'abs', 'len', 'range', 'min', 'max', 'isinstance', 'hasattr', 'bin', 'any', 'all',
                        'reversed', 'list', 'tuple', 'sum', 'repr', 'str', 'sorted', 'enumerate', 'zip'):
                return ('builtin', f.id, tuple(args))
            r = self.repo.resolve_name(self.fi.module, f.id)
            if r is not None and r[0] == 'func':
                return self.func_call(r[1], args, kwargs, node)
            if r is not None and r[0] == 'class':
                self.emit('New', node, cls=r[1].name, args=args, kwargs=kwargs)
                return ('new', r[1].name, tuple(args), tuple(sorted(kwargs.items())), self.fresh())
            if r is not None and r[0] == 'external':
                return ('extcall', r[1], tuple(args))
            return ('unknowncall', f.id, tuple(args))
        callee = self.expr(f, env)
        self.emit('DynCall', node, callee=callee, args=args)
        return ('dyncall', callee, tuple(args), self.fresh())

    def func_call(self, fi, args, kwargs, node):
        # repository helper function (module level): pure term; record for width / ownership rules
        full = list(args)
        if kwargs:
            names = fi.params()
            for k, v in kwargs.items():
                if k in names:
                    i = names.index(k)
                    while len(full) <= i:
                        full.append(('default',))
                    full[i] = v
        t = ('call', fi.name, tuple(full))
        if fi.module.name in HELPER_MODULES and fi.name not in PRIMITIVES and self.depth < 3 and not any(a == ('default',) for a in full):
            return self.inline(fi, full, {}, node)
        if not fi.module.name.startswith(PURE_MODULES):
            if fi.module.name.startswith(OPCODE_PKG) and self.depth < 3 and not any(a == ('default',) for a in full):
                # private helper of an opcode module: its effects are the caller's effects
                return self.inline(fi, full, {}, node)
            self.emit('FuncCall', node, module=fi.module.name, func=fi.name, args=full)
        return t

    def inline(self, fi, args, kwargs, node):
        env = {}
        names = fi.params()
        for n, v in zip(names, args):
            env[n] = v
        for k, v in kwargs.items():
            env[k] = v
        self.depth += 1
        mark = len(self.tr.events)
        saved = self.fi
        try:
            self.fi = fi
            self.block(fi.node.body, env)
        finally:
            self.fi = saved
            self.depth -= 1
        rets = [ev for ev in self.tr.events[mark:] if ev.kind == 'Return']
        for ev in rets:
            ev.kind = 'InlinedReturn'
        if len(rets) == 1:
            return rets[0].d['value']
        if not rets:
            return const(None)
        # several return points: a conditional value over the guards each return sits under (relative to the call site)
        depth0 = len(self.guards)
        value = rets[-1].d['value']
        for ev in reversed(rets[:-1]):
            extra = ev.guards[depth0:]
            if not extra:
                return ('inlined', fi.qualname, tuple(e.d['value'] for e in rets))
            conds = [t if pol else ('not', t) for t, pol, _ in extra]
            c = conds[0] if len(conds) == 1 else ('and', conds)
            value = ('ite', c, ev.d['value'], value)
        return value

    def proc_call(self, chain, args, kwargs, node, e):
        name = chain[-1]
        recv = chain[:-1]
        a = args + [v for _, v in sorted(kwargs.items())]
        if recv == ['registers']:
            if name in REG_GET:
                idx = const(REG_GET[name]) if REG_GET[name] is not None else (a[0] if a else ('missing',))
                self.emit('RegRead', node, idx=idx)
                if idx == const(15):
                    return ('pc',)
                return ('reg', idx)
            if name in REG_SET:
                idx = const(REG_SET[name]) if REG_SET[name] is not None else a[0]
                val = a[-1]
                self.emit('RegWrite', node, idx=idx, value=val)
                return const(None)
            if name == 'get_rmode':
                return ('rmode', a[0], a[1])
            if name == 'set_rmode':
                self.emit('RmodeWrite', node, idx=a[0], mode=a[1], value=a[2])
                return const(None)
            if name == 'pc_store_value':
                self.emit('RawPcRead', node)
                return ('rawpc',)
            if name == 'get_spsr':
                return ('spsr',)
            if name == 'set_spsr':
                self.emit('SpsrWrite', node, value=a[0])
                return const(None)
            if name == 'cpsr_write_by_instr':
                self.emit('CpsrWriteByInstr', node, value=a[0], mask=a[1], excret=a[2] if len(a) > 2 else ('missing',))
                return const(None)
            if name == 'spsr_write_by_instr':
                self.emit('SpsrWriteByInstr', node, value=a[0], mask=a[1])
                return const(None)
            if name == 'select_instr_set':
                self.emit('SelectISet', node, iset=a[0])
                return const(None)
            if name == 'branch_to':
                self.emit('BranchTo', node, target=a[0])
                return const(None)
            if name == 'it_advance':
                self.emit('ItAdvance', node)
                return const(None)
            if name.startswith('take_') and name.endswith('_exception'):
                self.emit('TakeException', node, which=name)
                return const(None)
            s = self.summary('Registers', name)
            t = ('rcall', name, tuple(a))
            self.emit('ProcCall', node, recv='registers', method=name, args=a, summary=s, term=t)
            return t
        if not recv:
            if name in MEM_READ:
                sq = self.fresh()
                self.emit('MemRead', node, kind=MEM_READ[name], addr=a[0], size=a[1] if len(a) > 1 else ('missing',), seq=sq)
                return ('mem', MEM_READ[name], a[0], a[1] if len(a) > 1 else ('missing',), sq)
            if name in MEM_WRITE:
                self.emit('MemWrite', node, kind=MEM_WRITE[name], addr=a[0], size=a[1], value=a[2] if len(a) > 2 else ('missing',))
                return const(None)
            if name in BRANCH:
                self.emit('Branch', node, kind=BRANCH[name], target=a[0])
                return const(None)
            s = self.summary(self.proc_cls, name)
            t = ('pcall', name, tuple(a))
            self.emit('ProcCall', node, recv='', method=name, args=a, summary=s, term=t)
            return t
        # deeper receivers: processor.registers.<reg>.<method>() / processor.mem.<method>()
        t = ('pcall', '.'.join(chain), tuple(a))
        self.emit('ProcCall', node, recv='.'.join(recv), method=name, args=a, summary=self.summary_path(recv, name), term=t)
        return t

    def summary(self, clsname, method):
        if self.effects is None:
            return None
        return self.effects.summary(clsname, method)

    def summary_path(self, recv, method):
        if self.effects is None:
            return None
        return self.effects.summary_for_path(recv, method)


def it_name(comp):
    return '%s%d' % (comp[2][1], comp[2][2])


def subst(t, old, new):
    """t with every occurrence of the term `old` replaced by `new`."""
    if t == old:
        return new
    if isinstance(t, tuple):
        return tuple(subst(x, old, new) for x in t)
    if isinstance(t, list):
        return [subst(x, old, new) for x in t]
    return t


# ---------------------------------------------------------------------------
# term utilities shared by rules
# ---------------------------------------------------------------------------
def fmt(t, depth=0):
    """Compact printable form of a term."""
    if not isinstance(t, tuple):
        return repr(t)
    k = t[0]
    if k == 'const':
        v = t[1]
        return hex(v) if isinstance(v, int) and not isinstance(v, bool) and v > 9 else repr(v)
    if k == 'field':
        return 'self.' + t[1]
    if k == 'reg':
        return 'R[%s]' % fmt(t[1])
    if k == 'pc':
        return 'PC'
    if k == 'flag':
        return 'CPSR.' + t[1]
    if k == 'sys':
        return 'regs.' + t[1]
    if k == 'call':
        return '%s(%s)' % (t[1], ', '.join(fmt(a) for a in t[2]))
    if k == 'pcall':
        return 'processor.%s(%s)' % (t[1], ', '.join(fmt(a) for a in t[2]))
    if k == 'rcall':
        return 'registers.%s(%s)' % (t[1], ', '.join(fmt(a) for a in t[2]))
    if k == 'proj':
        return '%s[%d]' % (fmt(t[1]), t[2])
    if k == 'op':
        return '(%s %s %s)' % (fmt(t[2]), t[1], fmt(t[3]))
    if k == 'cmp':
        return '(%s %s %s)' % (fmt(t[2]), t[1], fmt(t[3]))
    if k == 'not':
        return 'not %s' % fmt(t[1])
    if k in ('and', 'or'):
        return '(' + (' %s ' % k).join(fmt(x) for x in t[1]) + ')'
    if k == 'ite':
        return '(%s if %s else %s)' % (fmt(t[2]), fmt(t[1]), fmt(t[3]))
    if k == 'phi':
        return 'phi(%s ? %s : %s)' % (fmt(t[1]), fmt(t[2]), fmt(t[3]))
    if k == 'mem':
        return 'Mem%s[%s,%s]' % (t[1], fmt(t[2]), fmt(t[3]))
    if k == 'loopvar':
        return t[1]
    if k in ('loopcarried', 'afterloop'):
        return '%s@loop' % t[1]
    if k == 'enum':
        return '%s.%s' % (t[1], t[2])
    return '%s(...)' % k
