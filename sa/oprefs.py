"""Reference models of the multiply / divide / saturating / parallel / extend / bit-field /
reverse instructions, transcribed from the operation pseudocode of the ARM Architecture
Reference Manual (ARMv7-A/R, chapter A8) over the symbols of an :class:`sa.opexec.OpHarness`.

Each model returns ``Outcome``: final value of every written register role, the CPSR bits it
defines, bits that are UNKNOWN, the UNPREDICTABLE condition and the condition under which an
exception is generated.  Multiplication and division use the same uninterpreted symbols as the
tree side (see opexec); everything else is plain bit-vector wiring and ripple arithmetic.
"""
import re

from .bitdom import Int, V

N_BIT, Z_BIT, C_BIT, V_BIT, Q_BIT = 31, 30, 29, 28, 27
GE_LO = 16


class Outcome:
    def __init__(self):
        self.regs = {}        # role -> Int (32 bits)
        self.flags = {}       # cpsr bit index -> bdd (new value) ; applied under `flag_cond`
        self.flag_cond = {}   # cpsr bit index -> bdd condition under which the bit is written
        self.unknown = {}     # cpsr bit index -> condition under which the bit is UNKNOWN
        self.unpred = 0
        self.raises = 0
        self.written = 1      # condition under which the registers are written (besides COND)


class X:
    """Expression helpers bound to one harness."""

    def __init__(self, h):
        self.h = h
        self.it = h.it
        self.B = h.B

    # atoms
    def R(self, role):
        return self.h.R(role)

    def c(self, v):
        return self.it.const(v)

    # views
    def u(self, x, hi, lo):
        """x<hi:lo> as an unsigned integer (x any exact integer, two's complement)."""
        return self.it.trim(Int(self.it.ext(x, hi + 1)[lo:hi + 1], False))

    def s(self, x, w):
        """SInt(x<w-1:0>)"""
        return self.it.trim(Int(self.it.ext(x, w)[:w], True))

    def word(self, x):
        return Int(self.it.ext(x, 32)[:32], False)

    def cat(self, hi, lo, lo_w):
        return Int(self.it.ext(lo, lo_w)[:lo_w] + list(hi.bits), False)

    # arithmetic
    def add(self, a, b):
        return self.it.i_add(a, b)

    def sub(self, a, b):
        return self.it.i_sub(a, b)

    def shl(self, a, k):
        return self.it.i_shl_const(a, k)

    def mul(self, a, b):
        ca, cb = self.it.cval(a), self.it.cval(b)
        if ca is not None or cb is not None:
            return self.it.i_mul(a, b)
        return self.h.pol.symbolic_mul(self.it, a, b)

    def div(self, a, b):
        return self.h.pol.trunc_div(self.it, a, b)

    def ite(self, c, a, b):
        return self.it.i_ite(c, a, b)

    def lt(self, a, b):
        return self.it.i_lt(a, b)

    def eq(self, a, b):
        return self.it.i_eq(a, b if isinstance(b, Int) else self.c(b))

    def nonzero(self, x):
        return self.B.all_or(x.bits)

    # SignedSatQ / UnsignedSatQ for a constant N
    def ssatq(self, x, n):
        hi, lo = (1 << (n - 1)) - 1, -(1 << (n - 1))
        gt = self.lt(self.c(hi), x)
        lt_ = self.lt(x, self.c(lo))
        res = self.ite(gt, self.c(hi), self.ite(lt_, self.c(lo), x))
        return res, self.B.OR(gt, lt_)

    def usatq(self, x, n):
        hi = (1 << n) - 1
        gt = self.lt(self.c(hi), x)
        lt_ = self.lt(x, self.c(0))
        res = self.ite(gt, self.c(hi), self.ite(lt_, self.c(0), x))
        return res, self.B.OR(gt, lt_)

    def field_cases(self, f):
        """[(condition, python value)] over the decode-feasible values of an integer field."""
        h = self.h
        if f in h.fixed:
            return [(1, h.fixed[f])]
        sym = h.F(f)
        kw = dict(h.init_params())[f]
        vals = h.fr.values(h.clsname, kw, limit=64)
        if vals is None:
            r = h.fr.for_abstract(h.clsname)[kw]
            vals = range(int(r.lo), int(r.hi) + 1)
        return [(self.eq(sym, v), v) for v in sorted(vals)]

    def by_field(self, f, fn):
        """ite-chain of fn(value) over the feasible values of field f (Int results)."""
        out = None
        for c, v in self.field_cases(f):
            r = fn(v)
            out = r if out is None else self.ite(c, r, out)
        return out

    def cond_by_field(self, f, fn):
        return self.B.all_or(self.B.AND(c, fn(v)) for c, v in self.field_cases(f))

    # Shift(value, type, amount, carry_in) by enumeration of (type, amount)
    def shift_const(self, x, t, k, carry):
        b = list(self.it.ext(x, 32))[:32]
        if k == 0:
            return Int(b)
        if t == 'LSL':
            return Int(([0] * k + b)[:32])
        if t == 'LSR':
            return Int((b[k:] + [0] * 32)[:32])
        if t == 'ASR':
            return Int((b[k:] + [b[31]] * 32)[:32])
        if t == 'ROR':
            m = k % 32
            return Int(b[m:] + b[:m])
        if t == 'RRX':
            return Int(b[1:] + [carry])
        raise ValueError(t)

    def shift(self, x, tf='shift_t', nf='shift_n'):
        h = self.h
        carry = h.cpsr().bits[C_BIT]
        out = None
        sel, order = h.fieldsyms[tf]
        for t in order:
            tc = h.enum_is(tf, t)
            for c, k in self.field_cases(nf):
                r = self.shift_const(x, t, k, carry)
                out = r if out is None else self.ite(self.B.AND(tc, c), r, out)
        return out

    def ror_field(self, x, f='rotation'):
        return self.by_field(f, lambda k: self.shift_const(x, 'ROR', k, 0))


def setflag(o, bit, value, cond=1):
    o.flags[bit] = value
    o.flag_cond[bit] = cond


# -------------------------------------------------------------------------------------------------
# models
# -------------------------------------------------------------------------------------------------
PAR = re.compile(r'^(S|U|Q|Uq|Sh|Uh)(add8|sub8|add16|sub16|asx|sax)$')


def lanes_of(op):
    """[(result lane lo, width, n slice lo, m slice lo, 'add'|'sub')]"""
    if op in ('add8', 'sub8'):
        return [(8 * k, 8, 8 * k, 8 * k, op[:3]) for k in range(4)]
    if op in ('add16', 'sub16'):
        return [(16 * k, 16, 16 * k, 16 * k, op[:3]) for k in range(2)]
    if op == 'asx':
        return [(0, 16, 0, 16, 'sub'), (16, 16, 16, 0, 'add')]
    if op == 'sax':
        return [(0, 16, 0, 16, 'add'), (16, 16, 16, 0, 'sub')]
    raise ValueError(op)


def parallel(x, prefix, op):
    o = Outcome()
    n, m = x.R('n'), x.R('m')
    signed = prefix in ('S', 'Q', 'Sh')
    bits = [0] * 32
    ge = [None] * 4
    for lo, w, nlo, mlo, kind in lanes_of(op):
        a = x.s(x.u(n, nlo + w - 1, nlo), w) if signed else x.u(n, nlo + w - 1, nlo)
        b = x.s(x.u(m, mlo + w - 1, mlo), w) if signed else x.u(m, mlo + w - 1, mlo)
        r = x.add(a, b) if kind == 'add' else x.sub(a, b)
        if prefix in ('S', 'U'):
            lane = x.u(r, w - 1, 0)
            if prefix == 'S':
                g = x.B.NOT(x.lt(r, x.c(0)))
            elif kind == 'add':
                g = x.B.NOT(x.lt(r, x.c(1 << w)))
            else:
                g = x.B.NOT(x.lt(r, x.c(0)))
            for k in range(lo // 8, (lo + w) // 8):
                ge[k] = g
        elif prefix == 'Q':
            lane = x.u(x.ssatq(r, w)[0], w - 1, 0)
        elif prefix == 'Uq':
            lane = x.u(x.usatq(r, w)[0], w - 1, 0)
        else:
            lane = x.u(r, w, 1)
        bits[lo:lo + w] = x.it.ext(lane, w)
    o.regs['d'] = Int(bits)
    if prefix in ('S', 'U'):
        for k in range(4):
            setflag(o, GE_LO + k, ge[k])
    return o


def m_mul(x, kind):
    o = Outcome()
    h = x.h
    B = x.B
    n, m = x.R('n'), x.R('m')
    long_ = kind in ('Umull', 'Umlal', 'Smull', 'Smlal')
    if kind in ('Mul', 'Mla', 'Mls'):
        p = x.mul(x.s(n, 32), x.s(m, 32))
        if kind == 'Mla':
            p = x.add(p, x.s(x.R('a'), 32))
        if kind == 'Mls':
            p = x.sub(x.s(x.R('a'), 32), p)
        res = x.u(p, 31, 0)
        o.regs['d'] = x.word(res)
        width = 32
    else:
        signed = kind[0] == 'S'
        a, b = (x.s(n, 32), x.s(m, 32)) if signed else (n, m)
        p = x.mul(a, b)
        if kind.endswith('lal'):
            acc = x.cat(x.R('d_hi'), x.R('d_lo'), 32)
            p = x.add(p, x.s(acc, 64) if signed else acc)
        res = x.u(p, 63, 0)
        o.regs['d_hi'] = x.word(x.u(res, 63, 32))
        o.regs['d_lo'] = x.word(x.u(res, 31, 0))
        width = 64
    if kind != 'Mls':
        sf = h.F('setflags').bits[0]
        rb = x.it.ext(res, width)
        setflag(o, N_BIT, rb[width - 1], sf)
        setflag(o, Z_BIT, B.NOT(B.all_or(rb)), sf)
        v4 = B.AND(sf, x.eq(h.arch(), 4))
        o.unknown[C_BIT] = v4
        if long_:
            o.unknown[V_BIT] = v4
    return o


def halves(x, reg, high_field):
    hi = x.u(reg, 31, 16)
    lo = x.u(reg, 15, 0)
    return x.ite(x.h.F(high_field).bits[0], hi, lo)


def m_halfword(x, kind):
    o = Outcome()
    B = x.B
    n, m = x.R('n'), x.R('m')
    if kind in ('Smul', 'Smla', 'Smlalxy'):
        op1 = x.s(halves(x, n, 'n_high'), 16)
        op2 = x.s(halves(x, m, 'm_high'), 16)
        p = x.mul(op1, op2)
        if kind == 'Smul':
            o.regs['d'] = x.word(x.u(p, 31, 0))
        elif kind == 'Smla':
            r = x.add(p, x.s(x.R('a'), 32))
            o.regs['d'] = x.word(x.u(r, 31, 0))
            setflag(o, Q_BIT, 1, B.NOT(x.eq(r, x.s(x.u(r, 31, 0), 32))))
        else:
            acc = x.s(x.cat(x.R('d_hi'), x.R('d_lo'), 32), 64)
            r = x.add(p, acc)
            o.regs['d_hi'] = x.word(x.u(r, 63, 32))
            o.regs['d_lo'] = x.word(x.u(r, 31, 0))
        return o
    if kind in ('Smulw', 'Smlaw'):
        op2 = x.s(halves(x, m, 'm_high'), 16)
        p = x.mul(x.s(n, 32), op2)
        if kind == 'Smulw':
            o.regs['d'] = x.word(x.u(p, 47, 16))
        else:
            r = x.add(p, x.shl(x.s(x.R('a'), 32), 16))
            d = x.u(r, 47, 16)
            o.regs['d'] = x.word(d)
            setflag(o, Q_BIT, 1, B.NOT(x.eq(x.it.i_shr_const(r, 16), x.s(d, 32))))
        return o
    raise ValueError(kind)


def m_dual(x, kind):
    o = Outcome()
    B = x.B
    n, m = x.R('n'), x.R('m')
    swap = x.h.F('m_swap').bits[0]
    op2 = x.ite(swap, x.shift_const(m, 'ROR', 16, 0), m)
    p1 = x.mul(x.s(x.u(n, 15, 0), 16), x.s(x.u(op2, 15, 0), 16))
    p2 = x.mul(x.s(x.u(n, 31, 16), 16), x.s(x.u(op2, 31, 16), 16))
    sub = kind in ('Smusd', 'Smlsd', 'Smlsld')
    r = x.sub(p1, p2) if sub else x.add(p1, p2)
    if kind in ('Smlad', 'Smlsd'):
        r = x.add(r, x.s(x.R('a'), 32))
    if kind in ('Smlald', 'Smlsld'):
        r = x.add(r, x.s(x.cat(x.R('d_hi'), x.R('d_lo'), 32), 64))
        o.regs['d_hi'] = x.word(x.u(r, 63, 32))
        o.regs['d_lo'] = x.word(x.u(r, 31, 0))
        return o
    o.regs['d'] = x.word(x.u(r, 31, 0))
    if kind != 'Smusd':
        setflag(o, Q_BIT, 1, B.NOT(x.eq(r, x.s(x.u(r, 31, 0), 32))))
    return o


def m_msw(x, kind):
    o = Outcome()
    p = x.mul(x.s(x.R('n'), 32), x.s(x.R('m'), 32))
    if kind == 'Smmla':
        r = x.add(x.shl(x.s(x.R('a'), 32), 32), p)
    elif kind == 'Smmls':
        r = x.sub(x.shl(x.s(x.R('a'), 32), 32), p)
    else:
        r = p
    r = x.ite(x.h.F('round').bits[0], x.add(r, x.c(0x80000000)), r)
    o.regs['d'] = x.word(x.u(r, 63, 32))
    return o


def m_div(x, kind):
    o = Outcome()
    B = x.B
    n, m = x.R('n'), x.R('m')
    a, b = (x.s(n, 32), x.s(m, 32)) if kind == 'Sdiv' else (n, m)
    zero = B.NOT(x.nonzero(m))
    trap = B.var('CFG.zero_divide_trap')
    q = x.div(a, b)
    o.regs['d'] = x.word(x.ite(zero, x.c(0), x.u(q, 31, 0)))
    o.raises = B.AND(zero, trap)
    return o


def m_sat(x, kind):
    o = Outcome()
    B = x.B
    n, m = x.R('n'), x.R('m') if 'm' in x.h.regroles else None
    if kind in ('Qadd', 'Qsub'):
        r = x.add(x.s(m, 32), x.s(n, 32)) if kind == 'Qadd' else x.sub(x.s(m, 32), x.s(n, 32))
        res, sat = x.ssatq(r, 32)
        o.regs['d'] = x.word(x.u(res, 31, 0))
        setflag(o, Q_BIT, 1, sat)
    elif kind in ('Qdadd', 'Qdsub'):
        dbl, sat1 = x.ssatq(x.mul(x.c(2), x.s(n, 32)), 32)
        r = x.add(x.s(m, 32), dbl) if kind == 'Qdadd' else x.sub(x.s(m, 32), dbl)
        res, sat2 = x.ssatq(r, 32)
        o.regs['d'] = x.word(x.u(res, 31, 0))
        setflag(o, Q_BIT, 1, B.OR(sat1, sat2))
    elif kind in ('Ssat', 'Usat'):
        operand = x.s(x.shift(n), 32)
        fn = x.ssatq if kind == 'Ssat' else x.usatq
        o.regs['d'] = x.by_field('saturate_to', lambda k: x.word(x.u(fn(operand, k)[0], 31, 0)))
        setflag(o, Q_BIT, 1, x.cond_by_field('saturate_to', lambda k: fn(operand, k)[1]))
    elif kind in ('Ssat16', 'Usat16'):
        fn = x.ssatq if kind == 'Ssat16' else x.usatq
        lo, hi = x.s(x.u(n, 15, 0), 16), x.s(x.u(n, 31, 16), 16)
        o.regs['d'] = x.by_field('saturate_to', lambda k: x.cat(x.u(fn(hi, k)[0], 15, 0), x.u(fn(lo, k)[0], 15, 0), 16))
        setflag(o, Q_BIT, 1, x.cond_by_field('saturate_to', lambda k: B.OR(fn(lo, k)[1], fn(hi, k)[1])))
    else:
        raise ValueError(kind)
    return o


def m_sel(x):
    o = Outcome()
    n, m = x.R('n'), x.R('m')
    ge = x.h.cpsr().bits[GE_LO:GE_LO + 4]
    bits = []
    for k in range(4):
        bits += x.it.ext(x.ite(ge[k], x.u(n, 8 * k + 7, 8 * k), x.u(m, 8 * k + 7, 8 * k)), 8)
    o.regs['d'] = Int(bits)
    return o


def ext_to(x, v, w, to, signed):
    b = x.it.ext(v, w)[:w]
    return Int(b + [b[-1] if signed else 0] * (to - w))


def m_extend(x, kind):
    o = Outcome()
    m_ = re.match(r'^(S|U)xt(a)?(b16|b|h)$', kind)
    signed, acc, what = m_.group(1) == 'S', bool(m_.group(2)), m_.group(3)
    rot = x.ror_field(x.R('m'))
    if what == 'b16':
        lo = ext_to(x, x.u(rot, 7, 0), 8, 16, signed)
        hi = ext_to(x, x.u(rot, 23, 16), 8, 16, signed)
        if acc:
            n = x.R('n')
            lo = x.u(x.add(x.u(n, 15, 0), lo), 15, 0)
            hi = x.u(x.add(x.u(n, 31, 16), hi), 15, 0)
        o.regs['d'] = x.cat(hi, lo, 16)
        o.regs['d'] = x.word(o.regs['d'])
    else:
        w = 8 if what == 'b' else 16
        e = ext_to(x, x.u(rot, w - 1, 0), w, 32, signed)
        if acc:
            e = x.u(x.add(x.R('n'), e), 31, 0)
        o.regs['d'] = x.word(e)
    return o


def m_bitfield(x, kind):
    o = Outcome()
    B = x.B
    h = x.h
    if kind in ('Bfc', 'Bfi'):
        d = x.R('d')
        src = x.R('n') if kind == 'Bfi' else None
        out = d
        ok = 0
        for cm, msb in x.field_cases('msbit'):
            for cl, lsb in x.field_cases('lsbit'):
                c = B.AND(cm, cl)
                if msb < lsb:
                    continue
                ok = B.OR(ok, c)
                bits = list(d.bits)
                w = msb - lsb + 1
                bits[lsb:msb + 1] = (list(src.bits[0:w]) if src is not None else [0] * w)
                out = x.ite(c, Int(bits), out)
        o.regs['d'] = x.word(out)
        o.unpred = B.NOT(ok)
        return o
    n = x.R('n')
    out = x.c(0)
    ok = 0
    for cl, lsb in x.field_cases('lsbit'):
        for cw, wm1 in x.field_cases('widthminus1'):
            msb = lsb + wm1
            if msb > 31:
                continue
            c = B.AND(cl, cw)
            ok = B.OR(ok, c)
            out = x.ite(c, ext_to(x, x.u(n, msb, lsb), wm1 + 1, 32, kind == 'Sbfx'), out)
    o.regs['d'] = x.word(out)
    o.unpred = B.NOT(ok)
    return o


def m_misc(x, kind):
    o = Outcome()
    B = x.B
    if kind == 'Pkh':
        n = x.R('n')
        op2 = x.shift(x.R('m'))
        tb = x.h.F('tb_form').bits[0]
        lo = x.ite(tb, x.u(op2, 15, 0), x.u(n, 15, 0))
        hi = x.ite(tb, x.u(n, 31, 16), x.u(op2, 31, 16))
        o.regs['d'] = x.word(x.cat(hi, lo, 16))
        return o
    m = list(x.R('m').bits)
    if kind == 'Rev':
        o.regs['d'] = Int(m[24:32] + m[16:24] + m[8:16] + m[0:8])
    elif kind == 'Rev16':
        o.regs['d'] = Int(m[8:16] + m[0:8] + m[24:32] + m[16:24])
    elif kind == 'Revsh':
        o.regs['d'] = Int(m[8:16] + m[0:8] + [m[7]] * 16)
    elif kind == 'Rbit':
        o.regs['d'] = Int(list(reversed(m)))
    elif kind == 'Clz':
        res = x.c(32)
        for i in range(32):            # highest set bit i -> 31 - i leading zeros
            res = x.ite(m[i], x.c(31 - i), res)
        o.regs['d'] = x.word(res)
    else:
        raise ValueError(kind)
    return o


def m_usad(x, kind):
    o = Outcome()
    n, m = x.R('n'), x.R('m')
    tot = x.c(0)
    for k in range(4):
        d = x.sub(x.u(n, 8 * k + 7, 8 * k), x.u(m, 8 * k + 7, 8 * k))
        tot = x.add(tot, x.ite(x.lt(d, x.c(0)), x.sub(x.c(0), d), d))
    if kind == 'Usada8':
        tot = x.add(x.R('a'), tot)
    o.regs['d'] = x.word(x.u(tot, 31, 0))
    return o


ALIGN = {'Smmla': {'a': 32}, 'Smmls': {'a': 32}, 'Smlaw': {'a': 16}, 'Umaal': {'d_hi': 0}}
for _p in ('S', 'U', 'Q', 'Uq', 'Sh', 'Uh'):
    for _o in ('asx', 'sax'):
        ALIGN[_p + _o] = {'m': ('rot', 16)}


def variants(clsname, h_fr):
    """[(fixed fields, alignment)] - classes with a rotation are analysed once per rotation value so that the
    rotated operand can be interleaved with the accumulate operand."""
    if re.match(r'^(S|U)xt', clsname):
        vals = h_fr.values(clsname, 'rotation', limit=64) or (0, 8, 16, 24)
        return [({'rotation': v}, {'m': ('rot', v)}) for v in sorted(vals)]
    return [({}, ALIGN.get(clsname))]
TOO_LARGE = {'Usad8': 'sum of four independent byte differences: the BDD of the 32-bit result needs ~5*10^7 nodes',
             'Usada8': 'sum of four independent byte differences: the BDD of the 32-bit result needs ~5*10^7 nodes'}


def m_umaal(x):
    o = Outcome()
    r = x.add(x.add(x.mul(x.R('n'), x.R('m')), x.R('d_hi')), x.R('d_lo'))
    o.regs['d_hi'] = x.word(x.u(r, 63, 32))
    o.regs['d_lo'] = x.word(x.u(r, 31, 0))
    return o


def model_for(clsname):
    """Reference builder for a class name, or None."""
    m = PAR.match(clsname)
    if m:
        return lambda x: parallel(x, m.group(1), m.group(2))
    if clsname in ('Mul', 'Mla', 'Mls', 'Umull', 'Umlal', 'Smull', 'Smlal'):
        return lambda x: m_mul(x, clsname)
    if clsname == 'Umaal':
        return m_umaal
    if clsname in ('Smul', 'Smla', 'Smlalxy', 'Smulw', 'Smlaw'):
        return lambda x: m_halfword(x, clsname)
    if clsname in ('Smuad', 'Smusd', 'Smlad', 'Smlsd', 'Smlald', 'Smlsld'):
        return lambda x: m_dual(x, clsname)
    if clsname in ('Smmul', 'Smmla', 'Smmls'):
        return lambda x: m_msw(x, clsname)
    if clsname in ('Sdiv', 'Udiv'):
        return lambda x: m_div(x, clsname)
    if clsname in ('Qadd', 'Qsub', 'Qdadd', 'Qdsub', 'Ssat', 'Usat', 'Ssat16', 'Usat16'):
        return lambda x: m_sat(x, clsname)
    if clsname == 'Sel':
        return m_sel
    if re.match(r'^(S|U)xt(a)?(b16|b|h)$', clsname):
        return lambda x: m_extend(x, clsname)
    if clsname in ('Bfc', 'Bfi', 'Sbfx', 'Ubfx'):
        return lambda x: m_bitfield(x, clsname)
    if clsname in ('Pkh', 'Rev', 'Rev16', 'Revsh', 'Rbit', 'Clz'):
        return lambda x: m_misc(x, clsname)
    if clsname in ('Usad8', 'Usada8'):
        return lambda x: m_usad(x, clsname)
    return None
