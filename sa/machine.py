"""Symbolic-state harness on top of M2 for the loop-free state-transition functions of
``Registers`` / ``ArmV6`` (exception entry, PSR writes, banking, PC writes, access policy).

The function is interpreted once in the bit-vector table domain with every piece of
machine state a named atom; the result is the final value of every written location as a
function of the initial atoms (an exact decision table).  It is then compared, location by
location, with a reference model written from the architecture pseudocode
(:mod:`sa.refmodel`).  No concrete execution, no solver.
"""
import ast

from . import bitdom, decode
from .bdd import BDD
from .bitdom import Interp, Int, V, Value, Tup, UF, Top, NONE, State, Unsupported, Outcome
from .report import AnalysisError

# arithmetic helpers kept uninterpreted in state analyses (values never needed bit-exactly)
STATE_UNINTERPRETED = frozenset({'add_with_carry', 'shift_c', 'shift', 'asr_c', 'ror_c', 'rrx_c', 'asr', 'ror', 'rrx',
                                 'arm_expand_imm_c', 'arm_expand_imm', 'thumb_expand_imm_c', 'thumb_expand_imm',
                                 'signed_sat_q', 'unsigned_sat_q'})

DATA_CLASSES = ('AddressDescriptor', 'FullAddress', 'MemoryAttributes', 'Permissions', 'TLBRecord')

MOCK_ATOMS = {'is_external_abort': 'MOCK.external_abort', 'is_async_abort': 'MOCK.async_abort',
              'debug_exception': 'MOCK.debug_exception'}


class StatePolicy(decode.MachinePolicy):
    uninterpreted = STATE_UNINTERPRETED

    def __init__(self, repo, B, stubs=None, arch=None):
        decode.MachinePolicy.__init__(self, repo, B)
        self.stubs = stubs or {}      # method name -> 'event' | callable(it, args, st, node) -> Value
        self.arch = arch
        self.events = []
        self.nfresh = 0

    def attr(self, it, obj, attr, st):
        path, cls = obj[1], obj[2] if len(obj) > 2 else None
        if obj[0] == 'map':
            w = 1 if path.endswith('changed_registers') else 32
            return V(self.sym(path + attr, w))
        if cls == 'Registers':
            if attr == '_R':
                return V(('map', path + '._R'))
            if attr == 'changed_registers':
                return V(('map', path + '.changed_registers'))
            if attr == 'event_register':
                return V(self.sym(path + '.event_register', 1))
            if attr in ('drbars', 'irbars'):
                return V(('map', path + '.' + attr))
        if obj[0] == 'obj' and path.startswith('new:') and cls in DATA_CLASSES:
            # attribute of a freshly constructed holder on a path where it was never stored
            return V(('unbound',))
        if path.startswith('reset:') and attr == 'value':
            return V(self.sym('RESET.' + cls, 32))
        if cls == 'Configurations' and attr == 'arch_version' and self.arch is not None:
            return V(it.const(self.arch))
        if cls == 'DataAbortException':
            if attr == 'is_second_stage':
                return V(self.sym('DABT.second_stage', 1))
            if attr == 'abort_type':
                return Value([(self.B.var('DABT.is_alignment'), ('enum', 'DAbort', 'ALIGNMENT')),
                              (self.B.NOT(self.B.var('DABT.is_alignment')), ('enum', 'DAbort', 'PERMISSION'))])
        return decode.MachinePolicy.attr(self, it, obj, attr, st)

    def call(self, it, target, recv, args, kwargs, node, st):
        if isinstance(target, tuple) and target[0] == 'class':
            ci = self.repo.classes.get(target[1])
            if ci and ci[0].is_subclass_of('AbstractRegister') and not args:
                # a freshly constructed register view holds its configured reset value
                return V(('obj', 'reset:' + target[1], target[1]))
            if ci and target[1] in DATA_CLASSES and not args and not kwargs:
                # plain data holder: fresh object, __init__ interpreted so that its fields get their initial values
                self.nfresh += 1
                obj = ('obj', 'new:%s#%d' % (target[1], self.nfresh), target[1])
                init = ci[0].find_method('__init__')
                if init is not None:
                    it.inline(init, [V(obj)], {}, st, node)
                return V(obj)
        name = getattr(target, 'name', None)
        if name in MOCK_ATOMS and getattr(target, 'cls', None) is not None and target.cls.name == 'Registers':
            return V(Int([self.B.var(MOCK_ATOMS[name])]))
        qn = getattr(target, 'qualname', None)
        key = qn if qn in self.stubs else (name if name in self.stubs else None)
        if key is not None:
            h = self.stubs[key]
            if h == 'raise':
                self.events.append((name, st.cond, args, node, dict(st.heap)))
                it.outcomes.append(Outcome('raise', st.cond, 'stub:' + name, node, st.copy(), it.cur_func))
                st.cond = 0
                return V(NONE)
            if h == 'event':
                self.events.append((name, st.cond, args, node, dict(st.heap)))
                it.outcomes.append(Outcome('call', st.cond, (name, args), node, st.copy(), it.cur_func))
                return V(UF('ret:' + name, args))
            return h(it, args, st, node)
        return decode.MachinePolicy.call(self, it, target, recv, args, kwargs, node, st)


class Result:
    def __init__(self, it, pol, rets, self_obj):
        self.it = it
        self.pol = pol
        self.rets = rets
        self.self_obj = self_obj
        B = it.B
        self.returned = B.all_or(c for c, _, _ in rets)
        heap = None
        for c, v, s in rets:
            heap = dict(s.heap) if heap is None else it.merge_maps(c, s.heap, heap, s)
        self.heap = heap or {}
        cases = []
        for c, v, s in rets:
            for cc, p in v.cases:
                cases.append((B.AND(c, cc), p))
        self.value = Value(it.coalesce(cases))

    def final(self, key):
        v = self.heap.get(key)
        if v is not None:
            return v
        return self.initial(key)

    def initial(self, key):
        return self.it.heap_default(key, None)

    def outcomes(self, kind):
        return [o for o in self.it.outcomes if o.kind == kind]


class Machine:
    def __init__(self, repo, stubs=None, arch=None, B=None):
        self.repo = repo
        self.B = B or BDD()
        self.pol = StatePolicy(repo, self.B, stubs, arch)
        self.it = Interp(repo, self.B, self.pol)
        self.proc = ('obj', 'processor', 'ArmV6')
        self.regs = ('obj', 'processor.registers', 'Registers')

    def sym(self, name, width):
        return self.pol.sym(name, width)

    def run(self, clsname, method, args=(), cond=1, heap=None):
        fi = self.repo.method(clsname, method)
        selfobj = self.proc if clsname == 'ArmV6' else (self.regs if clsname == 'Registers' else ('obj', 'self', clsname))
        self.it.outcomes = []
        c = cond
        if self.pol.arch is None:
            c = self.B.AND(c, decode.arch_constraint(self.it))
        try:
            rets = self.it.run_function(fi, [V(selfobj)] + [a if isinstance(a, Value) else V(a) for a in args],
                                        cond=c, heap=heap)
        except Unsupported as u:
            raise AnalysisError('%s.%s outside the table idiom: %s' % (clsname, method, u))
        # register key info for attributes commonly compared but possibly never touched
        return Result(self.it, self.pol, rets, selfobj), fi

    # -- named atoms used by the reference models -----------------------------------------
    def reg_attr(self, name, width=32):
        return self.sym('processor.registers.%s' % name, width)

    def view(self, regname):
        return self.sym('processor.registers.%s.value' % regname, 32)

    def cfg(self, name):
        return self.B.var('CFG.%s[0]' % name)

    def R(self, rname):
        return self.sym('processor.registers._R[RName.%s]' % rname, 32)


def describe_witness(B, a, words=()):
    """Readable rendering of a witness assignment: CPSR, listed argument words, config atoms."""
    P = 'processor.registers.'
    out = {}
    vals = {}
    for v, b in a.items():
        n = B.names[v]
        if '[' in n and n.endswith(']'):
            base, idx = n[:n.rindex('[')], n[n.rindex('[') + 1:-1]
            if idx.isdigit() and (base == P + 'cpsr.value' or base in words or base.startswith('ARG.')):
                vals[base] = vals.get(base, 0) | (b << int(idx))
                continue
        if n.startswith(('CFG.', 'MOCK.', 'DABT.')) or n in words:
            out[n] = b
    for k, v in vals.items():
        out[k.replace(P, '')] = hex(v)
    return out


def compare_final(run, rule, fi, machine, res, ref_final, ref_init, dom, unknown=(), ignore_prefix=(), label=None,
                  words=()):
    """Location-by-location comparison of the tree's final state with a reference final state."""
    from . import spec as specmod
    from .srcmodel import norm_stmt
    B = machine.B
    P = 'processor.registers.'
    label = label or fi.qualname
    from . import bookkeeping
    ignore_prefix = tuple(ignore_prefix) + bookkeeping.ignore_prefixes(machine.repo, P)
    if B.AND(dom, B.NOT(res.returned)) != 0:
        run.violation(rule, fi.relpath, fi.qualname, 'termination',
                      '%s does not complete for some valid state (raises or falls into a host error)' % label)
    keys = sorted(set(res.heap) | set(ref_final))
    nob = 0
    ok_all = True
    for key in keys:
        if key.startswith(tuple(ignore_prefix)):
            continue
        nob += 1
        tv = res.heap.get(key)
        if key in ref_final:
            rv = V(ref_final[key])
            init = V(ref_init[key])
        else:
            init = res.initial(key)
            rv = init
        if tv is None:
            tv = init
        d = dom
        for k, c in unknown:
            if k == key:
                d = B.AND(d, B.NOT(c))
        r = specmod.diff_values(machine.it, d, tv, rv, key.replace(P, ''))
        if r is not None:
            ok_all = False
            a = B.pick(r[1])
            w = describe_witness(B, a, words)
            run.violation(rule, fi.relpath, fi.qualname, 'final ' + key.replace(P, ''),
                          '%s leaves %s different from the architecture: %s; e.g. in state %s' % (
                              label, key.replace(P, ''), r[0], w), {'witness': w})
    for o in res.it.outcomes:
        if o.kind in ('hosterror', 'unbound', 'assert_fail') and B.AND(o.cond, dom) != 0:
            ok_all = False
            run.violation(rule, o.func.relpath, o.func.qualname, norm_stmt(o.node, 100),
                          'host error reachable in %s: %s %s' % (label, o.kind, o.payload))
    return ok_all, nob, [k.replace(P, '') for k in keys if not k.startswith(tuple(ignore_prefix))]
