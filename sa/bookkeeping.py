"""Per-instruction bookkeeping flags of the cycle driver.

`ArmV6.execute_instruction` resets some attributes of `self.registers` to a constant, unconditionally,
before the opcode executes (`changed_registers`, and the marker that tells the driver that ITSTATE
was installed by an exception return).  Their value never outlives one instruction: they are
emulator bookkeeping, not architectural state, and the state comparisons of C08/C10/C11/C12/C19
ignore them.  The set is derived from the code on every run (never from a name list) and each
member must satisfy the who-may-read rule below, otherwise it is architectural state in disguise."""
import ast

from .report import AnalysisError

DRIVER = {('ArmV6', 'execute_instruction'), ('ArmV6', 'increment_pc_if_needed'), ('ArmV6', 'emulate_cycle')}


def _truthy(t):
    if t[0] == 'const':
        return bool(t[1])
    if t[0] == 'op' and t[1] == 'Mult' and t[2][0] == 'tuple':      # [False] * 16
        return any(_truthy(x) for x in t[2][1])
    return None


def instruction_flags(repo):
    """{attribute of Registers: truthiness of the reset constant} reset before the opcode executes."""
    cached = getattr(repo, '_instruction_flags', None)
    if cached is not None:
        return cached
    from .effects import _SelfWalker
    fi = repo.method('ArmV6', 'execute_instruction')
    tr = _SelfWalker(repo, 'ArmV6', []).walk(fi, repo.cls('ArmV6'))
    execs = [e.idx for e in tr.events if e.kind == 'ObjCall' and e.d['method'] == 'execute']
    if not execs:
        raise AnalysisError('execute_instruction: no opcode.execute(...) call found')
    out = {}
    for e in tr.events:
        if e.kind == 'SysWrite' and e.idx < min(execs) and not e.guards and '.' not in e.d['path']:
            tv = _truthy(e.d['value'])
            if tv is not None:
                out[e.d['path']] = tv
    repo._instruction_flags = out
    return out


def accesses(repo, attr):
    """(readers, writers): sets of (class or '', function) that load / store an attribute called `attr`."""
    readers, writers = set(), set()
    for m in repo.modules_under('armulator'):
        for cls, fn in _functions(m.tree):
            for n in ast.walk(fn):
                if isinstance(n, ast.Attribute) and n.attr == attr:
                    if isinstance(n.ctx, ast.Load) and not _is_store_target(fn, n):
                        readers.add((cls, fn.name))
                    else:
                        writers.add((cls, fn.name))
    return readers, writers


def _functions(tree):
    for n in tree.body:
        if isinstance(n, ast.ClassDef):
            for f in n.body:
                if isinstance(f, (ast.FunctionDef, ast.AsyncFunctionDef)):
                    yield n.name, f
        elif isinstance(n, (ast.FunctionDef, ast.AsyncFunctionDef)):
            yield '', n


def _is_store_target(fn, attr_node):
    """`x.attr[k] = v`: the attribute itself is loaded but the statement stores into it."""
    for n in ast.walk(fn):
        if isinstance(n, ast.Subscript) and n.value is attr_node and isinstance(n.ctx, (ast.Store, ast.Del)):
            return True
    return False


def ignore_prefixes(repo, P):
    return tuple(P + a for a in sorted(instruction_flags(repo)))
