"""Minimal ROBDD used as a canonical representation of finite boolean tables.

Variables are small integers; a lower index is closer to the root.  Named
variables are allocated through :class:`Vars`.  Nothing here evaluates
arithmetic over run-time values: the BDD only stores sets of instruction words
and truth tables of guards.
"""


class BDD:
    def __init__(self):
        self.nodes = [None, None]  # id -> (var, lo, hi); 0 = False, 1 = True
        self.uniq = {}
        self.cache = {}
        self.names = {}  # var index -> name
        self.by_name = {}

    # -- variables ---------------------------------------------------------
    def var_index(self, name):
        i = self.by_name.get(name)
        if i is None:
            i = len(self.by_name)
            self.by_name[name] = i
            self.names[i] = name
        return i

    def var(self, name):
        return self.mk(self.var_index(name), 0, 1)

    # -- core --------------------------------------------------------------
    def mk(self, v, lo, hi):
        if lo == hi:
            return lo
        k = (v, lo, hi)
        r = self.uniq.get(k)
        if r is None:
            r = len(self.nodes)
            self.nodes.append(k)
            self.uniq[k] = r
        return r

    def top(self, u):
        return self.nodes[u][0] if u > 1 else 1 << 30

    def ite(self, f, g, h):
        if f == 1:
            return g
        if f == 0:
            return h
        if g == h:
            return g
        if g == 1 and h == 0:
            return f
        k = (f, g, h)
        r = self.cache.get(k)
        if r is not None:
            return r
        nodes = self.nodes
        v = min(self.top(f), self.top(g), self.top(h))

        def co(u, b):
            if u > 1:
                n = nodes[u]
                if n[0] == v:
                    return n[2 if b else 1]
            return u

        lo = self.ite(co(f, 0), co(g, 0), co(h, 0))
        hi = self.ite(co(f, 1), co(g, 1), co(h, 1))
        r = self.mk(v, lo, hi)
        self.cache[k] = r
        return r

    def AND(self, a, b):
        return self.ite(a, b, 0)

    def OR(self, a, b):
        return self.ite(a, 1, b)

    def NOT(self, a):
        return self.ite(a, 0, 1)

    def XOR(self, a, b):
        return self.ite(a, self.NOT(b), b)

    def IMP(self, a, b):
        return self.ite(a, b, 1)

    def EQ(self, a, b):
        return self.ite(a, b, self.NOT(b))

    def all_and(self, xs):
        r = 1
        for x in xs:
            r = self.AND(r, x)
        return r

    def all_or(self, xs):
        r = 0
        for x in xs:
            r = self.OR(r, x)
        return r

    # -- queries -----------------------------------------------------------
    def restrict(self, u, assign):
        """Cofactor u by {var index: 0/1}."""
        memo = {}

        def rec(n):
            if n < 2:
                return n
            r = memo.get(n)
            if r is not None:
                return r
            v, lo, hi = self.nodes[n]
            if v in assign:
                r = rec(hi if assign[v] else lo)
            else:
                r = self.mk(v, rec(lo), rec(hi))
            memo[n] = r
            return r

        return rec(u)

    def simplify(self, f, care):
        """Coudert-Madre restrict: some function equal to f wherever care holds, usually
        smaller (used only to print readable tables; comparisons are always made inside care)."""
        memo = {}

        def rec(f, c):
            if c == 1 or f < 2:
                return f
            if c == 0:
                return 0
            k = (f, c)
            r = memo.get(k)
            if r is not None:
                return r
            tf, tc = self.top(f), self.top(c)
            if tc < tf:
                _, c0, c1 = self.nodes[c]
                r = rec(f, self.OR(c0, c1))
            else:
                v, f0, f1 = self.nodes[f]
                if tc == tf:
                    _, c0, c1 = self.nodes[c]
                else:
                    c0 = c1 = c
                if c0 == 0:
                    r = rec(f1, c1)
                elif c1 == 0:
                    r = rec(f0, c0)
                else:
                    r = self.mk(v, rec(f0, c0), rec(f1, c1))
            memo[k] = r
            return r

        return rec(f, care)

    def exists(self, u, vars_):
        vs = set(vars_)
        memo = {}

        def rec(n):
            if n < 2:
                return n
            r = memo.get(n)
            if r is not None:
                return r
            v, lo, hi = self.nodes[n]
            a, b = rec(lo), rec(hi)
            r = self.OR(a, b) if v in vs else self.mk(v, a, b)
            memo[n] = r
            return r

        return rec(u)

    def support(self, u):
        seen = set()
        out = set()
        stack = [u]
        while stack:
            n = stack.pop()
            if n < 2 or n in seen:
                continue
            seen.add(n)
            v, lo, hi = self.nodes[n]
            out.add(v)
            stack.append(lo)
            stack.append(hi)
        return out

    def support_names(self, u):
        return sorted(self.names[v] for v in self.support(u))

    def count(self, u, var_indices):
        """Number of satisfying assignments over exactly the given variables
        (u's support must be a subset)."""
        order = sorted(var_indices)
        pos = {v: i for i, v in enumerate(order)}
        n = len(order)
        memo = {}

        def rec(x):
            # returns (count over variables at positions >= level(x)), level
            if x == 0:
                return 0, n
            if x == 1:
                return 1, n
            r = memo.get(x)
            if r is not None:
                return r
            v, lo, hi = self.nodes[x]
            p = pos[v]
            cl, ll = rec(lo)
            ch, lh = rec(hi)
            c = cl * (1 << (ll - p - 1)) + ch * (1 << (lh - p - 1))
            memo[x] = (c, p)
            return memo[x]

        c, l = rec(u)
        return c * (1 << l)

    def pick(self, u):
        """One satisfying assignment {var index: 0/1} (unmentioned vars free)."""
        if u == 0:
            return None
        out = {}
        while u > 1:
            v, lo, hi = self.nodes[u]
            if lo != 0:
                out[v] = 0
                u = lo
            else:
                out[v] = 1
                u = hi
        return out

    def cubes(self, u, limit=None):
        """Enumerate the paths to True as {var index: 0/1} dicts."""
        out = []

        def rec(n, acc):
            if limit is not None and len(out) >= limit:
                return
            if n == 0:
                return
            if n == 1:
                out.append(dict(acc))
                return
            v, lo, hi = self.nodes[n]
            acc[v] = 0
            rec(lo, acc)
            acc[v] = 1
            rec(hi, acc)
            del acc[v]

        rec(u, {})
        return out

    def eval(self, u, assign):
        while u > 1:
            v, lo, hi = self.nodes[u]
            u = hi if assign.get(v, 0) else lo
        return u

    def size(self):
        return len(self.nodes)
