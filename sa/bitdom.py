"""M2 - boolean / bit-vector table domain.

An abstract interpreter for the repository's *pure table-and-wiring idiom*:
loop-free (or constant-bounded) functions built from slices, concatenations,
comparisons and if/elif chains.  An abstract integer is a vector of BDDs (bit k
of the value as a function of named input atoms); other values are enum
members, class references, tuples, None, symbolic objects and uninterpreted
helper applications.  Branches are merged with if-then-else on the branch
condition, so the result of analysing a function is an exact decision table
over its inputs.  Helpers are inlined **from the repository's own source**
(nothing is modelled by hand except Python's operators); helpers that do
run-time arithmetic stay uninterpreted symbols.  Nothing is executed and no
solver is involved; anything outside the idiom becomes Top and is reported as
an analysis error where a verdict is owed.
"""
import ast

from .bdd import BDD
from .report import AnalysisError

MAXW = 600          # hard cap on vector width
UNROLL = 70         # max iterations of a constant range() loop
MAXDEPTH = 12       # inlining depth


class Unsupported(Exception):
    pass


class HostError(Exception):
    """A host-level Python error (TypeError, ...) certain to happen under `cond`."""
    def __init__(self, cond, msg, node):
        Exception.__init__(self, msg)
        self.cond = cond
        self.msg = msg
        self.node = node


# ---------------------------------------------------------------------------
# payloads
# ---------------------------------------------------------------------------
class Int:
    __slots__ = ('bits', 'signed')

    def __init__(self, bits, signed=False):
        self.bits = tuple(bits)
        self.signed = signed

    def __repr__(self):
        return 'Int(%d%s)' % (len(self.bits), 's' if self.signed else '')


class Tup:
    __slots__ = ('items',)

    def __init__(self, items):
        self.items = tuple(items)


class UF:
    """Uninterpreted application; ``proj`` selects a tuple component."""
    __slots__ = ('name', 'args', 'proj')

    def __init__(self, name, args, proj=None):
        self.name = name
        self.args = tuple(args)
        self.proj = proj

    def __repr__(self):
        return 'UF(%s%s)' % (self.name, '' if self.proj is None else '[%d]' % self.proj)


class Top:
    __slots__ = ('why',)

    def __init__(self, why):
        self.why = why

    def __repr__(self):
        return 'Top(%s)' % self.why


# atoms are plain tuples: ('enum', cls, member) ('class', name) ('none',) ('unbound',) ('str', s)
# ('obj', path, clsname) ('bound', objatom, FuncInfo) ('func', FuncInfo) ('module', ModuleInfo) ('list', id)
NONE = ('none',)
UNBOUND = ('unbound',)


class Value:
    """Guarded union: list of (cond, payload) with pairwise disjoint conds."""
    __slots__ = ('cases',)

    def __init__(self, cases):
        self.cases = cases

    def single(self):
        if len(self.cases) == 1:
            return self.cases[0][1]
        return None

    def __repr__(self):
        return 'V%r' % ([p for _, p in self.cases],)


def V(payload):
    return Value([(1, payload)])


class Outcome:
    def __init__(self, kind, cond, payload, node, state=None, func=None):
        self.kind = kind        # return | raise | print | assert_fail | unbound | call | store | hosterror
        self.cond = cond
        self.payload = payload
        self.node = node
        self.state = state
        self.func = func


class State:
    __slots__ = ('cond', 'env', 'heap')

    def __init__(self, cond, env, heap):
        self.cond = cond
        self.env = env
        self.heap = heap

    def copy(self, cond=None):
        return State(self.cond if cond is None else cond, dict(self.env), dict(self.heap))


class Policy:
    """Hooks that specialise the interpreter for one analysis."""
    uninterpreted = frozenset()
    opaque_conditions = False

    def call(self, it, target, recv, args, kwargs, node, st):
        """Return a Value to override the call, or None for default handling."""
        return None

    def attr(self, it, obj, attr, st):
        """Initial value of an attribute of a symbolic object (not found in the heap)."""
        return None

    def name(self, it, name, st):
        return None


class Interp:
    def __init__(self, repo, bdd=None, policy=None):
        self.repo = repo
        self.B = bdd or BDD()
        self.policy = policy or Policy()
        self.outcomes = []
        self.depth = 0
        self.cur_func = None
        self.stats = {'inlined': 0, 'uf': 0, 'opaque': 0}
        self.key_info = {}     # heap key -> (object atom, attribute) for initial values

    # ------------------------------------------------------------------
    # Int helpers
    # ------------------------------------------------------------------
    def const(self, c):
        if isinstance(c, bool):
            return Int([1 if c else 0])
        if c >= 0:
            return Int([(c >> i) & 1 for i in range(max(1, c.bit_length()))])
        w = (~c).bit_length() + 1
        return Int([(c >> i) & 1 for i in range(w)], True)

    def cval(self, x):
        """Concrete python int of an Int if all bits are constants, else None."""
        if not isinstance(x, Int):
            return None
        v = 0
        for i, b in enumerate(x.bits):
            if b == 1:
                v |= 1 << i
            elif b != 0:
                return None
        if x.signed and x.bits and x.bits[-1] == 1:
            v -= 1 << len(x.bits)
        return v

    def ext(self, x, w):
        bits = x.bits
        if len(bits) >= w:
            return list(bits[:w])
        fill = bits[-1] if (x.signed and bits) else 0
        return list(bits) + [fill] * (w - len(bits))

    def trim(self, x):
        bits = list(x.bits)
        if x.signed:
            while len(bits) > 1 and bits[-1] == bits[-2]:
                bits.pop()
            if len(bits) >= 1 and bits[-1] == 0:
                # provably non-negative -> unsigned
                bits.pop()
                while len(bits) > 1 and bits[-1] == 0:
                    bits.pop()
                return Int(bits or [0], False)
            return Int(bits, True)
        while len(bits) > 1 and bits[-1] == 0:
            bits.pop()
        return Int(bits or [0], False)

    def width2(self, a, b, extra=0):
        w = max(len(a.bits) + (0 if a.signed else 1), len(b.bits) + (0 if b.signed else 1)) + extra
        if w > MAXW:
            raise Unsupported('vector wider than %d bits' % MAXW)
        return w

    def i_add(self, a, b, cin=0):
        B = self.B
        signed = a.signed or b.signed
        w = self.width2(a, b, 1)
        x, y = self.ext(a, w), self.ext(b, w)
        c = cin
        out = []
        for p, q in zip(x, y):
            pq = B.XOR(p, q)
            out.append(B.XOR(pq, c))
            c = B.OR(B.AND(p, q), B.AND(c, pq))
        return self.trim(Int(out, True)) if signed else self.trim(Int(out, False))

    def i_neg_bits(self, a, w):
        return [self.B.NOT(b) for b in self.ext(a, w)]

    def i_sub(self, a, b):
        B = self.B
        w = self.width2(a, b, 1)
        x = self.ext(a, w)
        y = self.i_neg_bits(b, w)
        c = 1
        out = []
        for p, q in zip(x, y):
            pq = B.XOR(p, q)
            out.append(B.XOR(pq, c))
            c = B.OR(B.AND(p, q), B.AND(c, pq))
        return self.trim(Int(out, True))

    def i_bitop(self, op, a, b):
        B = self.B
        signed = a.signed or b.signed
        w = self.width2(a, b)
        x, y = self.ext(a, w), self.ext(b, w)
        f = {'and': B.AND, 'or': B.OR, 'xor': B.XOR}[op]
        return self.trim(Int([f(p, q) for p, q in zip(x, y)], signed))

    def i_invert(self, a):
        w = len(a.bits) + (0 if a.signed else 1)
        return self.trim(Int(self.i_neg_bits(a, w), True))

    def i_shl_const(self, a, k):
        if k < 0:
            raise Unsupported('negative shift')
        if len(a.bits) + k > MAXW:
            raise Unsupported('shift result too wide')
        return self.trim(Int([0] * k + list(a.bits), a.signed))

    def i_shr_const(self, a, k):
        if k < 0:
            raise Unsupported('negative shift')
        bits = list(a.bits[k:])
        if not bits:
            bits = [a.bits[-1]] if a.signed else [0]
        return self.trim(Int(bits, a.signed))

    def i_shift_sym(self, a, amt, left):
        """Barrel shifter for a symbolic, unsigned, small amount."""
        B = self.B
        if amt.signed:
            raise Unsupported('signed shift amount')
        if len(amt.bits) > 9:
            raise Unsupported('shift amount wider than 9 bits')
        cur = a
        for i, s in enumerate(amt.bits):
            if s == 0:
                continue
            k = 1 << i
            sh = self.i_shl_const(cur, k) if left else self.i_shr_const(cur, k)
            if s == 1:
                cur = sh
            else:
                cur = self.i_ite(s, sh, cur)
        return cur

    def i_ite(self, c, a, b):
        B = self.B
        signed = a.signed or b.signed
        w = max(len(a.bits) + (1 if (signed and not a.signed) else 0),
                len(b.bits) + (1 if (signed and not b.signed) else 0))
        x, y = self.ext(a, w), self.ext(b, w)
        return self.trim(Int([B.ite(c, p, q) for p, q in zip(x, y)], signed))

    def i_mul(self, a, b):
        ca, cb = self.cval(a), self.cval(b)
        if ca is not None and cb is not None:
            return self.const(ca * cb)
        if cb is None and ca is not None:
            a, b, ca, cb = b, a, cb, ca
        if cb is not None:
            if cb < 0:
                return self.i_sub(self.const(0), self.i_mul(a, self.const(-cb)))
            acc = self.const(0)
            k = 0
            while cb:
                if cb & 1:
                    acc = self.i_add(acc, self.i_shl_const(a, k))
                cb >>= 1
                k += 1
            return acc
        if len(a.bits) <= 8 and len(b.bits) <= 8 and not a.signed and not b.signed:
            acc = self.const(0)
            for i, s in enumerate(b.bits):
                if s == 0:
                    continue
                term = self.i_shl_const(a, i)
                acc = self.i_add(acc, self.i_ite(s, term, self.const(0)))
            return acc
        raise Unsupported('symbolic multiplication')

    def i_pow(self, a, b):
        ca, cb = self.cval(a), self.cval(b)
        if ca is not None and cb is not None and cb >= 0 and abs(ca) ** cb < (1 << MAXW):
            return self.const(ca ** cb)
        if ca == 2 and not b.signed:
            return self.i_shift_sym(self.const(1), b, True)
        if ca is not None and ca >= 0 and len(b.bits) <= 4:
            # constant base, small symbolic exponent (512 ** (3 - level)): a table over the exponent values; a negative
            # exponent would make the result a float - that region maps to 0 and is left to the comparisons of the level
            w = len(b.bits)
            out = self.const(0)
            for v in range((1 << (w - 1)) if b.signed else (1 << w)):
                if ca ** v < (1 << MAXW):
                    out = self.i_ite(self.i_eq(b, self.const(v)), self.const(ca ** v), out)
            return out
        raise Unsupported('power with symbolic base')

    def i_mod(self, a, b):
        cb = self.cval(b)
        if cb is not None and cb > 0 and cb & (cb - 1) == 0:
            k = cb.bit_length() - 1
            return self.trim(Int(self.ext(a, max(k, 1))[:k] if k else [0], False))
        if cb is None and not b.signed:
            # b = 2**s: the low-bits mask is exact when b is one-hot by construction (checked as a tautology)
            B = self.B
            none, one = 1, 0
            for bit in b.bits:
                one = B.OR(B.AND(one, B.NOT(bit)), B.AND(none, bit))
                none = B.AND(none, B.NOT(bit))
            if one == 1:
                return self.i_bitop('and', a, self.i_sub(b, self.const(1)))
            raise Unsupported('modulo by a symbolic value')
        ca = self.cval(a)
        if ca is not None and cb:
            return self.const(ca % cb)
        raise Unsupported('modulo by a non power of two')

    def i_floordiv(self, a, b):
        cb = self.cval(b)
        ca = self.cval(a)
        if ca is not None and cb:
            return self.const(ca // cb)
        if cb is not None and cb > 0 and cb & (cb - 1) == 0:
            return self.i_shr_const(a, cb.bit_length() - 1)
        if cb is None and not b.signed:
            # divisor one-hot by construction (checked as a tautology): a // 2**k == a >> k (floor, also for negative a)
            B = self.B
            none, one = 1, 0
            for bit in b.bits:
                one = B.OR(B.AND(one, B.NOT(bit)), B.AND(none, bit))
                none = B.AND(none, B.NOT(bit))
            if one == 1 or B.AND(getattr(self, 'op_cond', 1), B.NOT(one)) == 0:
                res = None
                for k, bit in enumerate(b.bits):
                    if bit == 0:
                        continue
                    sh = self.i_shr_const(a, k)
                    res = sh if res is None else self.i_ite(bit, sh, res)
                if res is not None:
                    return res
        raise Unsupported('floor division by a non power of two')

    def i_eq(self, a, b):
        B = self.B
        w = self.width2(a, b)
        x, y = self.ext(a, w), self.ext(b, w)
        r = 1
        for p, q in zip(x, y):
            if p == q:
                continue
            r = B.AND(r, B.EQ(p, q))
            if r == 0:
                break
        return r

    def i_lt(self, a, b):
        """a < b as a BDD (signed aware)."""
        B = self.B
        w = self.width2(a, b)
        x, y = self.ext(a, w), self.ext(b, w)
        # two's complement compare at width w: flip sign bits then unsigned compare
        x[-1] = B.NOT(x[-1])
        y[-1] = B.NOT(y[-1])
        res = 0
        e = 1
        for i in reversed(range(w)):
            res = B.OR(res, B.AND(e, B.AND(B.NOT(x[i]), y[i])))
            e = B.AND(e, B.EQ(x[i], y[i]))
            if e == 0:
                break
        return res

    def i_truth(self, a):
        return self.B.all_or(a.bits)

    def i_popcount(self, a):
        tot = self.const(0)
        for b in a.bits:
            if b == 0:
                continue
            tot = self.i_add(tot, Int([b]))
        return tot

    # ------------------------------------------------------------------
    # Value helpers
    # ------------------------------------------------------------------
    def coalesce(self, cases):
        """Merge same-kind payloads; drop empty conds."""
        B = self.B
        ints = []
        tups = {}
        atoms = {}
        others = []
        for c, p in cases:
            if c == 0:
                continue
            if isinstance(p, Int):
                ints.append((c, p))
            elif isinstance(p, Tup):
                tups.setdefault(len(p.items), []).append((c, p))
            elif isinstance(p, tuple):
                atoms[p] = B.OR(atoms.get(p, 0), c)
            else:
                others.append((c, p))
        out = []
        if ints:
            c0, p0 = ints[0]
            for c, p in ints[1:]:
                p0 = self.i_ite(c, p, p0)
                c0 = B.OR(c0, c)
            out.append((c0, p0))
        for n, lst in tups.items():
            c0, p0 = lst[0]
            items = [Value([(c0, 'x')]) for _ in range(n)]  # placeholder
            cols = []
            for k in range(n):
                col = []
                for c, p in lst:
                    for cc, pp in p.items[k].cases:
                        col.append((B.AND(c, cc), pp))
                cols.append(Value(self.coalesce(col)))
            ctot = B.all_or(c for c, _ in lst)
            out.append((ctot, Tup(cols)))
        for a, c in atoms.items():
            out.append((c, a))
        # UF / Top: merge structurally-equal ones
        merged = []
        for c, p in others:
            for i, (c2, p2) in enumerate(merged):
                if self.same_payload(p, p2):
                    merged[i] = (B.OR(c, c2), p2)
                    break
            else:
                merged.append((c, p))
        out.extend(merged)
        return out

    def same_payload(self, a, b):
        if type(a) is not type(b):
            return False
        if isinstance(a, Top):
            return True
        if isinstance(a, UF):
            return (a.name == b.name and a.proj == b.proj and len(a.args) == len(b.args)
                    and all(self.same_value(x, y) for x, y in zip(a.args, b.args)))
        if isinstance(a, Int):
            return a.signed == b.signed and a.bits == b.bits
        if isinstance(a, Tup):
            return len(a.items) == len(b.items) and all(self.same_value(x, y) for x, y in zip(a.items, b.items))
        return a == b

    def same_value(self, a, b):
        if len(a.cases) != len(b.cases):
            return False
        for (c1, p1) in a.cases:
            if not any(c1 == c2 and self.same_payload(p1, p2) for c2, p2 in b.cases):
                return False
        return True

    def v_ite(self, c, a, b):
        B = self.B
        if c == 1:
            return a
        if c == 0:
            return b
        nc = B.NOT(c)
        cases = [(B.AND(c, cc), p) for cc, p in a.cases] + [(B.AND(nc, cc), p) for cc, p in b.cases]
        return Value(self.coalesce(cases))

    def simplify_value(self, v, cond):
        B = self.B
        out = []
        for c, p in v.cases:
            cc = B.AND(c, cond)
            if cc == 0:
                continue
            if isinstance(p, Int):
                p = self.trim(Int([B.simplify(x, cc) if x > 1 else x for x in p.bits], p.signed))
            out.append((c, p))
        return Value(out)

    def restrict_value(self, v, cond):
        """Keep only cases compatible with cond (conds are kept unrestricted)."""
        B = self.B
        cases = [(c, p) for c, p in v.cases if B.AND(c, cond) != 0]
        return Value(cases)

    def lift2(self, a, b, f, cond=1):
        B = self.B
        out = []
        for ca, pa in a.cases:
            ca2 = B.AND(ca, cond)
            if ca2 == 0:
                continue
            for cb, pb in b.cases:
                c = B.AND(ca2, cb)
                if c == 0:
                    continue
                out.append((B.AND(ca, cb), f(pa, pb)))
        return Value(self.coalesce(out))

    def lift1(self, a, f, cond=1):
        B = self.B
        out = []
        for ca, pa in a.cases:
            if B.AND(ca, cond) == 0:
                continue
            out.append((ca, f(pa)))
        return Value(self.coalesce(out))

    def truth(self, v, cond=1):
        """BDD: v is truthy (within the region where v's cases apply)."""
        B = self.B
        r = 0
        for c, p in v.cases:
            if B.AND(c, cond) == 0:
                continue
            r = B.OR(r, B.AND(c, self.p_truth(p)))
        return r

    def p_truth(self, p):
        if isinstance(p, Int):
            return self.i_truth(p)
        if isinstance(p, Tup):
            return 1 if p.items else 0
        if isinstance(p, tuple):
            if p == NONE:
                return 0
            if p[0] == 'str':
                return 1 if p[1] else 0
            if p == UNBOUND:
                raise Unsupported('truth of unbound')
            return 1
        if isinstance(p, UF):
            return self.opaque_bool(('truth', self.uf_key(p)))
        raise Unsupported('truth of %r' % (p,))

    def uf_key(self, p):
        return (p.name, p.proj, tuple(self.value_key(a) for a in p.args))

    def value_key(self, v):
        out = []
        for c, p in v.cases:
            if isinstance(p, Int):
                out.append((c, 'int', p.signed, p.bits))
            elif isinstance(p, UF):
                out.append((c, 'uf', self.uf_key(p)))
            elif isinstance(p, Tup):
                out.append((c, 'tup', tuple(self.value_key(x) for x in p.items)))
            elif isinstance(p, Top):
                out.append((c, 'top'))
            else:
                out.append((c, 'atom', p if p[0] not in ('bound', 'func', 'module') else (p[0], id(p[-1]))))
        return tuple(sorted(out, key=repr))

    def opaque_bool(self, key):
        self.stats['opaque'] += 1
        return self.B.var('opaque:%r' % (key,))

    def as_int(self, v, cond=1, what='value'):
        """Single Int payload of v under cond, else Unsupported."""
        B = self.B
        cases = [(c, p) for c, p in v.cases if B.AND(c, cond) != 0]
        if len(cases) == 1 and isinstance(cases[0][1], Int):
            return cases[0][1]
        raise Unsupported('%s is not a plain integer: %r' % (what, [p for _, p in cases]))

    def const_of(self, v, cond=1):
        try:
            return self.cval(self.as_int(v, cond))
        except Unsupported:
            return None

    # ------------------------------------------------------------------
    # expressions
    # ------------------------------------------------------------------
    def eval(self, e, st):
        try:
            return self._eval(e, st)
        except Unsupported as u:
            return V(Top('%s in `%s`' % (u, ast.unparse(e)[:80])))

    def _eval(self, e, st):
        B = self.B
        if isinstance(e, ast.Constant):
            if isinstance(e.value, (bool, int)):
                return V(self.const(e.value))
            if e.value is None:
                return V(NONE)
            if isinstance(e.value, str):
                return V(('str', e.value))
            raise Unsupported('constant %r' % (e.value,))
        if isinstance(e, ast.Name):
            return self.read_name(e, st)
        if isinstance(e, ast.Attribute):
            return self.read_attr(e, st)
        if isinstance(e, ast.Tuple):
            return V(Tup([self._eval(x, st) for x in e.elts]))
        if isinstance(e, ast.IfExp):
            t = self.truth(self._eval(e.test, st), st.cond)
            ct, cf = B.AND(st.cond, t), B.AND(st.cond, B.NOT(t))
            if cf == 0:
                return self._eval(e.body, st)
            if ct == 0:
                return self._eval(e.orelse, st)
            st1 = State(ct, st.env, st.heap)
            st2 = State(cf, st.env, st.heap)
            return self.v_ite(t, self._eval(e.body, st1), self._eval(e.orelse, st2))
        if isinstance(e, ast.BoolOp):
            # python semantics: `a and b` returns an operand; keep operand values
            cur = self._eval(e.values[0], st)
            cond = st.cond
            for nxt in e.values[1:]:
                t = self.truth(cur, cond)
                if isinstance(e.op, ast.And):
                    go = B.AND(cond, t)
                    if go == 0:
                        break
                    nv = self._eval(nxt, State(go, st.env, st.heap))
                    cur = self.v_ite(t, nv, cur)
                else:
                    go = B.AND(cond, B.NOT(t))
                    if go == 0:
                        break
                    nv = self._eval(nxt, State(go, st.env, st.heap))
                    cur = self.v_ite(t, cur, nv)
            return cur
        if isinstance(e, ast.UnaryOp):
            v = self._eval(e.operand, st)
            if isinstance(e.op, ast.Not):
                return V(Int([B.NOT(self.truth(v, st.cond))]))
            if isinstance(e.op, ast.USub):
                return self.lift1(v, lambda p: self.i_sub(self.const(0), self.need_int(p)), st.cond)
            if isinstance(e.op, ast.Invert):
                return self.lift1(v, lambda p: self.i_invert(self.need_int(p)), st.cond)
            raise Unsupported('unary op')
        if isinstance(e, ast.BinOp):
            a = self._eval(e.left, st)
            b = self._eval(e.right, st)
            if isinstance(e.op, (ast.LShift, ast.RShift, ast.Pow)):
                # amounts are judged under the path condition (e.g. `lsbit - 3` is non-negative where lsbit >= 8)
                b = self.simplify_value(b, st.cond)
            self.op_cond = st.cond
            return self.lift2(a, b, lambda x, y: self.binop(e.op, x, y), st.cond)
        if isinstance(e, ast.Compare):
            left = self._eval(e.left, st)
            res = 1
            for op, rnode in zip(e.ops, e.comparators):
                if isinstance(op, (ast.In, ast.NotIn)) and isinstance(rnode, (ast.Tuple, ast.List, ast.Set)):
                    r = 0
                    for el in rnode.elts:
                        r = B.OR(r, self.compare(ast.Eq(), left, self._eval(el, st), st.cond))
                    if isinstance(op, ast.NotIn):
                        r = B.NOT(r)
                    right = None
                elif isinstance(op, (ast.In, ast.NotIn)):
                    right = self._eval(rnode, st)
                    tp = right.single()
                    if isinstance(tp, tuple) and tp and tp[0] == 'dict':
                        items = [k for k, _ in tp[2]]            # `key in {k: v, ...}`
                    elif isinstance(tp, Tup):
                        items = tp.items
                    else:
                        raise Unsupported('membership test in a non-tuple value')
                    r = 0
                    for el in items:
                        r = B.OR(r, self.compare(ast.Eq(), left, el, st.cond))
                    if isinstance(op, ast.NotIn):
                        r = B.NOT(r)
                    right = None
                else:
                    right = self._eval(rnode, st)
                    r = self.compare(op, left, right, st.cond)
                res = B.AND(res, r)
                left = right
            return V(Int([res]))
        if isinstance(e, ast.Call):
            return self.call(e, st)
        if isinstance(e, ast.Subscript):
            return self.subscript(e, st)
        if isinstance(e, ast.Dict):
            keys = []
            for k, v in zip(e.keys, e.values):
                keys.append((self._eval(k, st), self._eval(v, st)))
            return V(('dict', tuple((self.value_key(k), id(v)) for k, v in keys), tuple(keys)))
        if isinstance(e, ast.JoinedStr):
            return V(('str', '<fstring>'))
        if isinstance(e, ast.List):
            return V(Tup([self._eval(x, st) for x in e.elts]))
        if isinstance(e, (ast.GeneratorExp, ast.ListComp)) and len(e.generators) == 1 and not e.generators[0].ifs \
                and isinstance(e.generators[0].target, ast.Name):
            # [f(k) for k in <constant iterable>]: unrolled
            it = self._eval(e.generators[0].iter, st).single()
            if isinstance(it, Tup) and len(it.items) <= 256:
                out = []
                name = e.generators[0].target.id
                saved = st.env.get(name)
                for item in it.items:
                    st.env[name] = item
                    out.append(self._eval(e.elt, st))
                if saved is None:
                    st.env.pop(name, None)
                else:
                    st.env[name] = saved
                return V(Tup(out))
            if isinstance(it, tuple) and it and it[0] in ('symrange', 'symlist') and \
                    not any(isinstance(x, ast.Call) and isinstance(x.func, ast.Attribute) for x in ast.walk(e.elt)):
                # [f(k) for k in range(n)] with n symbolic and f pure: the elements up to the largest n, length n
                sym = it[2]
                hi = (1 << len(sym.bits)) - 1
                src = [V(self.const(i)) for i in range(hi)] if it[0] == 'symrange' else list(it[3])
                out = []
                name = e.generators[0].target.id
                saved = st.env.get(name)
                for item in src:
                    st.env[name] = item
                    out.append(self._eval(e.elt, st))
                if saved is None:
                    st.env.pop(name, None)
                else:
                    st.env[name] = saved
                return V(('symlist', id(sym), sym, tuple(out)))
            raise Unsupported('comprehension over a non-constant iterable')
        raise Unsupported('expression %s' % type(e).__name__)

    def need_int(self, p):
        if isinstance(p, Int):
            return p
        raise Unsupported('integer expected, got %r' % (p,))

    def binop(self, op, x, y):
        if isinstance(x, Top):
            return x
        if isinstance(y, Top):
            return y
        if isinstance(op, ast.Mult) and isinstance(x, Tup):
            n = self.cval(self.need_int(y))
            if n is None or n > UNROLL:
                raise Unsupported('list repetition')
            return Tup(list(x.items) * n)
        if isinstance(op, ast.Add) and isinstance(x, Tup) and isinstance(y, Tup):
            return Tup(list(x.items) + list(y.items))
        if isinstance(x, UF) or isinstance(y, UF):
            return UF('op:' + type(op).__name__, [V(x), V(y)])
        x, y = self.need_int(x), self.need_int(y)
        if isinstance(op, ast.Add):
            return self.i_add(x, y)
        if isinstance(op, ast.Sub):
            return self.i_sub(x, y)
        if isinstance(op, ast.Mult):
            hook = getattr(self.policy, 'symbolic_mul', None)
            if hook is None:
                return self.i_mul(x, y)
            try:
                return self.i_mul(x, y)
            except Unsupported:
                return hook(self, x, y)
        if isinstance(op, ast.Div) and getattr(self.policy, 'trunc_div', None) is not None:
            return UF('op:Div', [V(x), V(y)])
        if isinstance(op, ast.BitAnd):
            return self.i_bitop('and', x, y)
        if isinstance(op, ast.BitOr):
            return self.i_bitop('or', x, y)
        if isinstance(op, ast.BitXor):
            return self.i_bitop('xor', x, y)
        if isinstance(op, ast.LShift):
            k = self.cval(y)
            return self.i_shl_const(x, k) if k is not None else self.i_shift_sym(x, y, True)
        if isinstance(op, ast.RShift):
            k = self.cval(y)
            return self.i_shr_const(x, k) if k is not None else self.i_shift_sym(x, y, False)
        if isinstance(op, ast.Pow):
            return self.i_pow(x, y)
        if isinstance(op, ast.Mod):
            return self.i_mod(x, y)
        if isinstance(op, ast.FloorDiv):
            return self.i_floordiv(x, y)
        raise Unsupported('operator %s' % type(op).__name__)

    def compare(self, op, a, b, cond):
        B = self.B
        r = 0
        for ca, pa in a.cases:
            if B.AND(ca, cond) == 0:
                continue
            for cb, pb in b.cases:
                c = B.AND(ca, cb)
                if B.AND(c, cond) == 0:
                    continue
                r = B.OR(r, B.AND(c, self.p_compare(op, pa, pb)))
        return r

    def p_compare(self, op, x, y):
        B = self.B
        if isinstance(x, Top) or isinstance(y, Top):
            raise Unsupported('comparison with unknown value')
        if isinstance(op, (ast.Is, ast.IsNot)):
            if isinstance(x, tuple) and isinstance(y, tuple):
                r = 1 if x == y else 0
                return r if isinstance(op, ast.Is) else 1 - r
            if isinstance(x, tuple) != isinstance(y, tuple):
                # object vs int/tuple: never identical (None tests)
                return 0 if isinstance(op, ast.Is) else 1
            raise Unsupported('identity comparison')
        if isinstance(x, Int) and isinstance(y, Int):
            if isinstance(op, ast.Eq):
                return self.i_eq(x, y)
            if isinstance(op, ast.NotEq):
                return B.NOT(self.i_eq(x, y))
            if isinstance(op, ast.Lt):
                return self.i_lt(x, y)
            if isinstance(op, ast.Gt):
                return self.i_lt(y, x)
            if isinstance(op, ast.LtE):
                return B.NOT(self.i_lt(y, x))
            if isinstance(op, ast.GtE):
                return B.NOT(self.i_lt(x, y))
            raise Unsupported('comparison operator')
        if isinstance(op, (ast.Eq, ast.NotEq)):
            if isinstance(x, UF) or isinstance(y, UF):
                if isinstance(x, UF) and isinstance(y, UF) and self.same_payload(x, y):
                    r = 1
                else:
                    kx = self.uf_key(x) if isinstance(x, UF) else self.value_key(V(x))
                    ky = self.uf_key(y) if isinstance(y, UF) else self.value_key(V(y))
                    r = self.opaque_bool(('eq',) + tuple(sorted([kx, ky], key=repr)))
            elif isinstance(x, tuple) and isinstance(y, tuple):
                r = 1 if x == y else 0
            elif isinstance(x, Tup) and isinstance(y, Tup):
                if len(x.items) != len(y.items):
                    r = 0
                else:
                    r = 1
                    for p, q in zip(x.items, y.items):
                        r = B.AND(r, self.compare(ast.Eq(), p, q, 1))
            else:
                r = 0   # different kinds are never equal (int vs enum member / None)
            return r if isinstance(op, ast.Eq) else B.NOT(r)
        raise Unsupported('ordering comparison on non-integers')

    # ------------------------------------------------------------------
    def read_name(self, e, st):
        name = e.id
        if name in st.env:
            v = st.env[name]
            B = self.B
            for c, p in v.cases:
                if p == UNBOUND and B.AND(c, st.cond) != 0:
                    self.outcomes.append(Outcome('unbound', B.AND(c, st.cond), name, e, func=self.cur_func))
            return v
        pv = self.policy.name(self, name, st)
        if pv is not None:
            return pv
        if name in ('True', 'False'):
            return V(self.const(name == 'True'))
        r = self.repo.resolve_name(self.cur_func.module, name) if self.cur_func else None
        if r is None:
            if name in BUILTINS:
                return V(('builtin', name))
            raise Unsupported('unresolved name %s' % name)
        return self.resolved_to_value(r, st)

    def resolved_to_value(self, r, st):
        kind = r[0]
        if kind == 'class':
            return V(('class', r[1].name))
        if kind == 'func':
            return V(('func', r[1]))
        if kind == 'module':
            return V(('module', r[1]))
        if kind == 'enum_member':
            return V(('enum', r[1].name, r[2]))
        if kind == 'const':
            m, node = r[1], r[2]
            if isinstance(node, ast.Constant):
                return self._eval(node, st)
            if isinstance(node, ast.Call) and isinstance(node.func, ast.Name):
                rr = self.repo.resolve_name(m, node.func.id)
                if rr and rr[0] == 'class':
                    return V(('obj', 'module:%s' % ast.unparse(node.func), rr[1].name))
            if isinstance(node, ast.Call) and isinstance(node.func, ast.Name) and node.func.id in ('tuple', 'list') and len(node.args) == 1 \
                    and isinstance(node.args[0], (ast.GeneratorExp, ast.ListComp)):
                node = node.args[0]
            if isinstance(node, (ast.Dict, ast.Tuple, ast.List, ast.GeneratorExp, ast.ListComp)):
                # immutable module-level table (dict / tuple of literals, enum members or classes): evaluated in its module
                saved = self.cur_func
                try:
                    self.cur_func = _ModuleCtx(m)
                    return self._eval(node, st)
                finally:
                    self.cur_func = saved
            raise Unsupported('module constant %s' % ast.unparse(node)[:40])
        if kind == 'external':
            return V(('external', r[1]))
        raise Unsupported('resolution kind %s' % kind)

    def read_attr(self, e, st):
        base = self._eval(e.value, st)
        return self.lift1(base, lambda p: self.p_attr(p, e.attr, st, e), st.cond) if len(base.cases) == 1 else \
            self.attr_multi(base, e, st)

    def attr_multi(self, base, e, st):
        B = self.B
        out = []
        for c, p in base.cases:
            if B.AND(c, st.cond) == 0:
                continue
            r = self.p_attr(p, e.attr, st, e)
            if isinstance(r, Value):
                for cc, pp in r.cases:
                    out.append((B.AND(c, cc), pp))
            else:
                out.append((c, r))
        return Value(self.coalesce(out))

    def lift1(self, a, f, cond=1):  # noqa: F811  (allow f to return a Value)
        B = self.B
        out = []
        for ca, pa in a.cases:
            if B.AND(ca, cond) == 0:
                continue
            r = f(pa)
            if isinstance(r, Value):
                for cc, pp in r.cases:
                    out.append((B.AND(ca, cc), pp))
            else:
                out.append((ca, r))
        return Value(self.coalesce(out))

    def p_attr(self, p, attr, st, node):
        if isinstance(p, Top):
            return p
        if isinstance(p, tuple):
            k = p[0]
            if k == 'module':
                r = self.repo.resolve_name(p[1], attr)
                if r is None:
                    raise Unsupported('unresolved %s.%s' % (p[1].name, attr))
                return self.resolved_to_value(r, st)
            if k == 'class':
                ci = self.repo.cls(p[1])
                if attr in ci.class_assigns and ci.is_enum():
                    return ('enum', ci.name, attr)
                f = ci.find_method(attr)
                if f:
                    return ('func', f)
                raise Unsupported('class attribute %s.%s' % (p[1], attr))
            if k == 'enum':
                if attr == 'value':
                    ci = self.repo.cls(p[1])
                    vn = ci.class_assigns.get(p[2])
                    if isinstance(vn, ast.Constant) and isinstance(vn.value, int):
                        return self.const(vn.value)
                    raise Unsupported('value of auto() enum member')
                if attr == 'name':
                    return ('str', p[2])
                raise Unsupported('enum attribute %s' % attr)
            if k == 'obj':
                return self.obj_attr(p, attr, st, node)
            if k == 'external':
                return ('external', p[1] + '.' + attr)
            if k == 'slice':
                if attr == 'start':
                    return p[3]
                if attr == 'stop':
                    return p[4]
                raise Unsupported('slice attribute %s' % attr)
        if isinstance(p, tuple) and p and p[0] == 'dict' and attr == 'get':
            return ('bound_builtin', ('dictget', p[1]), attr, p)
        if isinstance(p, Tup) or isinstance(p, Int) or isinstance(p, UF):
            return ('bound_builtin', self.value_key(V(p)) if not isinstance(p, UF) else self.uf_key(p), attr, p)
        raise Unsupported('attribute %s of %r' % (attr, p))

    def obj_attr(self, obj, attr, st, node):
        path, clsname = obj[1], obj[2]
        key = path + '.' + attr
        ci = self.repo.classes.get(clsname)
        ci = ci[0] if ci else None
        if ci is not None:
            g = ci.find_getter(attr)
            if g is not None:
                v, _ = self.inline(g, [V(obj)], {}, st, node)
                return v
            m = ci.find_method(attr)
            if m is not None:
                return ('bound', obj, m)
        self.key_info[key] = (obj, attr)
        if key in st.heap:
            return st.heap[key]
        pv = self.policy.attr(self, obj, attr, st)
        if pv is not None:
            return pv
        raise Unsupported('attribute %s of object %s:%s' % (attr, path, clsname))

    # -- maps (dict / list attributes addressed with enum or small integer keys) ------------
    def map_keys(self, keyv, st):
        """[(cond, key string)] for a key value (enum members, constants, small symbolic ints)."""
        B = self.B
        out = []
        for c, p in keyv.cases:
            if B.AND(c, st.cond) == 0:
                continue
            if isinstance(p, tuple) and p and p[0] == 'enum':
                out.append((c, '%s.%s' % (p[1], p[2])))
            elif isinstance(p, Int):
                k = self.cval(p)
                if k is not None:
                    out.append((c, str(k)))
                elif not p.signed and len(p.bits) <= 5:
                    for k in range(1 << len(p.bits)):
                        ck = B.AND(c, self.i_eq(p, self.const(k)))
                        if B.AND(ck, st.cond) != 0:
                            out.append((ck, str(k)))
                else:
                    raise Unsupported('map key too wide to enumerate')
            elif isinstance(p, tuple) and p and p[0] == 'str':
                out.append((c, repr(p[1])))
            else:
                raise Unsupported('map key %r' % (p,))
        return out

    def map_read(self, m, keyv, st):
        B = self.B
        path = m[1]
        out = []
        for c, k in self.map_keys(keyv, st):
            key = '%s[%s]' % (path, k)
            self.key_info[key] = (m, '[%s]' % k)
            v = st.heap.get(key)
            if v is None:
                v = self.policy.attr(self, m, '[%s]' % k, st)
                if v is None:
                    raise Unsupported('no initial value for %s' % key)
            for cc, pp in v.cases:
                out.append((B.AND(c, cc), pp))
        return Value(self.coalesce(out))

    def map_write(self, m, keyv, v, st, node):
        path = m[1]
        for c, k in self.map_keys(keyv, st):
            key = '%s[%s]' % (path, k)
            self.key_info[key] = (m, '[%s]' % k)
            old = st.heap.get(key)
            if c == 1 or self.B.AND(st.cond, self.B.NOT(c)) == 0:
                st.heap[key] = v
            else:
                if old is None:
                    old = self.policy.attr(self, m, '[%s]' % k, st)
                    if old is None:
                        raise Unsupported('no initial value for %s' % key)
                st.heap[key] = self.v_ite(c, v, old)
            self.on_store(m, '[%s]' % k, v, st, node)

    def subscript(self, e, st):
        B = self.B
        base = self._eval(e.value, st)
        sl = e.slice
        # AbstractRegister-style views: obj[hi:lo] / obj[i]
        single = base.single()
        if isinstance(single, tuple) and single and single[0] == 'obj':
            ci = self.repo.classes.get(single[2])
            gi = ci[0].find_method('__getitem__') if ci else None
            if gi is None:
                raise Unsupported('subscript on object without __getitem__')
            item = self.slice_value(sl, st)
            return self.call_func(gi, single, [item], {}, e, st)
        if isinstance(single, tuple) and single and single[0] == 'map':
            return self.map_read(single, self._eval(sl, st), st)
        if isinstance(single, tuple) and single and single[0] == 'objlist':
            out = []
            for c, k in self.map_keys(self._eval(sl, st), st):
                out.append((c, ('obj', '%s[%s]' % (single[1], k), single[2])))
            return Value(self.coalesce(out))
        if isinstance(single, tuple) and single and single[0] == 'dict':
            key = self._eval(sl, st)
            out = []
            for k, v in single[2]:
                c = self.compare(ast.Eq(), key, k, st.cond)
                for cc, pp in v.cases:
                    out.append((B.AND(c, cc), pp))
            return Value(self.coalesce(out))
        if any(isinstance(p, Int) for c, p in base.cases if B.AND(c, st.cond) != 0):
            raise HostError(st.cond, 'TypeError: int object is not subscriptable', e)
        idx = self._eval(sl, st) if not isinstance(sl, ast.Slice) else None
        if idx is None:
            raise Unsupported('slice of a non-view value')

        def sub(p):
            if isinstance(p, Tup):
                k = self.const_of(idx, st.cond)
                if k is not None:
                    if not -len(p.items) <= k < len(p.items):
                        raise Unsupported('tuple index out of range')
                    return p.items[k]
                ii = self.as_int(idx, st.cond, 'index')
                out = []
                for k, item in enumerate(p.items):
                    c = self.i_eq(ii, self.const(k))
                    for cc, pp in item.cases:
                        out.append((B.AND(c, cc), pp))
                return Value(self.coalesce(out))
            if isinstance(p, UF) and p.proj is None:
                k = self.const_of(idx, st.cond)
                if k is None:
                    raise Unsupported('symbolic projection of helper result')
                return UF(p.name, p.args, k)
            if isinstance(p, Top):
                return p
            raise Unsupported('subscript of %r' % (p,))
        return self.lift1(base, sub, st.cond)

    def slice_value(self, sl, st):
        if isinstance(sl, ast.Slice):
            lo = self._eval(sl.lower, st) if sl.lower is not None else V(NONE)
            hi = self._eval(sl.upper, st) if sl.upper is not None else V(NONE)
            return V(('slice', self.value_key(lo), self.value_key(hi), lo, hi))
        return self._eval(sl, st)

    # ------------------------------------------------------------------
    # calls
    # ------------------------------------------------------------------
    def call(self, e, st):
        B = self.B
        fnv = self._eval(e.func, st)
        args = [self._eval(a, st) for a in e.args]
        kwargs = {k.arg: self._eval(k.value, st) for k in e.keywords}
        out = []
        for c, p in fnv.cases:
            if B.AND(c, st.cond) == 0:
                continue
            r = self.call_payload(p, args, kwargs, e, st)
            for cc, pp in r.cases:
                out.append((B.AND(c, cc), pp))
        return Value(self.coalesce(out))

    def call_payload(self, p, args, kwargs, e, st):
        if isinstance(p, Top):
            return V(p)
        if not isinstance(p, tuple):
            raise Unsupported('call of non-callable')
        k = p[0]
        if k == 'func':
            return self.call_func(p[1], None, args, kwargs, e, st)
        if k == 'bound':
            return self.call_func(p[2], p[1], args, kwargs, e, st)
        if k == 'class':
            return self.call_class(p[1], args, kwargs, e, st)
        if k == 'builtin':
            return self.call_builtin(p[1], args, kwargs, e, st)
        if k == 'bound_builtin':
            return self.call_bound_builtin(p, args, e, st)
        if k == 'external':
            ov = self.policy.call(self, p, None, args, kwargs, e, st)
            if ov is not None:
                return ov
            raise Unsupported('call of external %s' % p[1])
        raise Unsupported('call of %r' % (p,))

    def call_class(self, clsname, args, kwargs, e, st):
        ov = self.policy.call(self, ('class', clsname), None, args, kwargs, e, st)
        if ov is not None:
            return ov
        ci = self.repo.classes.get(clsname)
        ci = ci[0] if ci else None
        if ci is not None and ci.is_enum() and len(args) == 1:
            # Enum(value): member whose literal value equals the argument
            B = self.B
            out = []
            for m, vn in ci.class_assigns.items():
                if isinstance(vn, ast.Constant) and isinstance(vn.value, int):
                    c = self.compare(ast.Eq(), args[0], V(self.const(vn.value)), st.cond)
                    out.append((c, ('enum', clsname, m)))
            return Value(self.coalesce(out))
        return V(UF('new:' + clsname, list(args) + [v for _, v in sorted(kwargs.items())]))

    def call_builtin(self, name, args, kwargs, e, st):
        B = self.B
        if name == 'print':
            txt = ast.unparse(e.args[0])[:60] if e.args else ''
            self.outcomes.append(Outcome('print', st.cond, txt, e, func=self.cur_func))
            return V(NONE)
        if name in ('int', 'bool'):
            if not args:
                return V(self.const(0))
            self.op_cond = st.cond

            def conv(p):
                if name == 'int' and isinstance(p, UF) and p.name == 'op:Div' and getattr(self.policy, 'trunc_div', None) is not None:
                    return self.policy.trunc_div(self, p.args[0].single(), p.args[1].single())
                return Int([self.p_truth(p)]) if name == 'bool' or not isinstance(p, Int) else p
            return self.lift1(args[0], conv, st.cond)
        if name == 'len':
            return self.lift1(args[0], lambda p: self.const(len(p.items)) if isinstance(p, Tup)
                              else Top('len'), st.cond)
        if name == 'range':
            vals = [self.const_of(a, st.cond) for a in args]
            if any(v is None for v in vals):
                sym = self.as_int(args[-1], st.cond, 'range bound') if len(args) == 1 else None
                if sym is not None and len(sym.bits) <= 6:
                    return V(('symrange', id(sym), sym))
                if len(args) == 3 and vals[0] is not None and vals[1] is not None and 0 <= vals[1] - vals[0] <= UNROLL:
                    # range(a, b, step) with constant bounds and a symbolic step: one unrolling per feasible step value
                    stp = self.as_int(args[2], st.cond, 'range step')
                    if stp is not None:
                        return V(('steprange', id(stp), stp, vals[0], vals[1]))
                raise Unsupported('range with symbolic bounds')
            r = range(*vals)
            if len(r) > UNROLL:
                raise Unsupported('range too long to unroll')
            return V(Tup([V(self.const(i)) for i in r]))
        if name == 'isinstance' and len(e.args) == 2 and ast.unparse(e.args[1]) == 'int':
            def isint(p):
                if isinstance(p, Int):
                    return self.const(True)
                if isinstance(p, tuple) or isinstance(p, Tup):
                    return self.const(False)
                raise Unsupported('isinstance of %r' % (p,))
            return self.lift1(args[0], isint, st.cond)
        if name == 'isinstance' or name == 'hasattr':
            return V(Int([self.opaque_bool((name, ast.unparse(e)))]))
        if name == 'abs':
            def f(p):
                p = self.need_int(p)
                neg = p.bits[-1] if p.signed else 0
                return self.i_ite(neg, self.i_sub(self.const(0), p), p)
            return self.lift1(args[0], f, st.cond)
        if name in ('min', 'max') and len(args) == 2:
            def g(x, y):
                x, y = self.need_int(x), self.need_int(y)
                lt = self.i_lt(x, y)
                return self.i_ite(lt, x, y) if name == 'min' else self.i_ite(lt, y, x)
            return self.lift2(args[0], args[1], g, st.cond)
        if name == 'enumerate' and len(args) == 1:
            p = args[0].single()
            if isinstance(p, Tup):
                return V(Tup([V(Tup([V(self.const(i)), x])) for i, x in enumerate(p.items)]))
            if isinstance(p, tuple) and p and p[0] == 'symlist':
                return V(('symlist', p[1], p[2], tuple(V(Tup([V(self.const(i)), x])) for i, x in enumerate(p[3]))))
            if isinstance(p, tuple) and p and p[0] == 'symrange':
                hi = (1 << len(p[2].bits)) - 1
                return V(('symlist', p[1], p[2], tuple(V(Tup([V(self.const(i)), V(self.const(i))])) for i in range(hi))))
            raise Unsupported('enumerate of a non-constant iterable')
        if name == 'zip' and args:
            ps = [a.single() for a in args]
            if all(isinstance(q, Tup) for q in ps):
                return V(Tup([V(Tup(list(x))) for x in zip(*[q.items for q in ps])]))
            raise Unsupported('zip of non-constant iterables')
        if name in ('tuple', 'list') and len(args) == 1:
            p = args[0].single()
            if isinstance(p, Tup) or (isinstance(p, tuple) and p and p[0] == 'symlist'):
                return args[0]
            raise Unsupported('%s of a non-constant iterable' % name)
        if name == 'reversed' and len(args) == 1 and isinstance(args[0].single(), Tup):
            return V(Tup(list(reversed(args[0].single().items))))
        if name in ('sum', 'any', 'all') and len(args) == 1:
            p = args[0].single()
            if isinstance(p, Tup):
                items, live = list(p.items), None
            elif isinstance(p, tuple) and p and p[0] == 'symlist':
                items = list(p[3])
                live = [self.i_lt(self.const(i), p[2]) for i in range(len(items))]       # element i exists iff i < n
            else:
                raise Unsupported('%s of a non-constant iterable' % name)
            if name == 'sum':
                acc = V(self.const(0))
                self.op_cond = st.cond
                for i, x in enumerate(items):
                    nxt = self.lift2(acc, x, lambda a, b: self.binop(ast.Add(), a, b), st.cond)
                    acc = nxt if live is None else self.v_ite(live[i], nxt, acc)
                return acc
            bits = []
            for i, x in enumerate(items):
                t = self.truth(x, st.cond)
                if live is not None:
                    t = B.OR(B.NOT(live[i]), t) if name == 'all' else B.AND(live[i], t)
                bits.append(t)
            r = 1 if name == 'all' else 0
            for t in bits:
                r = B.AND(r, t) if name == 'all' else B.OR(r, t)
            return V(Int([r]))
        if name == 'bin':
            return V(UF('bin', args))
        if name == 'slice' and len(args) == 2:
            lo, hi = args
            return V(('slice', self.value_key(lo), self.value_key(hi), lo, hi))
        raise Unsupported('builtin %s' % name)

    def call_bound_builtin(self, p, args, e, st):
        attr, recv = p[2], p[3]
        if attr == 'count' and isinstance(recv, UF) and recv.name == 'bin':
            # bin(x).count('1')  -> population count
            a0 = args[0].single() if args else None
            if a0 == ('str', '1'):
                return self.lift1(recv.args[0], lambda q: self.i_popcount(self.need_int(q)), st.cond)
        if attr == 'bit_length' and isinstance(recv, Int):
            if recv.signed:
                raise Unsupported('bit_length of a possibly negative value')
            res = self.const(0)
            for i, b in enumerate(recv.bits):
                if b == 0:
                    continue
                res = self.const(i + 1) if b == 1 else self.i_ite(b, self.const(i + 1), res)
            return V(res)
        if attr == 'get' and isinstance(recv, tuple) and recv and recv[0] == 'dict' and 1 <= len(args) <= 2:
            # {k: v, ...}.get(key, default): the first matching entry, else the default
            B = self.B
            out, none = [], 1
            for k, v in recv[2]:
                c = B.AND(none, self.compare(ast.Eq(), args[0], k, st.cond))
                none = B.AND(none, B.NOT(c))
                for cc, pp in v.cases:
                    out.append((B.AND(c, cc), pp))
            dflt = args[1] if len(args) == 2 else V(NONE)
            for cc, pp in dflt.cases:
                out.append((B.AND(none, cc), pp))
            return Value(self.coalesce(out))
        raise Unsupported('method %s on a value' % attr)

    def call_func(self, fi, recv, args, kwargs, e, st):
        ov = self.policy.call(self, fi, recv, args, kwargs, e, st)
        if ov is not None:
            return ov
        if fi.name in self.policy.uninterpreted:
            self.stats['uf'] += 1
            return V(UF(fi.name, list(args) + [v for _, v in sorted(kwargs.items())]))
        full = ([V(recv)] if recv is not None and not fi.is_static() else []) + list(args)
        v, _ = self.inline(fi, full, kwargs, st, e)
        return v

    # ------------------------------------------------------------------
    # function inlining
    # ------------------------------------------------------------------
    def bind(self, fi, args, kwargs):
        a = fi.node.args
        names = [x.arg for x in a.args]
        env = {}
        if len(args) > len(names):
            raise Unsupported('too many positional arguments for %s' % fi.qualname)
        for n, v in zip(names, args):
            env[n] = v
        for k, v in kwargs.items():
            if k not in names:
                raise Unsupported('unexpected keyword %s for %s' % (k, fi.qualname))
            env[k] = v
        defaults = a.defaults
        for n, d in zip(names[len(names) - len(defaults):], defaults):
            if n not in env:
                env[n] = self._eval(d, State(1, {}, {}))
        missing = [n for n in names if n not in env]
        if missing:
            raise Unsupported('missing arguments %s for %s' % (missing, fi.qualname))
        return env

    def inline(self, fi, args, kwargs, st, node):
        """Execute fi's body in the abstract domain at the call site.  Mutates st.heap
        (effects of the callee) and returns (value, None)."""
        if self.depth >= MAXDEPTH:
            raise Unsupported('inlining depth exceeded at %s' % fi.qualname)
        self.stats['inlined'] += 1
        env = self.bind(fi, args, kwargs)
        saved = self.cur_func
        self.cur_func = fi
        self.depth += 1
        try:
            inner = State(st.cond, env, dict(st.heap))
            rets = []
            end = self.block(fi.node.body, inner, rets)
            if end.cond != 0:
                rets.append((end.cond, V(NONE), end))
        finally:
            self.depth -= 1
            self.cur_func = saved
        # merge return values and heaps
        B = self.B
        if not rets:
            # callee never returns normally under st.cond
            st.cond = 0
            return Value([]), None
        val_cases = []
        heap = None
        total = 0
        for c, v, s in rets:
            for cc, pp in v.cases:
                val_cases.append((B.AND(c, cc), pp))
            heap = dict(s.heap) if heap is None else self.merge_maps(c, s.heap, heap, st)
            total = B.OR(total, c)
        st.heap.clear()
        st.heap.update(heap)
        st.cond = total
        return Value(self.coalesce(val_cases)), None

    def merge_maps(self, c, m1, m2, st, unbound_default=False):
        out = {}
        for k in set(m1) | set(m2):
            v1 = m1.get(k)
            v2 = m2.get(k)
            if v1 is v2:
                out[k] = v1
                continue
            if v1 is None or v2 is None:
                if unbound_default:
                    d = V(UNBOUND)
                else:
                    d = self.heap_default(k, st)
                v1 = d if v1 is None else v1
                v2 = d if v2 is None else v2
            out[k] = self.v_ite(c, v1, v2)
        return out

    def heap_default(self, key, st):
        info = self.key_info.get(key)
        if info is None:
            raise Unsupported('no initial value for %s' % key)
        pv = self.policy.attr(self, info[0], info[1], State(1, {}, {}))
        if pv is None:
            raise Unsupported('no initial value for %s' % key)
        return pv if isinstance(pv, Value) else V(pv)

    # ------------------------------------------------------------------
    # statements
    # ------------------------------------------------------------------
    def block(self, stmts, st, rets):
        """Executes stmts from state st; returns the fall-through state.  `rets`
        collects (cond, value, state) of return points of the current function."""
        B = self.B
        for s in stmts:
            while st.cond != 0:
                try:
                    st = self.stmt(s, st, rets)
                    break
                except HostError as he:
                    bad = B.AND(st.cond, he.cond)
                    self.outcomes.append(Outcome('hosterror', bad, he.msg, he.node, func=self.cur_func))
                    if bad == 0:
                        raise AnalysisError('host error outside the current path in %s' % self.cur_func.qualname)
                    st = st.copy(B.AND(st.cond, B.NOT(he.cond)))
        return st

    def stmt(self, s, st, rets):
        B = self.B
        if True:
            if isinstance(s, ast.Assign):
                v = self.eval(s.value, st)
                for t in s.targets:
                    self.assign(t, v, st, s)
            elif isinstance(s, ast.AugAssign):
                cur = self.eval(s.target, st)
                rhs = self.eval(s.value, st)
                try:
                    v = self.lift2(cur, rhs, lambda x, y: self.binop(s.op, x, y), st.cond)
                except Unsupported as u:
                    v = V(Top(str(u)))
                self.assign(s.target, v, st, s)
            elif isinstance(s, ast.If):
                tv = self.eval(s.test, st)
                try:
                    t = self.truth(tv, st.cond)
                except Unsupported as u:
                    if not self.policy.opaque_conditions:
                        raise AnalysisError('condition outside the idiom in %s: `%s` (%s)' % (
                            self.cur_func.qualname if self.cur_func else '?', ast.unparse(s.test)[:80], u))
                    t = self.opaque_bool(('cond', ast.unparse(s.test)))
                ct, cf = B.AND(st.cond, t), B.AND(st.cond, B.NOT(t))
                self.on_branch(s, st, ct, cf)
                if ct == 0:
                    st2 = st.copy(cf)
                    st2 = self.block(s.orelse, st2, rets)
                    st = st2
                elif cf == 0:
                    st = self.block(s.body, st.copy(ct), rets)
                else:
                    s1 = self.block(s.body, st.copy(ct), rets)
                    s2 = self.block(s.orelse, st.copy(cf), rets)
                    st = self.join(s1, s2, st)
            elif isinstance(s, ast.Return):
                v = self.eval(s.value, st) if s.value is not None else V(NONE)
                rets.append((st.cond, v, st.copy()))
                self.on_return(s, st, v)
                st = st.copy(0)
            elif isinstance(s, ast.Raise):
                self.outcomes.append(Outcome('raise', st.cond, self.exc_name(s.exc), s, st.copy(), self.cur_func))
                st = st.copy(0)
            elif isinstance(s, ast.Expr):
                if not isinstance(s.value, ast.Constant):  # skip docstrings
                    self.eval(s.value, st)
            elif isinstance(s, ast.Assert):
                tv = self.eval(s.test, st)
                try:
                    t = self.truth(tv, st.cond)
                except Unsupported:
                    t = self.opaque_bool(('assert', ast.unparse(s.test)))
                bad = B.AND(st.cond, B.NOT(t))
                if bad != 0:
                    self.outcomes.append(Outcome('assert_fail', bad, ast.unparse(s.test)[:80], s, func=self.cur_func))
                st.cond = B.AND(st.cond, t)
            elif isinstance(s, ast.Pass):
                pass
            elif isinstance(s, ast.For):
                st = self.for_loop(s, st, rets)
            elif isinstance(s, ast.While) and not s.orelse:
                st = self.while_loop(s, st, rets)
            else:
                raise AnalysisError('statement outside the idiom in %s: %s' % (
                    self.cur_func.qualname if self.cur_func else '?', type(s).__name__))
        return st

    def on_branch(self, node, st, ct, cf):
        pass

    def on_return(self, node, st, value):
        pass

    def exc_name(self, exc):
        if exc is None:
            return 're-raise'
        if isinstance(exc, ast.Call):
            return ast.unparse(exc.func)
        return ast.unparse(exc)

    WHILE_BOUND = 6

    def while_loop(self, s, st, rets):
        """while <test>: body - unrolled: iteration k runs under (path condition and test); the states that leave the
        loop are joined.  A loop still live after WHILE_BOUND iterations is outside the idiom (fail closed)."""
        B = self.B
        done = None
        for k in range(self.WHILE_BOUND + 1):
            if st.cond == 0:
                break
            tv = self.eval(s.test, st)
            try:
                t = self.truth(tv, st.cond)
            except Unsupported as u:
                raise AnalysisError('loop condition outside the idiom in %s: `%s` (%s)' % (
                    self.cur_func.qualname if self.cur_func else '?', ast.unparse(s.test)[:80], u))
            go, stop = B.AND(st.cond, t), B.AND(st.cond, B.NOT(t))
            if stop != 0:
                ex = st.copy(stop)
                done = ex if done is None else self.join(ex, done, st)
            if go == 0:
                st = st.copy(0)
                break
            if k == self.WHILE_BOUND:
                raise AnalysisError('loop `while %s` in %s is still live after %d iterations' % (
                    ast.unparse(s.test)[:60], self.cur_func.qualname if self.cur_func else '?', k))
            self.on_loop_iteration(s, st, k, go)
            st = self.block(s.body, st.copy(go), rets)
        if done is None:
            return st.copy(0)
        return done

    def on_loop_iteration(self, node, st, k, cond):
        pass

    def for_loop(self, s, st, rets):
        it = self.eval(s.iter, st)
        p = it.single()
        if isinstance(p, Tup):
            if len(p.items) > UNROLL:
                raise AnalysisError('loop too long to unroll in %s' % self.cur_func.qualname)
            for item in p.items:
                if st.cond == 0:
                    break
                self.assign(s.target, item, st, s)
                st = self.block(s.body, st, rets)
            if s.orelse:
                st = self.block(s.orelse, st, rets)
            return st
        if isinstance(p, tuple) and p and p[0] == 'symrange':
            # for i in range(sym): unroll up to the maximum, guarding iteration i by i < sym
            B = self.B
            sym = p[2]
            hi = (1 << len(sym.bits)) - 1
            for i in range(hi):
                go = self.i_lt(self.const(i), sym)
                cin = B.AND(st.cond, go)
                if cin == 0:
                    continue
                body_st = st.copy(cin)
                self.assign(s.target, V(self.const(i)), body_st, s)
                body_st = self.block(s.body, body_st, rets)
                rest = st.copy(B.AND(st.cond, B.NOT(go)))
                st = self.join(body_st, rest, st)
            return st
        if isinstance(p, tuple) and p and p[0] == 'steprange':
            B = self.B
            stp, lo, hi = p[2], p[3], p[4]
            out = None
            covered = 0
            for v in range(1, max(hi - lo, 1) + 1):
                cv = B.AND(st.cond, self.i_eq(stp, self.const(v)))
                if cv == 0:
                    continue
                covered = B.OR(covered, cv)
                cur = st.copy(cv)
                for i in range(lo, hi, v):
                    if cur.cond == 0:
                        break
                    self.assign(s.target, V(self.const(i)), cur, s)
                    cur = self.block(s.body, cur, rets)
                out = cur if out is None else self.join(cur, out, st)
            if B.AND(st.cond, B.NOT(covered)) != 0:
                raise AnalysisError('loop step outside 1..%d (or not positive) in %s: `%s`' % (
                    max(hi - lo, 1), self.cur_func.qualname if self.cur_func else '?', ast.unparse(s.iter)[:60]))
            return out if out is not None else st.copy(0)
        if isinstance(p, tuple) and p and p[0] == 'symlist':
            B = self.B
            sym = p[2]
            for i, item in enumerate(p[3]):
                go = self.i_lt(self.const(i), sym)
                cin = B.AND(st.cond, go)
                if cin == 0:
                    continue
                body_st = st.copy(cin)
                self.assign(s.target, item, body_st, s)
                body_st = self.block(s.body, body_st, rets)
                rest = st.copy(B.AND(st.cond, B.NOT(go)))
                st = self.join(body_st, rest, st)
            return st
        raise AnalysisError('loop outside the idiom in %s: `%s`' % (
            self.cur_func.qualname if self.cur_func else '?', ast.unparse(s.iter)[:60]))

    def join(self, s1, s2, parent):
        B = self.B
        if s1.cond == 0:
            return s2
        if s2.cond == 0:
            return s1
        c = s1.cond
        env = self.merge_maps(c, s1.env, s2.env, parent, unbound_default=True)
        heap = self.merge_maps(c, s1.heap, s2.heap, parent)
        return State(B.OR(s1.cond, s2.cond), env, heap)

    def assign(self, target, v, st, node):
        if isinstance(target, ast.Name):
            st.env[target.id] = v
            return
        if isinstance(target, (ast.Tuple, ast.List)):
            n = len(target.elts)

            def comp(p, k):
                if isinstance(p, Tup):
                    if len(p.items) != n:
                        raise Unsupported('unpack arity')
                    return p.items[k]
                if isinstance(p, UF) and p.proj is None:
                    return UF(p.name, p.args, k)
                if isinstance(p, Top):
                    return p
                if p == NONE:
                    self.outcomes.append(Outcome('hosterror', st.cond, 'TypeError: cannot unpack None', node,
                                                 func=self.cur_func))
                    return Top('unpack None')
                raise Unsupported('unpack of %r' % (p,))
            for k, t in enumerate(target.elts):
                try:
                    vk = self.lift1(v, lambda p, k=k: comp(p, k), st.cond)
                except Unsupported as u:
                    vk = V(Top(str(u)))
                self.assign(t, vk, st, node)
            return
        if isinstance(target, ast.Attribute):
            base = self.eval(target.value, st)
            p = base.single()
            if isinstance(p, tuple) and p and p[0] == 'obj':
                self.obj_store(p, target.attr, v, st, node)
                return
            live = [(c, q) for c, q in base.cases if self.B.AND(c, st.cond) != 0]
            if live and all(isinstance(q, tuple) and q and q[0] == 'obj' for c, q in live):
                # the receiver is one of several objects depending on the path: conditional store into each
                for c, q in live:
                    key = q[1] + '.' + target.attr
                    self.key_info[key] = (q, target.attr)
                    old = st.heap.get(key)
                    if old is None:
                        old = self.policy.attr(self, q, target.attr, st)
                        if old is None:
                            old = V(UNBOUND)
                    st.heap[key] = self.v_ite(c, v, old)
                return
            raise AnalysisError('store to attribute of non-object `%s` in %s' % (
                ast.unparse(target), self.cur_func.qualname if self.cur_func else '?'))
        if isinstance(target, ast.Subscript):
            base = self.eval(target.value, st)
            p = base.single()
            if isinstance(p, tuple) and p and p[0] == 'obj':
                ci = self.repo.classes.get(p[2])
                si = ci[0].find_method('__setitem__') if ci else None
                if si is None:
                    raise AnalysisError('item store on object without __setitem__')
                item = self.slice_value(target.slice, st)
                self.call_func(si, p, [item, v], {}, node, st)
                return
            if isinstance(p, tuple) and p and p[0] == 'map':
                self.map_write(p, self.eval(target.slice, st), v, st, node)
                return
            if isinstance(p, Tup):
                k = self.const_of(self.eval(target.slice, st), st.cond)
                if k is not None and 0 <= k < len(p.items):
                    items = list(p.items)
                    items[k] = v
                    self.assign(target.value, V(Tup(items)), st, node)
                    return
                keyv = self.eval(target.slice, st)
                ii = self.as_int(keyv, st.cond, 'index')
                items = []
                for k, old in enumerate(p.items):
                    items.append(self.v_ite(self.i_eq(ii, self.const(k)), v, old))
                self.assign(target.value, V(Tup(items)), st, node)
                return
            raise AnalysisError('item store outside the idiom: `%s`' % ast.unparse(target)[:60])
        raise AnalysisError('assignment target outside the idiom')

    def obj_store(self, obj, attr, v, st, node):
        path, clsname = obj[1], obj[2]
        ci = self.repo.classes.get(clsname)
        ci = ci[0] if ci else None
        if ci is not None:
            s = ci.find_setter(attr)
            if s is not None:
                self.inline(s, [V(obj), v], {}, st, node)
                return
        self.key_info[path + '.' + attr] = (obj, attr)
        self.on_store(obj, attr, v, st, node)
        st.heap[path + '.' + attr] = v

    def on_store(self, obj, attr, v, st, node):
        pass

    # ------------------------------------------------------------------
    def run_function(self, fi, args, kwargs=None, cond=1, heap=None):
        """Analyse fi from the top.  Returns (rets, final_state) where rets is a list of
        (cond, value, state).  Outcomes accumulate in self.outcomes."""
        env = self.bind(fi, args, kwargs or {})
        self.cur_func = fi
        st = State(cond, env, dict(heap or {}))
        rets = []
        end = self.block(fi.node.body, st, rets)
        if end.cond != 0:
            rets.append((end.cond, V(NONE), end))
        return rets


class _ModuleCtx:
    """Stand-in for cur_func when evaluating a module-level constant."""
    def __init__(self, module):
        self.module = module
        self.qualname = '<module %s>' % module.name


BUILTINS = {'print', 'int', 'bool', 'len', 'range', 'isinstance', 'hasattr', 'abs', 'min', 'max', 'bin', 'slice',
            'NotImplementedError', 'super', 'repr', 'str', 'enumerate', 'zip', 'sum', 'any', 'all', 'tuple', 'list', 'reversed'}


# ---------------------------------------------------------------------------
# convenience
# ---------------------------------------------------------------------------
def sym_int(B, name, width):
    """Unsigned symbolic integer with bits named name[k]; MSB gets the smallest index so
    that fields read like the manual's diagrams."""
    idx = [B.var_index('%s[%d]' % (name, k)) for k in reversed(range(width))]
    bits = [B.mk(i, 0, 1) for i in reversed(idx)]
    return Int(bits)


def sym_bool(B, name):
    return Int([B.var(name)])
