"""Memoisation detector (shared by C05 / C13 / C14 / C15 / C16 / C17 / C19 / C20).

A function MEMOISES when it can return a value taken from a persistent location S (an attribute chain rooted at
`self` / `processor` / `cls`, an item of such an object, or a module-level container) that the same function also
stores into, on a path where the store does not dominate the return: the returned value then comes from an earlier
call.  Such a function is behaviour-preserving only if the stored result is a function of the lookup key alone, so a
memo is reported unless
  * every parameter of the function flows into the key, and
  * the function reads no other persistent state (no `self.` / `processor.` attribute besides S, no module global).
(An invalidation scheme that makes an incomplete key safe is beyond a static argument of this kind; the tree has no
memo at all today, which is what the properties' "evaluated on the current state" clauses rely on.)"""
import ast

ROOTS = ('self', 'processor', 'cls')
STORE_METHODS = ('setdefault', 'update', '__setitem__', 'add', 'append')


def _root(e):
    while isinstance(e, (ast.Attribute, ast.Subscript)):
        e = e.value
    return e


class _Fn:
    def __init__(self, repo, mod, cls, fn):
        self.repo, self.mod, self.cls, self.fn = repo, mod, cls, fn
        self.alias = {}
        for n in ast.walk(fn):
            if isinstance(n, ast.Assign) and len(n.targets) == 1 and isinstance(n.targets[0], ast.Name) and \
                    isinstance(n.value, ast.Attribute):
                r = _root(n.value)
                if isinstance(r, ast.Name) and r.id in ROOTS:
                    self.alias[n.targets[0].id] = ast.unparse(n.value)

    def canon(self, e):
        """Canonical text of a persistent location, or None."""
        if isinstance(e, ast.Name):
            if e.id in self.alias:
                return self.alias[e.id]
            r = self.repo.resolve_name(self.mod, e.id)
            if r and r[0] == 'const' and isinstance(r[2], (ast.Dict, ast.List, ast.Set, ast.Call)):
                return '%s.%s' % (r[1].name, e.id)
            return None
        if isinstance(e, ast.Attribute):
            r = _root(e)
            if isinstance(r, ast.Name) and r.id in ROOTS:
                return ast.unparse(e)
            if isinstance(r, ast.Name) and r.id in self.alias:
                return self.alias[r.id] + ast.unparse(e)[len(r.id):]
        return None

    def helper_stores(self, s, depth=0):
        """`self.helper(...)` as a statement: the locations the helper stores unconditionally (one class, two levels)."""
        if not (isinstance(s, ast.Expr) and isinstance(s.value, ast.Call) and isinstance(s.value.func, ast.Attribute) and
                isinstance(s.value.func.value, ast.Name) and s.value.func.value.id == 'self' and self.cls and depth < 2):
            return set()
        for n in self.mod.tree.body:
            if isinstance(n, ast.ClassDef) and n.name == self.cls:
                for f in n.body:
                    if isinstance(f, ast.FunctionDef) and f.name == s.value.func.attr:
                        H = _Fn(self.repo, self.mod, self.cls, f)
                        out = set()
                        for st in f.body:
                            out |= H.stores_of(st) | H.helper_stores(st, depth + 1)
                        return out
        return set()

    def stores_of(self, s):
        """Persistent locations stored by one statement (not descending into compound bodies)."""
        out = set(self.helper_stores(s)) if isinstance(s, ast.Expr) else set()
        tg = []
        if isinstance(s, ast.Assign):
            tg = s.targets
        elif isinstance(s, (ast.AugAssign, ast.AnnAssign)):
            tg = [s.target]
        for t in tg:
            for x in (t.elts if isinstance(t, (ast.Tuple, ast.List)) else [t]):
                if isinstance(x, ast.Name):
                    continue                  # a local (possibly an alias of a persistent object): not a store
                c = self.canon(x.value) if isinstance(x, ast.Subscript) else self.canon(x)
                if c:
                    out.add(c)
        if isinstance(s, ast.Expr) and isinstance(s.value, ast.Call) and isinstance(s.value.func, ast.Attribute) and \
                s.value.func.attr in STORE_METHODS:
            c = self.canon(s.value.func.value)
            if c:
                out.add(c)
        return out

    def lookups(self, e):
        """Persistent containers consulted by key in an expression: D[k], D.get(k), k in D."""
        out = set()
        for x in ast.walk(e):
            c = None
            if isinstance(x, ast.Subscript) and isinstance(x.ctx, ast.Load):
                c = self.canon(x.value)
            elif isinstance(x, ast.Call) and isinstance(x.func, ast.Attribute) and x.func.attr == 'get':
                c = self.canon(x.func.value)
            elif isinstance(x, ast.Compare) and any(isinstance(o, (ast.In, ast.NotIn)) for o in x.ops):
                for cm in x.comparators:
                    cc = self.canon(cm)
                    if cc:
                        out.add(cc)
            if c:
                out.add(c)
        return out

    def mentions(self, e):
        out = set()
        for x in ast.walk(e):
            if isinstance(x, (ast.Attribute, ast.Name)):
                c = self.canon(x)
                if c:
                    out.add(c)
        return out


def _covers(stored, loc):
    return any(loc == s or loc.startswith(s + '.') or loc.startswith(s + '[') for s in stored)


def find_memos(repo):
    """[(relpath, qualname, location, reason)] for every memoising function of the package."""
    cached = getattr(repo, '_memos', None)
    if cached is not None:
        return cached
    out = []
    nfun = 0
    for m in repo.modules.values():
        funcs = []
        for n in m.tree.body:
            if isinstance(n, ast.ClassDef):
                funcs += [(n.name, f) for f in n.body if isinstance(f, ast.FunctionDef)]
            elif isinstance(n, ast.FunctionDef):
                funcs.append(('', n))
        for cls, fn in funcs:
            if fn.name in ('__init__', '__new__'):
                continue
            nfun += 1
            F = _Fn(repo, m, cls, fn)
            all_stores = set()
            for s in ast.walk(fn):
                if isinstance(s, ast.stmt):
                    all_stores |= F.stores_of(s)
            if not all_stores:
                continue
            hits = []

            def block(stmts, stored):
                stored = set(stored)
                for s in stmts:
                    if isinstance(s, ast.Return) and s.value is not None:
                        for loc in F.mentions(s.value):
                            if _covers(all_stores, loc) and not _covers(stored, loc):
                                hits.append((loc, s))
                    elif isinstance(s, ast.If):
                        for loc in F.lookups(s.test):
                            if _covers(all_stores, loc) and not _covers(stored, loc):
                                hits.append((loc, s))
                        a = block(s.body, stored)
                        b = block(s.orelse, stored)
                        stored |= (a & b)
                    elif isinstance(s, (ast.For, ast.While)):
                        block(s.body, stored)
                        block(s.orelse, stored)
                    elif isinstance(s, ast.Try):
                        a = block(s.body, stored)
                        for h in s.handlers:
                            block(h.body, stored)
                        block(s.orelse, a)
                        stored |= block(s.finalbody, stored) - stored
                    elif isinstance(s, ast.With):
                        stored |= block(s.body, stored)
                    else:
                        if isinstance(s, (ast.Assign, ast.AugAssign, ast.Expr)):
                            v = s.value
                            for loc in F.lookups(v):
                                if _covers(all_stores, loc) and not _covers(stored, loc) and loc not in F.stores_of(s):
                                    hits.append((loc, s))
                        stored |= F.stores_of(s)
                return stored
            block(fn.body, set())
            seen = set()
            for loc, node in hits:
                base = next(s for s in all_stores if _covers({s}, loc))
                if base in seen:
                    continue
                seen.add(base)
                why = _incomplete(F, fn, base)
                if why:
                    out.append((m.relpath, (cls + '.' if cls else '') + fn.name, base, why))
    repo._memos = out
    repo._memo_functions = nfun
    return out


def _incomplete(F, fn, base):
    """Why the memo is not a pure function of its key (None when it is)."""
    params = [a.arg for a in fn.args.args + fn.args.kwonlyargs if a.arg not in ROOTS]
    # names flowing into any key used with the container
    keys = set()
    for n in ast.walk(fn):
        if isinstance(n, ast.Subscript) and F.canon(n.value) == base:
            keys |= {x.id for x in ast.walk(n.slice) if isinstance(x, ast.Name)}
        if isinstance(n, ast.Compare) and any(F.canon(c) == base for c in n.comparators):
            keys |= {x.id for x in ast.walk(n.left) if isinstance(x, ast.Name)}
        if isinstance(n, ast.Call) and isinstance(n.func, ast.Attribute) and F.canon(n.func.value) == base and n.args:
            keys |= {x.id for x in ast.walk(n.args[0]) if isinstance(x, ast.Name)}
    # close over local definitions
    changed = True
    while changed:
        changed = False
        for n in ast.walk(fn):
            if isinstance(n, ast.Assign) and any(isinstance(t, ast.Name) and t.id in keys for t in n.targets):
                new = {x.id for x in ast.walk(n.value) if isinstance(x, ast.Name)} - keys
                if new:
                    keys |= new
                    changed = True
    missing = [p for p in params if p not in keys]
    # a key computed arithmetically from several inputs (mode * 14 + n) is not provably injective: two inputs may share an entry
    def key_exprs():
        for n in ast.walk(fn):
            if isinstance(n, ast.Subscript) and F.canon(n.value) == base:
                yield n.slice
            if isinstance(n, ast.Call) and isinstance(n.func, ast.Attribute) and F.canon(n.func.value) == base and n.args:
                yield n.args[0]
    local_defs = {t.id: n.value for n in ast.walk(fn) if isinstance(n, ast.Assign) for t in n.targets if isinstance(t, ast.Name)}
    for k in key_exprs():
        k = local_defs.get(k.id, k) if isinstance(k, ast.Name) else k
        if isinstance(k, ast.BinOp) and len({x.id for x in ast.walk(k) if isinstance(x, ast.Name)}) >= 2 and not missing:
            return ('the lookup key `%s` folds several inputs into one number, so distinct inputs can share an entry unless the '
                    'packing is injective' % ast.unparse(k)[:60])
    state = set()
    for n in ast.walk(fn):
        if isinstance(n, ast.Attribute):
            c = F.canon(n)
            if c and not _covers({base}, c) and not _covers({c}, base):
                state.add(c.split('(')[0])
    if missing:
        return 'the lookup key leaves out the parameter(s) %s' % ', '.join(missing)
    if state:
        return 'the function also depends on %s, which the lookup key does not cover' % ', '.join(sorted(state)[:4])
    if not keys and not params:
        return 'the stored result is returned without any key'
    return None


def check(run, repo, rule, scope, what):
    """Report the memos whose function lies in `scope(relpath, qualname)` under `rule`."""
    memos = find_memos(repo)
    mine = [x for x in memos if scope(x[0], x[1])]
    run.instance(rule, 'no memoised result in %s' % what, obligations=1, ok=not mine,
                 sample={'functions_scanned': repo._memo_functions, 'memoising_functions_in_package': len(memos)})
    for rel, qual, loc, why in mine:
        run.violation(rule, rel, qual, 'memo ' + loc,
                      '%s returns a result it stored in %s during an earlier call, and %s: the result is not re-evaluated on the '
                      'current state (%s)' % (qual, loc, why, what))
    return mine
