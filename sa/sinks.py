"""Width obligations: every value that reaches a sized sink must be *proved* to fit.

Sinks (closed vocabulary of sa.flow events): register / banked-register / SPSR / PC writes,
memory addresses, memory values (< 2^(8*size)), flag and PSR writes, and the arguments of
contracted ArmV6 / Registers methods.  Opcode bodies are judged with field ranges from the
decode layer; ArmV6 / Registers methods are judged modularly (assume the contract of their
own parameters, prove the contracts of everything they call)."""
from .flow import fmt, subterms
from .ranges import Iv, Tupv, Enumv, Topv, Nonev, Botv, U32, BOOL, u, join, TermEval, FLAG_WIDTH, INF

SIZES = (1, 2, 4, 8)

# parameter contracts: method -> {param: abstract value | callable(size) }
REG_CONTRACTS = {
    'set': {'n': Iv(0, 14), 'value': U32},
    'set_rmode': {'n': Iv(0, 14), 'mode': u(5), 'value': U32},
    'get_rmode': {'n': Iv(0, 14), 'mode': u(5)},
    'get': {'n': Iv(0, 15)},
    'set_sp': {'value': U32}, 'set_lr': {'value': U32},
    'branch_to': {'address': U32},
    'set_spsr': {'value': U32},
    'increment_pc': {'opcode_length': Iv(2, 4)},
    'cpsr_write_by_instr': {'value': U32, 'bytemask': u(4), 'is_excp_return': BOOL},
    'spsr_write_by_instr': {'value': U32, 'bytemask': u(4)},
    'enter_hyp_mode': {'new_spsr_value': U32, 'preferred_exceptn_return': U32, 'vect_offset': Iv(0, 28)},
    'enter_monitor_mode': {'new_spsr_value': U32, 'new_lr_value': U32, 'vect_offset': Iv(0, 28)},
    'look_up_rname': {'n': Iv(0, 14), 'mode': u(5)},
    'bad_mode': {'mode': u(5)},
}
ARM_CONTRACTS = {
    'branch_write_pc': {'address': U32}, 'bx_write_pc': {'address': U32}, 'alu_write_pc': {'address': U32},
    'load_write_pc': {'address': U32},
    'null_check_if_thumbee': {'n': Iv(0, 15)},
    'fcse_translate': {'va': U32},
    'write_hsr': {'ec': u(6), 'hsr_string': u(25)},
    'call_supervisor': {'immediate': u(16)},
    'alignment_fault': {'address': U32, 'iswrite': BOOL},
    'alignment_fault_p': {'address': U32, 'iswrite': BOOL},
    'alignment_fault_v': {'address': U32, 'iswrite': BOOL, 'taketohyp': BOOL, 'secondstageabort': BOOL},
    'translate_address': {'va': U32, 'ispriv': BOOL, 'iswrite': BOOL, 'size': Iv(1, 8), 'wasaligned': BOOL},
    'translate_address_p': {'va': U32, 'ispriv': BOOL, 'iswrite': BOOL, 'wasaligned': BOOL},
    'translate_address_v': {'va': U32, 'ispriv': BOOL, 'iswrite': BOOL, 'size': Iv(1, 8), 'wasaligned': BOOL},
    'exclusive_monitors_pass': {'address': U32, 'size': Iv(1, 8)},
    'set_exclusive_monitors': {'address': U32, 'size': Iv(1, 8)},
    'increment_pc_if_needed': {},
}
REG_CONTRACTS['select_instr_set'] = {'iset': Enumv('InstrSet', ['ARM', 'THUMB', 'JAZELLE', 'THUMB_EE'])}
# memory accessors: contract depends on the (constant) size
MEM_SET = {'mem_a_set': ('address', 'size', 'value'), 'mem_u_set': ('address', 'size', 'value'),
           'mem_u_unpriv_set': ('address', 'size', 'value'),
           'mem_a_with_priv_set': ('address', 'size', 'value'), 'mem_u_with_priv_set': ('address', 'size', 'value')}
MEM_GET = {'fetch_mem': ('address', 'size'), 'mem_a_get': ('address', 'size'), 'mem_u_get': ('address', 'size'), 'mem_u_unpriv_get': ('address', 'size'),
           'mem_a_with_priv_get': ('address', 'size'), 'mem_u_with_priv_get': ('address', 'size')}


def fits(v, lo, hi):
    if isinstance(v, Botv):
        return True
    return isinstance(v, Iv) and v.lo >= lo and v.hi <= hi


class Obligation:
    def __init__(self, ev, what, term, lo, hi, size_term=None):
        self.ev = ev
        self.what = what
        self.term = term
        self.lo = lo
        self.hi = hi
        self.size_term = size_term    # when set: hi = 2^(8*size)-1 with size evaluated at check time


def _param_names(repo, clsname, meth):
    ci = repo.cls(clsname)
    fi = ci.find_method(meth)
    if fi is None:
        return None
    return fi.params()[1:]


def obligations_of(repo, tr):
    """Width obligations of one trace (events of sa.flow)."""
    out = []
    for ev in tr.events:
        k = ev.kind
        d = ev.d
        if k == 'RegWrite':
            out.append(Obligation(ev, 'value written to R[%s]' % fmt(d['idx']), d['value'], 0, 2 ** 32 - 1))
        elif k == 'RmodeWrite':
            out.append(Obligation(ev, 'value written to banked R[%s]' % fmt(d['idx']), d['value'], 0, 2 ** 32 - 1))
        elif k in ('Branch', 'BranchTo'):
            out.append(Obligation(ev, 'branch target', d['target'], 0, 2 ** 32 - 1))
        elif k == 'MemRead':
            out.append(Obligation(ev, 'load address', d['addr'], 0, 2 ** 32 - 1))
            out.append(Obligation(ev, 'load size', d['size'], 1, 8))
        elif k == 'MemWrite':
            out.append(Obligation(ev, 'store address', d['addr'], 0, 2 ** 32 - 1))
            out.append(Obligation(ev, 'store size', d['size'], 1, 8))
            out.append(Obligation(ev, 'store value', d['value'], 0, None, size_term=d['size']))
        elif k == 'SpsrWrite':
            out.append(Obligation(ev, 'SPSR value', d['value'], 0, 2 ** 32 - 1))
        elif k in ('CpsrWriteByInstr', 'SpsrWriteByInstr'):
            out.append(Obligation(ev, 'PSR value', d['value'], 0, 2 ** 32 - 1))
            out.append(Obligation(ev, 'PSR byte mask', d['mask'], 0, 15))
        elif k == 'FlagWrite':
            w = FLAG_WIDTH.get(d['flag'])
            if w is not None:
                out.append(Obligation(ev, 'CPSR.%s (%d bit%s)' % (d['flag'], w, '' if w == 1 else 's'), d['value'], 0, 2 ** w - 1))
        elif k == 'SysWrite':
            p = d['path']
            if p in ('changed_registers', 'event_register') or (d['value'][0] == 'const' and isinstance(d['value'][1], bool)):
                continue       # bookkeeping flags; a boolean constant is not a 32-bit sink value
            if p.endswith('.value') or '.' not in p:
                wide = 64 if (p.endswith('_64') or p in ('httbr', 'vttbr')) else 32
                out.append(Obligation(ev, 'system register %s' % p, d['value'], 0, 2 ** wide - 1))
        elif k == 'ItemStore':
            b = d['base']
            if b == ('sys', '_R'):
                out.append(Obligation(ev, 'physical register store', d['value'], 0, 2 ** 32 - 1))
            elif b == ('procattr', 'mem'):
                idx = d['index']
                sz = idx[1][1] if idx[0] == 'tuple' and len(idx[1]) == 2 else ('const', None)
                out.append(Obligation(ev, 'value stored to the memory hub', d['value'], 0, None, size_term=sz))
        elif k == 'ProcCall':
            meth = d['method']
            if d['recv'] == 'registers':
                clsname, table = 'Registers', REG_CONTRACTS
            elif d['recv'] == '':
                clsname, table = 'ArmV6', ARM_CONTRACTS
            else:
                continue
            names = _param_names(repo, clsname, meth)
            if names is None:
                continue
            a = d['args']
            if clsname == 'ArmV6' and (meth in MEM_SET or meth in MEM_GET):
                amap = dict(zip(names, a))
                if 'address' in amap:
                    out.append(Obligation(ev, 'address passed to %s' % meth, amap['address'], 0, 2 ** 32 - 1))
                if 'size' in amap:
                    out.append(Obligation(ev, 'size passed to %s' % meth, amap['size'], 1, 8))
                if meth in MEM_SET and 'value' in amap and 'size' in amap:
                    out.append(Obligation(ev, 'value passed to %s' % meth, amap['value'], 0, None, size_term=amap['size']))
                continue
            c = table.get(meth)
            if not c:
                continue
            for n, t in zip(names, a):
                v = c.get(n)
                if isinstance(v, Iv):
                    out.append(Obligation(ev, 'argument %s of %s' % (n, meth), t, v.lo, v.hi))
    return out


def contract_variants(clsname, meth, names):
    """Parameter assumptions under which a contracted method body is judged (a list: the memory
    accessors are judged once per access size)."""
    if clsname == 'ArmV6' and (meth in MEM_SET or meth in MEM_GET):
        out = []
        for k in SIZES:
            p = {}
            for n in names:
                if n == 'address':
                    p[n] = U32
                elif n == 'size':
                    p[n] = Iv(k, k)
                elif n == 'value':
                    p[n] = u(8 * k)
                elif n in ('privileged', 'was_aligned'):
                    p[n] = BOOL
            out.append(('size=%d' % k, p))
        return out
    table = REG_CONTRACTS if clsname == 'Registers' else ARM_CONTRACTS
    c = table.get(meth)
    if c is None:
        c = DERIVED.get((clsname, meth))
    if c is None:
        return [('', {})]
    return [('', {n: v for n, v in c.items() if n in names})]


DERIVED = {}


def derive_private_contracts(repo):
    """A private helper (`_name`) of ArmV6 / Registers that is only ever called with its caller's own contracted parameters
    (or constants) inherits those contracts: extracting a block into a helper must not lose what is known about its inputs."""
    import ast
    DERIVED.clear()
    for clsname in ('ArmV6', 'Registers'):
        ci = repo.cls(clsname)
        sites = {}
        for fi in ci.methods.values():
            names = fi.params()[1:]
            variants = contract_variants(clsname, fi.name, names)
            known = {}
            for _, pr in variants:
                for n, v in pr.items():
                    known[n] = join(known.get(n), v) if n in known else v
            for node in ast.walk(fi.node):
                if isinstance(node, ast.Call) and isinstance(node.func, ast.Attribute) and ast.unparse(node.func.value) == 'self' \
                        and node.func.attr.startswith('_') and not node.func.attr.startswith('__'):
                    h = ci.find_method(node.func.attr)
                    if h is None:
                        continue
                    hp = h.params()
                    static = any(ast.unparse(d) == 'staticmethod' for d in h.node.decorator_list)
                    hp = hp if static else hp[1:]
                    got = {}
                    for k, a in enumerate(node.args):
                        if k >= len(hp):
                            break
                        if isinstance(a, ast.Name) and a.id in known:
                            got[hp[k]] = known[a.id]
                        elif isinstance(a, ast.Constant) and isinstance(a.value, (int, bool)):
                            got[hp[k]] = Iv(int(a.value), int(a.value))
                    sites.setdefault(node.func.attr, []).append(got)
        for meth, lst in sites.items():
            table = REG_CONTRACTS if clsname == 'Registers' else ARM_CONTRACTS
            if meth in table:
                continue
            common = set(lst[0])
            for g in lst[1:]:
                common &= set(g)
            if common:
                d = {}
                for n in common:
                    v = None
                    for g in lst:
                        v = g[n] if v is None else join(v, g[n])
                    d[n] = v
                DERIVED[(clsname, meth)] = d


def joint_for(fr, abstract):
    return lambda assign: fr.feasible(abstract, assign)


def check_obligation(te, ob):
    """-> (ok, value, bound_hi)"""
    v = te.ev_split(ob.term, ob.ev.guards)
    hi = ob.hi
    if ob.size_term is not None:
        sv = te.ev(ob.size_term)
        if isinstance(sv, Iv) and sv.const() is not None and sv.const() in SIZES:
            hi = 2 ** (8 * int(sv.const())) - 1
        else:
            return False, v, None
    return fits(v, ob.lo, hi), v, hi


class Context:
    """Shared range context: view-field widths and return ranges of ArmV6/Registers methods."""

    def __init__(self, repo, eff, fa):
        import ast as _ast
        from .decode import MachinePolicy
        self.repo = repo
        self.eff = eff
        self.fa = fa
        self.types = MachinePolicy(repo, None).registers_typing()
        derive_private_contracts(repo)
        self._ret = {}
        self._busy = set()

    def sys_width(self, path):
        import ast as _ast
        parts = path.split('.')
        t = self.types.get(parts[0])
        if t is None:
            return None
        if t[0] == 'int':
            return t[1] if len(parts) == 1 else None
        if t[0] == 'obj' and len(parts) == 2:
            if parts[1] == 'value':
                return 32
            ci = self.repo.classes.get(t[1])
            g = ci[0].find_getter(parts[1]) if ci else None
            if g is None:
                return None
            body = [s for s in g.node.body if not (isinstance(s, _ast.Expr) and isinstance(s.value, _ast.Constant))]
            if len(body) == 1 and isinstance(body[0], _ast.Return) and isinstance(body[0].value, _ast.Subscript):
                sl = body[0].value.slice
                if isinstance(sl, _ast.Slice) and isinstance(sl.lower, _ast.Constant) and isinstance(sl.upper, _ast.Constant):
                    return sl.lower.value - sl.upper.value + 1
                if isinstance(sl, _ast.Constant):
                    return 1
        return None

    def method_range(self, clsname, meth):
        """Join of the ranges of the values a method can return (parameters at their contract)."""
        key = (clsname, meth)
        if key in self._ret:
            return self._ret[key]
        if key in self._busy:
            return None
        tr = self.eff.traces.get(key)
        if tr is None:
            return None
        self._busy.add(key)
        try:
            ci = self.repo.cls(clsname)
            fi = ci.find_method(meth)
            res = None
            rets = [e for e in tr.events if e.kind == 'Return']
            if not rets or fi is None:
                out = None
            else:
                names = fi.params()[1:]
                for label, params in contract_variants(clsname, meth, names):
                    te = self.term_eval({}, fi.module)
                    te.params = params
                    from .props.c10 import loops_of
                    te.loops = loops_of(tr)
                    for e in rets:
                        res = join(res, te.ev_split(e.d['value'], e.guards))
                out = res
        finally:
            self._busy.discard(key)
        self._ret[key] = out
        return out

    def term_eval(self, fields, module, joint=None):
        te = TermEval(self.repo, self.fa, fields, module)
        te.joint = joint
        te.sys_width = self.sys_width
        te.method_ranges = self.method_range
        return te
