"""Value ranges of opcode fields (``self.x``), derived from the decode layer: for every
abstract opcode class the join, over its concrete encodings, of the interval / enum set each
constructor kwarg can take on an accepted word (exact for fields up to 8 bits, a bit-level
bound otherwise; results of uninterpreted helpers are bounded by analysing the helper)."""
from . import decode
from .bdd import BDD
from .bitdom import Int, UF, Tup, Top, NONE
from .ranges import Iv, Enumv, Tupv, Topv, Nonev, join, BOOL, INF


class FieldRanges:
    def __init__(self, repo, fa, B=None):
        self.repo = repo
        self.fa = fa
        self.B = B or BDD()
        self.models = {r: decode.build(repo, r, self.B) for r in ('ARM', 'T16', 'T32')}
        self.by_abstract = {}
        self.by_concrete = {}
        self._feas = {}
        for rm in self.models.values():
            for name, em in rm.encodings.items():
                d = {}
                for k, v in em.kwargs.items():
                    if k.startswith('#'):
                        continue
                    d[k] = self.value_range(em, v, em.accept)
                self.by_concrete[name] = d
                a = em.abstract
                cur = self.by_abstract.setdefault(a, {})
                for k, r in d.items():
                    cur[k] = join(cur.get(k), r) if k in cur else r
                # kwargs missing in some encodings are simply absent there

    def value_range(self, em, v, cond):
        B = self.B
        res = None
        for c, p in v.cases:
            cc = B.AND(c, cond)
            if cc == 0:
                continue
            res = join(res, self.payload_range(em, p, cc))
        return res if res is not None else Topv('no accepted word')

    def payload_range(self, em, p, cond):
        B = self.B
        it = em.interp
        if isinstance(p, Int):
            if p.signed:
                w = len(p.bits)
                return Iv(-(1 << (w - 1)), (1 << (w - 1)) - 1)
            bits = [B.simplify(b, cond) if b > 1 else b for b in p.bits]
            w = len(bits)
            while w > 1 and bits[w - 1] == 0:
                w -= 1
            bits = bits[:w]
            if w <= 8:
                vals = []
                x = Int(bits)
                for k in range(1 << w):
                    if B.AND(cond, it.i_eq(x, it.const(k))) != 0:
                        vals.append(k)
                if vals:
                    return Iv(min(vals), max(vals))
            lo = sum(1 << i for i, b in enumerate(bits) if b == 1)
            hi = sum(1 << i for i, b in enumerate(bits) if b != 0)
            return Iv(lo, hi)
        if isinstance(p, tuple):
            if p and p[0] == 'enum':
                return Enumv(p[1], [p[2]])
            if p == NONE:
                return Nonev()
        if isinstance(p, Tup):
            return Tupv([self.value_range(em, x, cond) for x in p.items])
        if isinstance(p, UF):
            fi = None
            for modname in ('armulator.armv6.shift', 'armulator.armv6.bits_ops'):
                m = self.repo.modules.get(modname)
                if m and p.name in m.functions:
                    fi = m.functions[p.name]
            if fi is None:
                return Topv('helper %s' % p.name)
            args = [self.value_range(em, a, cond) for a in p.args]
            r = self.fa.call(fi, args)
            if p.proj is not None:
                if isinstance(r, Tupv) and p.proj < len(r.items):
                    return r.items[p.proj]
                return Topv('projection of %s' % p.name)
            return r
        return Topv('field payload %r' % (p,))

    def for_abstract(self, name):
        return self.by_abstract.get(name, {})

    def feasible(self, abstract, assign):
        """Can the fields take these values *together* on an accepted word of some encoding of `abstract`?
        assign: {field: int}.  Exact (decode model)."""
        key = (abstract, tuple(sorted(assign.items())))
        r = self._feas.get(key)
        if r is not None:
            return r
        B = self.B
        res = False
        for rm in self.models.values():
            for name, em in rm.encodings.items():
                if em.abstract != abstract:
                    continue
                cond = em.accept
                it = em.interp
                for f, val in assign.items():
                    v = em.kwargs.get(f)
                    if v is None:
                        cond = 0
                        break
                    c2 = 0
                    for c, p in v.cases:
                        if isinstance(p, Int):
                            c2 = B.OR(c2, B.AND(c, it.i_eq(p, it.const(val))))
                        else:
                            c2 = B.OR(c2, c)      # non-integer payload: no constraint
                    cond = B.AND(cond, c2)
                    if cond == 0:
                        break
                if cond != 0:
                    res = True
                    break
            if res:
                break
        self._feas[key] = res
        return res

    def values(self, abstract, field, limit=64):
        """Exact set of values of a small field over all accepted words."""
        r = self.by_abstract.get(abstract, {}).get(field)
        if not isinstance(r, Iv) or not r.finite() or r.size() > limit:
            return None
        return {v for v in range(int(r.lo), int(r.hi) + 1) if self.feasible(abstract, {field: v})}

    def bit_feasible(self, abstract, field, bit, value):
        """Is there an accepted word of some encoding of `abstract` on which bit `bit` of the kwarg
        `field` equals `value`?  Exact (decode model); non-integer payloads count as feasible."""
        B = self.B
        for rm in self.models.values():
            for name, em in rm.encodings.items():
                if em.abstract != abstract:
                    continue
                v = em.kwargs.get(field)
                if v is None:
                    continue
                for c, p in v.cases:
                    cc = B.AND(c, em.accept)
                    if cc == 0:
                        continue
                    if not isinstance(p, Int):
                        return True
                    b = p.bits[bit] if bit < len(p.bits) else (p.bits[-1] if p.signed else 0)
                    if B.AND(cc, b if value else B.NOT(b)) != 0:
                        return True
        return False
