"""Bit-exact abstract interpretation of opcode ``execute()`` bodies (M2, BDD bit-vectors).

The body is interpreted once with
  * every register-number field bound to a distinct constant index, the register file a map of
    named 32-bit symbols (sound for aliased numbers when all operand reads precede all writes -
    checked separately by the event-order rule),
  * every other field a symbolic integer / enum restricted to the values the decode layer can
    produce for the class,
  * the CPSR one 32-bit symbol seen through the register view classes,
  * ``condition_passed()`` a free boolean,
  * wide multiplication and true division *uninterpreted*: the product (quotient) of two given
    bit-vectors is a named symbol, the same on the tree and the reference side, so everything
    around the multiplier (operand selection, sign interpretation, accumulate, truncation, flag
    derivation) is decided bit-exactly and only ``*`` / ``/`` themselves are trusted.
Variables are allocated with the control fields on top and the data words interleaved bit by bit
(adders and comparators stay linear).  No concrete execution, no solver.
"""
from . import decode
from .bdd import BDD
from .bitdom import Interp, Int, V, Value, Tup, UF, NONE, State, Unsupported, Outcome, sym_int
from .ranges import Iv, Enumv
from .report import AnalysisError

REG_ORDER = ('n', 'm', 'a', 'd', 'd_hi', 'd_lo', 's', 't', 't2')
SRTYPES = ('LSL', 'LSR', 'ASR', 'ROR', 'RRX')
REGFILE = ('obj', 'REGFILE', 'RegFile')


class OpPolicy(decode.MachinePolicy):
    uninterpreted = frozenset()

    def __init__(self, repo, B, h):
        decode.MachinePolicy.__init__(self, repo, B)
        self.h = h

    def attr(self, it, obj, attr, st):
        if obj[0] == 'obj' and obj[1] == 'self':
            v = self.h.fields.get(attr)
            if v is None:
                raise Unsupported('opcode field %s has no model' % attr)
            return v
        if len(obj) > 2 and obj[2] == 'RegFile':
            return V(self.sym('R.' + attr, 32))
        return decode.MachinePolicy.attr(self, it, obj, attr, st)

    def call(self, it, target, recv, args, kwargs, node, st):
        qn = getattr(target, 'qualname', None)
        h = self.h
        if qn in ('Registers.get', 'Registers.set'):
            k = it.const_of(args[0], st.cond)
            if k is None:
                raise Unsupported('register number is not a constant in the harness')
            name = h.regname.get(k, 'r%d' % k)
            key = 'REG.' + name
            it.key_info[key] = (REGFILE, name)
            if qn == 'Registers.get':
                h.reads.append((name, st.cond))
                if key in st.heap:
                    return st.heap[key]
                return V(self.sym('R.' + name, 32))
            h.writes.append((name, st.cond))
            st.heap[key] = args[1]
            return V(NONE)
        if h.abstract_shift and qn in ('shift_c', 'shift') and getattr(getattr(target, 'module', None), 'name', '') == 'armulator.armv6.shift':
            # compositional: the shifter is decided on its own (C17-A); here its arguments are recorded and its
            # result is a pair of fresh symbols shared with the reference
            h.shift_calls.append((qn, list(args), st.cond))
            k = len(h.shift_calls) - 1
            if k >= 1:
                raise Unsupported('more than one shifter application in one body')
            res = self.sym('OP2', 32)
            car = self.sym('OP2C', 1)
            return V(Tup([V(res), V(car)])) if qn == 'shift_c' else V(res)
        if qn == 'Registers.get_pc':
            h.reads.append(('pc', st.cond))
            return V(self.sym('R.pc', 32))
        if qn == 'ArmV6.condition_passed':
            return V(Int([self.B.var('COND')]))
        if qn == 'ArmV6.integer_zero_divide_trapping_enabled':
            return V(Int([self.B.var('CFG.zero_divide_trap')]))
        if qn == 'ArmV6.generate_integer_zero_divide':
            h.raises.append(('generate_integer_zero_divide', st.cond))
            it.outcomes.append(Outcome('raise', st.cond, 'stub:generate_integer_zero_divide', node, st.copy(), it.cur_func))
            st.cond = 0
            return V(NONE)
        return decode.MachinePolicy.call(self, it, target, recv, args, kwargs, node, st)

    # uninterpreted wide arithmetic -----------------------------------------------------------
    def _equal_on(self, it, a, b, care):
        if a.signed != b.signed:
            return False
        w = max(len(a.bits), len(b.bits))
        B = self.B
        for p, q in zip(it.ext(a, w), it.ext(b, w)):
            if p != q and B.AND(care, B.XOR(p, q)) != 0:
                return False
        return True

    def _pool(self, it, kind, x, y, width, signed, commutative):
        """The symbol standing for op(x, y).  Tree side: operands are compared on the current path
        condition (values outside it are merge artefacts); reference side: on the condition under which
        the tree computed the entry."""
        h = self.h
        care = 1 if h.ref_mode else getattr(it, 'op_cond', 1)
        for e in h.entries:
            if e['kind'] != kind or e['width'] != width or e['signed'] != signed:
                continue
            on = e['care'] if h.ref_mode else care
            for a, b in (((x, y),) + (((y, x),) if commutative else ())):
                if self._equal_on(it, a, e['x'], on) and self._equal_on(it, b, e['y'], on):
                    if not h.ref_mode:
                        e['care'] = self.B.OR(e['care'], care)
                    return e['sym']
        names = [n for n in h.pools[kind] if n not in h.used]
        if not names:
            raise Unsupported('more %s symbols needed than the harness allocated' % kind)
        name = names[0]
        h.used.add(name)
        full = sym_int(self.B, name, h.pool_width[kind])
        r = Int(full.bits[:width], signed)
        h.entries.append({'kind': kind, 'x': x, 'y': y, 'care': care, 'sym': r, 'width': width, 'signed': signed, 'name': name,
                          'by': 'reference' if h.ref_mode else 'tree'})
        h.symbols[name] = kind
        return r

    def symbolic_mul(self, it, x, y):
        x, y = it.trim(x), it.trim(y)
        w = len(x.bits) + len(y.bits)
        return self._pool(it, 'P', x, y, min(w, 64), x.signed or y.signed, True)

    def trunc_div(self, it, x, y):
        x, y = it.trim(x), it.trim(y)
        return self._pool(it, 'Q', x, y, 33, True, False)


class OpHarness:
    """One opcode class, ready to interpret.  `align` maps a register role to the bit offset it is
    added at (variable interleaving only; semantics unaffected)."""

    def __init__(self, repo, fr, clsname, align=None, products=2, fixed=None, top_roles=(), extra_words=(), abstract_shift=False):
        self.repo = repo
        self.fr = fr
        self.clsname = clsname
        self.ci = repo.cls(clsname)
        self.B = BDD()
        self.pol = OpPolicy(repo, self.B, self)
        self.it = Interp(repo, self.B, self.pol)
        self.fields = {}
        self.regname = {}
        self.reads, self.writes, self.raises = [], [], []
        self.entries, self.used, self.symbols = [], set(), {}
        self.ref_mode = False
        self.pools = {'P': ['P%d' % i for i in range(products + 1)], 'Q': ['Q0', 'Q1']}
        self.pool_width = {'P': 64, 'Q': 33}
        self.dom = 1
        self.fieldsyms = {}
        self.fixed = dict(fixed or {})
        self.top_roles = tuple(top_roles)
        self.extra_words = tuple(extra_words)
        self.datafields = []
        self.abstract_shift = abstract_shift
        self.shift_calls = []
        self._alloc(align or {})

    # -- variable order and field models ------------------------------------------------------
    def init_params(self):
        import ast
        out = []
        for c in self.ci.mro():
            i = c.methods.get('__init__')
            if i is None:
                continue
            for n in ast.walk(i.node):
                if isinstance(n, ast.Assign) and len(n.targets) == 1 and isinstance(n.targets[0], ast.Attribute) and \
                        ast.unparse(n.targets[0].value) == 'self' and isinstance(n.value, ast.Name):
                    if n.targets[0].attr not in [a for a, _ in out]:
                        out.append((n.targets[0].attr, n.value.id))
        return out

    def _alloc(self, align):
        B, it = self.B, self.it
        ranges = self.fr.for_abstract(self.clsname)
        pairs = [(a, p) for a, p in self.init_params() if a not in ('instruction', 'bitarray')]
        kw = dict(pairs)
        regroles = [a for a, _ in pairs if a in REG_ORDER]
        others = [a for a, _ in pairs if a not in REG_ORDER]
        align = dict({'d_hi': 32}, **align)
        B.var_index('COND')
        B.var_index('CFG.zero_divide_trap')
        for k in reversed(range(3)):
            B.var_index('ARCH[%d]' % k)
        # control fields on top
        for f in others:
            r = ranges.get(kw[f])
            if f in self.fixed:
                s = it.const(self.fixed[f])
                self.fields[f] = V(s)
                self.fieldsyms[f] = (s, None)
                continue
            if isinstance(r, Enumv):
                sel = sym_int(B, 'F.' + f, 3)
                members = sorted(r.members)
                order = [m for m in SRTYPES if m in members] + [m for m in members if m not in SRTYPES]
                cases = []
                cover = 0
                for i, m in enumerate(order):
                    c = it.i_eq(sel, it.const(i))
                    cases.append((c, ('enum', r.cls, m)))
                    cover = B.OR(cover, c)
                self.fields[f] = Value(cases)
                self.dom = B.AND(self.dom, cover)
                self.fieldsyms[f] = (sel, order)
            elif isinstance(r, Iv) and r.finite() and r.lo >= 0 and int(r.hi).bit_length() > 8:
                self.datafields.append((f, int(r.hi).bit_length(), r))
            elif isinstance(r, Iv) and r.finite() and r.lo >= 0:
                w = max(1, int(r.hi).bit_length())
                s = sym_int(B, 'F.' + f, w)
                self.fields[f] = V(s)
                vals = self.fr.values(self.clsname, kw[f], limit=64)
                if vals is not None:
                    self.dom = B.AND(self.dom, B.all_or(it.i_eq(s, it.const(v)) for v in sorted(vals)))
                else:
                    self.dom = B.AND(self.dom, B.NOT(it.i_lt(it.const(int(r.hi)), s)))
                    if r.lo > 0:
                        self.dom = B.AND(self.dom, B.NOT(it.i_lt(s, it.const(int(r.lo)))))
                self.fieldsyms[f] = (s, None)
            else:
                raise AnalysisError('%s.%s: no finite decode range (%r)' % (self.clsname, f, r))
        for r in self.top_roles:
            for k in reversed(range(32)):
                B.var_index('R.%s[%d]' % (r, k))
        for k in reversed(range(32)):
            B.var_index('processor.registers.cpsr.value[%d]' % k)
        # data words interleaved
        words = [('R.' + r, 32, align.get(r, 0)) for r in regroles if r not in self.top_roles]
        words += [('R.' + r, 32, 0) for r in self.extra_words]
        if self.abstract_shift:
            B.var_index('OP2C[0]')
            words += [('OP2', 32, 0)]
        words += [('F.' + f, w, 0) for f, w, _ in self.datafields]
        words += [(p, 64, 0) for p in self.pools['P']] + [(q, 33, 0) for q in self.pools['Q']]
        slots = []
        for name, w, off in words:
            for k in range(w):
                pos = (k - off[1]) % 32 if isinstance(off, tuple) else k + off
                slots.append((pos, name, k))
        for pos, name, k in sorted(slots, key=lambda s: (-s[0], s[1])):
            B.var_index('%s[%d]' % (name, k))
        for f, w, r in self.datafields:
            sy = sym_int(B, 'F.' + f, w)
            self.fields[f] = V(sy)
            self.fieldsyms[f] = (sy, None)
            if int(r.hi) != (1 << w) - 1:
                self.dom = B.AND(self.dom, B.NOT(it.i_lt(it.const(int(r.hi)), sy)))
        for i, r in enumerate(regroles):
            idx = i + 1
            self.fields[r] = V(it.const(idx))
            self.regname[idx] = r
        self.regroles = regroles
        self.arch_ok = decode.arch_constraint(it)
        self.dom = B.AND(self.dom, self.arch_ok)

    # -- accessors for reference models -----------------------------------------------------------
    def R(self, role):
        return sym_int(self.B, 'R.' + role, 32)

    def F(self, f):
        s = self.fieldsyms[f]
        return s[0]

    def enum_is(self, f, member):
        sel, order = self.fieldsyms[f]
        if member not in order:
            return 0
        return self.it.i_eq(sel, self.it.const(order.index(member)))

    def cpsr(self):
        return sym_int(self.B, 'processor.registers.cpsr.value', 32)

    def cond(self):
        return self.B.var('COND')

    def arch(self):
        return sym_int(self.B, 'ARCH', 3)

    # -- run ---------------------------------------------------------------------------------------
    def run(self):
        fi = self.ci.find_method('execute')
        selfobj = ('obj', 'self', self.clsname)
        proc = ('obj', 'processor', 'ArmV6')
        try:
            rets = self.it.run_function(fi, [V(selfobj), V(proc)], cond=self.dom)
        except Unsupported as u:
            raise AnalysisError('%s.execute outside the bit-vector idiom: %s' % (self.clsname, u))
        B, it = self.B, self.it
        self.returned = B.all_or(c for c, _, _ in rets)
        heap = None
        for c, v, s in rets:
            heap = dict(s.heap) if heap is None else it.merge_maps(c, s.heap, heap, s)
        self.heap = heap or {}
        self.prints = B.all_or(o.cond for o in it.outcomes if o.kind == 'print')
        self.raised = B.all_or(c for _, c in self.raises)
        self.hosterrors = [o for o in it.outcomes if o.kind in ('hosterror', 'unbound', 'assert_fail') and B.AND(o.cond, self.dom) != 0]
        return self

    def final_reg(self, role):
        v = self.heap.get('REG.' + role)
        return v if v is not None else V(self.R(role))

    def final_cpsr(self):
        v = self.heap.get('processor.registers.cpsr.value')
        return v if v is not None else V(self.cpsr())

    def describe(self, cond):
        """A readable witness for a non-empty condition."""
        B = self.B
        a = B.pick(cond)
        vals = {}
        out = {}
        for v, b in a.items():
            n = B.names[v]
            if '[' in n and n.endswith(']'):
                base, idx = n[:n.rindex('[')], int(n[n.rindex('[') + 1:-1])
                vals[base] = vals.get(base, 0) | (b << idx)
            else:
                out[n] = b
        for k, v in sorted(vals.items()):
            if k.startswith('F.') and self.fieldsyms.get(k[2:], (None, None))[1]:
                order = self.fieldsyms[k[2:]][1]
                out[k[2:]] = order[v] if v < len(order) else v
            elif k.startswith('F.'):
                out[k[2:]] = v
            elif k == 'processor.registers.cpsr.value':
                out['cpsr'] = hex(v)
            elif k in self.symbols or k[:1] in 'PQ' and k[1:].isdigit():
                if k in self.used:
                    out[k] = hex(v)
            else:
                out[k] = hex(v)
        return out
