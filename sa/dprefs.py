"""Reference models of the data-processing instructions (ARM ARM A8: ADC..TST, shifts, MOV/MVN,
ADR) over the symbols of an :class:`sa.opexec.OpHarness`; AddWithCarry is a ripple-carry adder
written out, Shift_C a per-(type, amount) wiring table."""
import re

from .bitdom import Int
from .oprefs import Outcome, X, setflag, N_BIT, Z_BIT, C_BIT, V_BIT

ARITH = {'Adc': ('n', 'op2', 'C'), 'Add': ('n', 'op2', 0), 'Sub': ('n', '~op2', 1), 'Sbc': ('n', '~op2', 'C'),
         'Rsb': ('~n', 'op2', 1), 'Rsc': ('~n', 'op2', 'C'), 'Cmp': ('n', '~op2', 1), 'Cmn': ('n', 'op2', 0)}
LOGIC = {'And': 'and', 'Eor': 'xor', 'Orr': 'or', 'Orn': 'orn', 'Bic': 'bic', 'Tst': 'and', 'Teq': 'xor'}
SHIFTS = {'Asr': 'ASR', 'Lsl': 'LSL', 'Lsr': 'LSR', 'Ror': 'ROR', 'Rrx': 'RRX'}
COMPARES = {'Cmp', 'Cmn', 'Tst', 'Teq'}


def awc(x, a, b, cin):
    B = x.B
    c = cin
    s = []
    cs = [c]
    for p, q in zip(a, b):
        s.append(B.XOR(B.XOR(p, q), c))
        c = B.OR(B.AND(p, q), B.AND(c, B.XOR(p, q)))
        cs.append(c)
    return s, cs[32], B.XOR(cs[32], cs[31])


def shifted(kind, b, k, carry):
    """(result bits, carry-out) of Shift_C for a constant amount k (b: 32 bits, LSB first)."""
    n = 32
    if k == 0:
        return list(b), carry
    if kind == 'LSL':
        ext = [0] * k + list(b)
        return ext[:n], (ext[n] if n < len(ext) else 0)
    if kind == 'LSR':
        ext = list(b) + [0] * (k + n)
        return ext[k:k + n], ext[k - 1]
    if kind == 'ASR':
        ext = list(b) + [b[n - 1]] * (k + n)
        return ext[k:k + n], ext[k - 1]
    if kind == 'ROR':
        m = k % n
        r = list(b[m:]) + list(b[:m])
        return r, r[n - 1]
    if kind == 'RRX':
        return list(b[1:]) + [carry], b[0]
    raise ValueError(kind)


def shift_c(x, value, types, amounts, carry):
    """types: [(cond, type name)], amounts: [(cond, k)] -> (Int result, carry bdd)."""
    B = x.B
    res, car = None, None
    vb = list(x.it.ext(value, 32))[:32]
    for tc, t in types:
        for ac, k in amounts:
            c = B.AND(tc, ac)
            if c == 0:
                continue
            r, cb = shifted(t, vb, 1 if t == 'RRX' else k, carry)
            res = Int(r) if res is None else x.ite(c, Int(r), res)
            car = cb if car is None else B.ite(c, cb, car)
    return res, car


def dp_model(mn, h_fields):
    def model(x):
        o = Outcome()
        h = x.h
        B = x.B
        it = x.it
        cpsr = h.cpsr().bits
        cin = cpsr[C_BIT]
        roles = h.regroles
        fields = h.fieldsyms
        # ---- second operand ------------------------------------------------------------------
        sh_carry = None
        if mn in SHIFTS:
            t = SHIFTS[mn]
            if 'shift_n' in fields:                # immediate shift of R[m]
                val = x.R('m')
                amounts = x.field_cases('shift_n')
            elif mn == 'Rrx':
                val = x.R('m')
                amounts = [(1, 1)]
            else:                                   # register shift: R[n] by R[m]<7:0>
                val = x.R('n')
                amt = Int(x.R('m').bits[0:8])
                amounts = [(x.eq(amt, k), k) for k in range(256)]
            result, sh_carry = shift_c(x, val, [(1, t)], amounts, cin)
            carry, ovf = sh_carry, None
        else:
            if 'imm32' in fields:
                op2 = Int(x.it.ext(h.F('imm32'), 32)[:32])
                sh_carry = h.F('carry').bits[0] if 'carry' in fields else None
            elif 'm' in roles and h.abstract_shift:
                op2, sh_carry = abstract_operand(x, o)
                if op2 is None:
                    return o
            elif 'm' in roles:
                rm = x.R('m')
                if 's' in roles:
                    amt = Int(x.R('s').bits[0:8])
                    amounts = [(x.eq(amt, k), k) for k in range(256)]
                    types = [(h.enum_is('shift_t', t), t) for t in h.fieldsyms['shift_t'][1]]
                    op2, sh_carry = shift_c(x, rm, types, amounts, cin)
                elif 'shift_t' in fields:
                    types = [(h.enum_is('shift_t', t), t) for t in h.fieldsyms['shift_t'][1]]
                    op2, sh_carry = shift_c(x, rm, types, x.field_cases('shift_n'), cin)
                else:
                    op2, sh_carry = rm, None
            else:
                raise ValueError('no second operand')
            if mn == 'Adr':
                base = Int([0, 0] + list(h.R('pc').bits[2:32]))
                add = h.F('add').bits[0]
                s1, _, _ = awc(x, base.bits, op2.bits, 0)
                s2, _, _ = awc(x, base.bits, [B.NOT(b) for b in op2.bits], 1)
                o.regs['d'] = x.ite(add, Int(s1), Int(s2))
                return o
            rn = x.R('n') if 'n' in roles else (h.R('r13') if mn in ARITH or mn in LOGIC else None)
            inv = lambda v: [B.NOT(b) for b in v.bits]
            if mn in ARITH:
                ra, rb, ci = ARITH[mn]
                a = inv(rn) if ra == '~n' else list(rn.bits)
                b = inv(op2) if rb == '~op2' else list(op2.bits)
                s, carry, ovf = awc(x, a, b, cin if ci == 'C' else ci)
                result = Int(s)
            elif mn in LOGIC:
                k = LOGIC[mn]
                b2 = inv(op2) if k in ('orn', 'bic') else list(op2.bits)
                f = {'and': B.AND, 'bic': B.AND, 'xor': B.XOR, 'or': B.OR, 'orn': B.OR}[k]
                result = Int([f(p, q) for p, q in zip(rn.bits, b2)])
                carry, ovf = sh_carry, None
            elif mn in ('Mov', 'Movw'):
                result = op2
                carry, ovf = sh_carry, None
            elif mn == 'Mvn':
                result = Int(inv(op2))
                carry, ovf = sh_carry, None
            else:
                raise ValueError(mn)
        if mn not in COMPARES:
            o.regs['d'] = Int(x.it.ext(result, 32)[:32])
        sf = h.F('setflags').bits[0] if 'setflags' in fields else 1
        rb = x.it.ext(result, 32)[:32]
        setflag(o, N_BIT, rb[31], sf)
        setflag(o, Z_BIT, B.NOT(B.all_or(rb)), sf)
        if carry is not None:
            setflag(o, C_BIT, carry, sf)
        if ovf is not None:
            setflag(o, V_BIT, ovf, sf)
        return o
    return model


def abstract_operand(x, o):
    """Second operand under the compositional treatment of the shifter: the body must apply shift / shift_c exactly
    once, to (R[m], 32, shift_t, shift_n | R[s]<7:0>, APSR.C); its result is the shared symbol pair (OP2, OP2C)."""
    from .bitdom import V, Value
    from . import spec as specmod
    h = x.h
    it = x.it
    B = x.B
    roles = h.regroles
    fields = h.fieldsyms
    if 'shift_t' not in fields and 's' not in roles:
        return x.R('m'), None            # plain register operand, no shifter
    o.shifter_problem = None
    if len(h.shift_calls) != 1:
        o.shifter_problem = 'the second operand is not produced by exactly one application of Shift / Shift_C'
        return None, None
    qn, args, cond = h.shift_calls[0]
    want = [V(x.R('m')), V(it.const(32)), h.fields['shift_t'],
            V(Int(x.R('s').bits[0:8])) if 's' in roles else h.fields['shift_n'], None]
    names = ['value', 'width', 'type', 'amount', 'carry_in']
    dom = B.AND(h.dom, cond)
    for i, (a, w) in enumerate(zip(args, want)):
        if i == 4:
            c = a.single()
            ok = isinstance(c, Int) and B.AND(dom, B.XOR(it.i_truth(c), h.cpsr().bits[C_BIT])) == 0
            if not ok:
                o.shifter_problem = 'the shifter carry-in is not APSR.C'
        else:
            r = specmod.diff_values(it, dom, a, w, names[i])
            if r is not None:
                o.shifter_problem = 'shifter argument `%s` is not the architectural one: %s' % (names[i], r[0][:160])
        if o.shifter_problem:
            return None, None
    op2 = h.pol.sym('OP2', 32)
    car = h.pol.sym('OP2C', 1).bits[0] if qn == 'shift_c' else None
    return op2, car


def harness_options(ci_name, mn, fields):
    """(top_roles, extra_words) for the variable order / symbols of a data-processing class."""
    top = []
    if 's' in fields and mn in SHIFTS:
        top.append('s')
    if mn in SHIFTS and mn != 'Rrx' and 'shift_n' not in fields:
        top.append('m')
    extra = []
    if 'n' not in fields and (mn in ARITH or mn in LOGIC):
        extra.append('r13')
    if mn == 'Adr':
        extra.append('pc')
    return tuple(top), tuple(extra)


def wants_abstract_shift(mn, fields):
    return mn not in SHIFTS and 'm' in fields
