"""M4 (part 1) - interprocedural effect summaries for ArmV6 / Registers methods.

For every method: the transitive set of architectural state written, exception
classes raised, mock hooks reached, computed bottom-up over the resolved call
graph (iterated to a fixpoint, so the stage-1/stage-2 walk cycle is handled).
"""
import ast

from .flow import Walker, MEM_READ, MEM_WRITE, BRANCH
from .report import AnalysisError

EVENT_CALLEE = {
    'RegWrite': ('Registers', 'set'), 'RmodeWrite': ('Registers', 'set_rmode'),
    'SpsrWrite': ('Registers', 'set_spsr'), 'CpsrWriteByInstr': ('Registers', 'cpsr_write_by_instr'),
    'SpsrWriteByInstr': ('Registers', 'spsr_write_by_instr'), 'SelectISet': ('Registers', 'select_instr_set'),
    'BranchTo': ('Registers', 'branch_to'), 'ItAdvance': ('Registers', 'it_advance'),
}
INV_MEM = {v: k for k, v in MEM_READ.items()}
INV_MEMW = {v: k for k, v in MEM_WRITE.items()}
INV_BRANCH = {v: k for k, v in BRANCH.items()}


class Summary:
    def __init__(self):
        self.writes = set()
        self.raises = set()
        self.calls = set()
        self.hooks = set()
        self.prints = False
        self.is_hook = False
        self.asserts = False

    def pure(self):
        return not self.writes and not self.raises and not self.hooks

    def as_dict(self):
        return {'writes': sorted(self.writes), 'raises': sorted(self.raises), 'hooks': sorted(self.hooks),
                'prints': self.prints}


class Effects:
    def __init__(self, repo):
        self.repo = repo
        self.direct = {}
        self.trans = {}
        self.traces = {}
        self._build()

    def _is_hook(self, fi):
        body = [s for s in fi.node.body if not (isinstance(s, ast.Expr) and isinstance(s.value, ast.Constant))]
        return (len(body) == 1 and isinstance(body[0], ast.Raise) and body[0].exc is not None
                and 'NotImplementedError' in ast.unparse(body[0].exc))

    def _walk_class(self, clsname, prefix):
        ci = self.repo.cls(clsname)
        for c in ci.mro():
            for name, fi in list(c.methods.items()) + list(c.getters.items()):
                key = (clsname, name)
                if key in self.direct:
                    continue
                w = _SelfWalker(self.repo, clsname, prefix)
                tr = w.walk(fi, ci)
                self.traces[key] = tr
                s = Summary()
                s.is_hook = self._is_hook(fi)
                if s.is_hook:
                    s.hooks.add(name)
                for ev in tr.events:
                    k = ev.kind
                    if k == 'FlagWrite':
                        s.writes.add('cpsr.' + ev.d['flag'])
                    elif k == 'SysWrite':
                        s.writes.add('registers.' + ev.d['path'])
                    elif k == 'ProcStore':
                        s.writes.add(ev.d['path'])
                    elif k == 'ItemStore':
                        s.writes.add(_base_path(ev.d['base']) + '[]')
                    elif k == 'Raise':
                        if not s.is_hook:
                            s.raises.add(ev.d['exc'])
                    elif k in ('Unpredictable', 'Print'):
                        s.prints = True
                    elif k == 'Assert':
                        s.asserts = True
                    elif k in EVENT_CALLEE:
                        s.calls.add(EVENT_CALLEE[k])
                    elif k == 'TakeException':
                        s.calls.add(('Registers', ev.d['which']))
                    elif k == 'MemRead':
                        s.calls.add(('ArmV6', INV_MEM[ev.d['kind']]))
                    elif k == 'MemWrite':
                        s.calls.add(('ArmV6', INV_MEMW[ev.d['kind']]))
                    elif k == 'Branch':
                        s.calls.add(('ArmV6', INV_BRANCH[ev.d['kind']]))
                    elif k == 'ProcCall':
                        recv = ev.d['recv']
                        if recv == '':
                            s.calls.add(('ArmV6', ev.d['method']))
                        elif recv == 'registers':
                            s.calls.add(('Registers', ev.d['method']))
                        else:
                            s.calls.add(('path:' + recv, ev.d['method']))
                self.direct[key] = s

    def _build(self):
        self._walk_class('ArmV6', [])
        self._walk_class('Registers', ['registers'])
        # fixpoint
        for k, s in self.direct.items():
            t = Summary()
            t.writes |= s.writes
            t.raises |= s.raises
            t.hooks |= s.hooks
            t.calls |= s.calls
            t.prints = s.prints
            t.is_hook = s.is_hook
            t.asserts = s.asserts
            self.trans[k] = t
        changed = True
        while changed:
            changed = False
            for k, t in self.trans.items():
                for c in list(t.calls):
                    u = self.trans.get(c)
                    if u is None:
                        continue
                    n = (len(t.writes), len(t.raises), len(t.hooks), len(t.calls), t.prints)
                    t.writes |= u.writes
                    t.raises |= u.raises
                    t.hooks |= u.hooks
                    t.calls |= u.calls
                    t.prints = t.prints or u.prints
                    if n != (len(t.writes), len(t.raises), len(t.hooks), len(t.calls), t.prints):
                        changed = True

    def summary(self, clsname, method):
        return self.trans.get((clsname, method))

    def summary_for_path(self, recv, method):
        # methods on register views / hub reached through a path (e.g. registers.nsacr.get_cp_n)
        return None

    def reachable(self, roots):
        seen = set()
        stack = list(roots)
        while stack:
            k = stack.pop()
            if k in seen:
                continue
            seen.add(k)
            s = self.direct.get(k)
            if s:
                stack.extend(s.calls)
        return seen


def _base_path(t):
    if t[0] == 'sys':
        return 'registers.' + t[1]
    if t[0] == 'procattr':
        return t[1]
    if t[0] == 'getattr':
        return _base_path(t[1]) + '.' + t[2]
    return '?' + t[0]


class _SelfWalker(Walker):
    """Walker for methods of ArmV6 / Registers themselves: ``self`` is the processor (or
    its registers object, in which case attribute chains get the 'registers' prefix)."""

    def __init__(self, repo, clsname, prefix):
        Walker.__init__(self, repo, None, proc_name='self', proc_cls=clsname)
        self.prefix = list(prefix)

    def attr_path(self, e, env):
        p = Walker.attr_path(self, e, env)
        if p is not None and p[0] == 'proc':
            return 'proc', self.prefix + p[1]
        return p
