from .decode_check import main_for


def main(repo_path, tier, seed, replay=None):
    return main_for('C06', ['ARM'], repo_path, tier, seed)
