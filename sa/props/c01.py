"""C01 - data-processing instructions: result, flags, PC destination, frame.

For the 69 data-processing opcode classes (bound through the reference encodings, family =
mnemonic of the encoding):

  C01-G  guard: all effects under condition_passed() (C05-G re-evaluated on these classes).
  C01-F  frame: effects are a subset of {R[d], PC via alu_write_pc, N, Z, C, V}; compare/test
         forms write only flags; V only by arithmetic forms; nothing else (no memory, no other
         register, no Q/GE/mode) - callee effects included through effect summaries.
  C01-A  ALU core role table: the value written to R[d] (and to the PC) is, after
         normalisation (aliases, tuple unpacking, shift == shift_c[0], commutativity), the
         family's core term - ADD AWC(Rn, op2, 0), ADC AWC(Rn, op2, C), SUB AWC(Rn, ~op2, 1),
         SBC AWC(Rn, ~op2, C), RSB AWC(~Rn, op2, 1), RSC AWC(~Rn, op2, C), AND &, EOR ^, ORR |,
         ORN |~, BIC &~, MOV op2, MVN ~op2, shifts Shift_C(Rm, type, amount, C) - with op2 =
         imm32 or Shift(_C)(Rm, shift_t, shift_n | Rs[7:0], C); N := result[31], Z := result == 0,
         C := AWC carry (arithmetic) / shifter or immediate carry (logical), V := AWC overflow.
  C01-O  every operand read precedes every register write (also the soundness condition of C01-V's distinct-index harness).
  C01-S  setflags dominance: flag writes of non-compare forms are dominated by self.setflags.
  C01-P  PC destination: where the decode layer lets d be 15, R[d] is written only on the
         d != 15 side and the d == 15 side performs exactly alu_write_pc(result), no flags.
  C01-W  width of results (C10-W re-evaluated on these classes).
  C01-V  value: every body interpreted in the bit-vector domain (sa/opexec.py) with symbolic operands, immediate,
         shifter carry, CPSR and setflags, and R[d], N, Z, C, V compared bit for bit with the pseudocode reference
         (sa/dprefs.py: ripple-carry AddWithCarry, per-amount Shift_C wiring); where a register operand goes through the
         shifter, the shifter application is checked argument by argument and its result is a shared symbol pair
         (compositional; the shifter itself is C01-H).  d == 15 is C01-P.
  C01-H  AddWithCarry, Shift_C (all types, every amount incl. carry-out) and the expand-immediate
         helpers are bit-exact (C17-A re-evaluated here: the role table is stated in their terms).
"""
import re

from ..binding import Binding
from ..effects import Effects
from ..fields import FieldRanges
from ..flow import Walker, guard_has, fmt, subterms
from ..ranges import FuncAnalyzer
from ..report import Run, AnalysisError
from ..srcmodel import Repo, norm_stmt
from . import c10
from .c05 import effect_events, is_condition_passed

ARITH = {'Adc': ('n', 'op2', 'C'), 'Add': ('n', 'op2', 0), 'Sub': ('n', '~op2', 1), 'Sbc': ('n', '~op2', 'C'),
         'Rsb': ('~n', 'op2', 1), 'Rsc': ('~n', 'op2', 'C'), 'Cmp': ('n', '~op2', 1), 'Cmn': ('n', 'op2', 0)}
LOGIC = {'And': ('BitAnd', 'n', 'op2'), 'Eor': ('BitXor', 'n', 'op2'), 'Orr': ('BitOr', 'n', 'op2'),
         'Orn': ('BitOr', 'n', '~op2'), 'Bic': ('BitAnd', 'n', '~op2'), 'Tst': ('BitAnd', 'n', 'op2'), 'Teq': ('BitXor', 'n', 'op2')}
MOVES = {'Mov': 'op2', 'Mvn': '~op2', 'Movw': 'op2'}
SHIFTS = {'Asr': 'ASR', 'Lsl': 'LSL', 'Lsr': 'LSR', 'Ror': 'ROR', 'Rrx': 'RRX'}
COMPARES = {'Cmp', 'Cmn', 'Tst', 'Teq'}
MNEMONIC = re.compile(r'^(Adc|Add|Adr|And|Asr|Bic|Cmn|Cmp|Eor|Lsl|Lsr|Movw|Mov|Mvn|Orn|Orr|Ror|Rrx|Rsb|Rsc|Sbc|Sub|Teq|Tst)'
                      r'(Immediate|Register|SpPlus|SpMinus|A\d|T\d)')


def dp_classes(repo, bind):
    out = {}
    for enc, cname in bind.enc2cls.items():
        m = MNEMONIC.match(enc)
        if not m or enc.startswith(('SubsPcLr', 'AddwImmediate')):
            continue
        a = bind.abstract_of_encoding(enc)
        if a is None:
            continue
        out.setdefault(a.name, (a, set(), set()))
        out[a.name][1].add(m.group(1))
        out[a.name][2].add(enc)
    return out


# ---------------------------------------------------------------------------
# term normalisation
# ---------------------------------------------------------------------------
def norm(t):
    if not isinstance(t, tuple):
        return t
    k = t[0]
    if k == 'call':
        args = tuple(norm(a) for a in t[2])
        if t[1] == 'shift':
            return ('proj', ('call', 'shift_c', args), 0)
        if t[1] == 'substring' and len(args) == 3 and args[1] == ('const', 7) and args[2] == ('const', 0):
            return ('call', 'lower_chunk', (args[0], ('const', 8)))
        if t[1] == 'add_with_carry':
            a, b = sorted(args[:2], key=repr)
            return ('call', 'add_with_carry', (a, b) + args[2:])
        return ('call', t[1], args)
    if k == 'op' and t[1] in ('BitAnd', 'BitOr', 'BitXor'):
        a, b = sorted((norm(t[2]), norm(t[3])), key=repr)
        return ('op', t[1], a, b)
    if k == 'builtin' and t[1] == 'int' and len(t[2]) == 1:
        return norm(t[2][0])
    if k in ('and', 'or'):
        return (k, [norm(x) for x in t[1]])
    return tuple(norm(x) if isinstance(x, tuple) else x for x in t)


C = ('flag', 'c')


def rn_term(fields):
    return ('reg', ('field', 'n')) if 'n' in fields else ('reg', ('const', 13))


def op2_terms(fields):
    """Admissible second operands, each as (value term, shifter-carry term or None)."""
    out = []
    if 'imm32' in fields:
        out.append((('field', 'imm32'), ('field', 'carry') if 'carry' in fields else None))
    if 'm' in fields:
        rm = ('reg', ('field', 'm'))
        if 's' in fields:
            amt = ('call', 'lower_chunk', (('reg', ('field', 's')), ('const', 8)))
            sc = ('call', 'shift_c', (rm, ('const', 32), ('field', 'shift_t'), amt, C))
            out.append((('proj', sc, 0), ('proj', sc, 1)))
        elif 'shift_t' in fields:
            sc = ('call', 'shift_c', (rm, ('const', 32), ('field', 'shift_t'), ('field', 'shift_n'), C))
            out.append((('proj', sc, 0), ('proj', sc, 1)))
        else:
            out.append((rm, None))
    return out


def bnot(t):
    return ('call', 'bit_not', (t, ('const', 32)))


def role(r, rn, op2):
    return {'n': rn, '~n': bnot(rn), 'op2': op2, '~op2': bnot(op2)}[r]


def expected_cores(mn, fields):
    """List of (result term, carry term, overflow term or None) admissible for this mnemonic."""
    rn = rn_term(fields)
    out = []
    if mn in ARITH:
        x, y, cin = ARITH[mn]
        for op2, _ in op2_terms(fields):
            a, b = sorted((norm(role(x, rn, op2)), norm(role(y, rn, op2))), key=repr)
            awc = ('call', 'add_with_carry', (a, b, C if cin == 'C' else ('const', cin)))
            out.append((('proj', awc, 0), ('proj', awc, 1), ('proj', awc, 2)))
    elif mn in LOGIC:
        op, x, y = LOGIC[mn]
        for op2, carry in op2_terms(fields):
            a, b = sorted((norm(role(x, rn, op2)), norm(role(y, rn, op2))), key=repr)
            out.append((('op', op, a, b), carry, None))
    elif mn in MOVES:
        for op2, carry in op2_terms(fields):
            out.append((norm(role(MOVES[mn], rn, op2)), carry, None))
    elif mn in SHIFTS:
        rm = ('reg', ('field', 'm'))
        if mn == 'Rrx':
            amt = ('const', 1)
        elif 'shift_n' in fields:
            amt = ('field', 'shift_n')
        else:
            amt = ('call', 'lower_chunk', (('reg', ('field', 'm')), ('const', 8)))
            rm = ('reg', ('field', 'n'))
        sc = ('call', 'shift_c', (rm, ('const', 32), ('enum', 'SRType', SHIFTS[mn]), amt, C))
        out.append((('proj', sc, 0), ('proj', sc, 1), None))
    elif mn == 'Adr':
        base = ('call', 'align', (('pc',), ('const', 4)))
        out.append((('ite', ('field', 'add'), ('call', 'add', (base, ('field', 'imm32'), ('const', 32))),
                     ('call', 'sub', (base, ('field', 'imm32'), ('const', 32)))), None, None))
    return out


def init_fields(ci):
    import ast
    out = set()
    for c in ci.mro():
        i = c.methods.get('__init__')
        if i is None:
            continue
        for n in ast.walk(i.node):
            if isinstance(n, ast.Attribute) and isinstance(n.ctx, ast.Store) and ast.unparse(n.value) == 'self':
                out.add(n.attr)
    return out


def is_zero_test(t, result):
    """Z flag source: `0 if result else 1` or `result == 0`-style."""
    t = norm(t)
    if t[0] == 'ite' and norm(t[1]) == result and t[2] == ('const', 0) and t[3] == ('const', 1):
        return True
    if t[0] == 'cmp' and t[1] == 'Eq' and {repr(norm(t[2])), repr(norm(t[3]))} == {repr(result), repr(('const', 0))}:
        return True
    if t[0] == 'builtin' and t[1] == 'int' and len(t[2]) == 1:
        return is_zero_test(t[2][0], result)
    if t[0] == 'not' and norm(t[1]) == result:
        return True
    return False


def check_class(run, repo, eff, fr, ci, mns, encs):
    tr = Walker(repo, eff).walk(ci.methods['execute'], ci)
    fn = ci.name + '.execute'
    fields = init_fields(ci)
    compare = bool(mns & COMPARES)
    mn = sorted(mns)[0]
    ok = True

    def bad(rule, construct, msg):
        nonlocal ok
        ok = False
        run.violation(rule, ci.relpath, fn, construct, msg)
    if len(mns) != 1:
        bad('C01-A', 'mnemonic', 'the class serves encodings of different instructions %s' % sorted(mns))
        return
    effs = effect_events(tr)
    # ---- G ----
    for e in effs:
        if not guard_has(e.guards, is_condition_passed, True):
            bad('C01-G', 'unguarded ' + e.kind, 'effect `%s` is not dominated by condition_passed()' % e.text())
    # ---- F ----
    arithmetic = mn in ARITH
    for e in effs:
        if e.kind == 'RegWrite':
            if compare or e.d['idx'] not in (('field', 'd'), ('const', 13)):
                bad('C01-F', 'register write', 'writes R[%s]; %s' % (fmt(e.d['idx']), 'a compare/test instruction writes no register'
                                                                       if compare else 'only the destination register may be written'))
        elif e.kind == 'Branch':
            if e.d['kind'] != 'alu' or compare:
                bad('C01-F', 'branch', 'PC written through %s_write_pc (data-processing instructions use alu_write_pc only)' % e.d['kind'])
        elif e.kind == 'FlagWrite':
            if e.d['flag'] not in ('n', 'z', 'c', 'v'):
                bad('C01-F', 'flag ' + e.d['flag'], 'writes CPSR.%s: outside the N,Z,C,V frame of a data-processing instruction' % e.d['flag'])
            elif e.d['flag'] == 'v' and not arithmetic:
                bad('C01-F', 'flag v', 'a logical / move / shift instruction must leave V unchanged')
        else:
            bad('C01-F', e.kind, 'effect outside the frame {R[d], PC, N, Z, C, V}: %s `%s`' % (e.kind, e.text()))
    # ---- A ----
    cores = expected_cores(mn, fields)
    if not cores:
        raise AnalysisError('no reference core for %s (%s)' % (ci.name, mn))
    vals = [norm(e.d['value']) for e in tr.of('RegWrite')] + [norm(e.d['target']) for e in tr.of('Branch')]
    flag = {f: [e for e in tr.of('FlagWrite') if e.d['flag'] == f] for f in 'nzcv'}
    result = None
    chosen = None
    if compare:
        # result is what N is derived from
        for core in cores:
            if any(norm(e.d['value']) == ('call', 'bit_at', (core[0], ('const', 31))) for e in flag['n']):
                chosen = core
    else:
        for core in cores:
            if vals and all(v == core[0] for v in vals):
                chosen = core
    if chosen is None:
        shown = fmt(vals[0]) if vals else (fmt(flag['n'][0].d['value']) if flag['n'] else '-')
        bad('C01-A', 'ALU core', 'the computed result `%s` is not the %s core term (expected e.g. %s)' % (
            shown[:160], mn.upper(), fmt(cores[0][0])[:160]))
    else:
        result, carry, ovf = chosen
        if not compare and not vals:
            bad('C01-A', 'destination', 'the result is never written to R[d]')
        want_n = ('call', 'bit_at', (result, ('const', 31)))
        for e in flag['n']:
            if norm(e.d['value']) != want_n:
                bad('C01-A', 'N flag', 'N must be result[31]; found %s' % fmt(e.d['value'])[:120])
        for e in flag['z']:
            if not is_zero_test(e.d['value'], result):
                bad('C01-A', 'Z flag', 'Z must be (result == 0); found %s' % fmt(e.d['value'])[:120])
        for e in flag['c']:
            if carry is None or norm(e.d['value']) != carry:
                bad('C01-A', 'C flag', 'C must be %s; found %s' % (
                    'the AddWithCarry carry' if arithmetic else 'the shifter / immediate carry-out', fmt(e.d['value'])[:120]))
        for e in flag['v']:
            if ovf is None or norm(e.d['value']) != ovf:
                bad('C01-A', 'V flag', 'V must be the AddWithCarry overflow; found %s' % fmt(e.d['value'])[:120])
        need = ['n', 'z'] + (['c'] if carry is not None else []) + (['v'] if ovf is not None else [])
        if 'setflags' in fields or compare:
            for f in need:
                if not flag[f]:
                    bad('C01-A', '%s flag missing' % f.upper(), '%s is never updated although the instruction sets flags' % f.upper())
    # ---- S ----
    for f in 'nzcv':
        for e in flag[f]:
            if not compare and not guard_has(e.guards, lambda t: t == ('field', 'setflags'), True):
                bad('C01-S', 'flag %s without setflags' % f, 'CPSR.%s is written on a path not dominated by self.setflags' % f.upper())
    # ---- O: operands are read before anything is written (Rd == Rn / Rm / Rs reads the old value) ----
    from ..flow import stale_reads
    for e, w in stale_reads(tr)[:1]:
        bad('C01-O', 'read of R[%s] after write of R[%s]' % (fmt(e.d['idx']), fmt(w.d['idx'])),
            'an operand register is read after the destination was written: with Rd == R%s the new value is used' % fmt(e.d['idx']))
    # ---- P ----
    if not compare:
        d15 = 'd' in fields and fr.feasible(ci.name, {'d': 15})
        is15 = lambda t: t == ('cmp', 'Eq', ('field', 'd'), ('const', 15))
        if d15:
            for e in tr.of('RegWrite'):
                if e.d['idx'] == ('field', 'd') and not guard_has(e.guards, is15, False):
                    bad('C01-P', 'R[d] write with d == 15', 'the decode layer accepts d == 15 for %s but R[d] is written without a '
                        'd != 15 test (AssertionError; the PC must be written through alu_write_pc)' % sorted(encs)[0])
            br = tr.of('Branch')
            if not br:
                bad('C01-P', 'missing PC path', 'd == 15 is accepted but there is no alu_write_pc(result) path')
            for e in br:
                if not guard_has(e.guards, is15, True):
                    bad('C01-P', 'alu_write_pc guard', 'alu_write_pc is not on the d == 15 side')
            for f in 'nzcv':
                for e in flag[f]:
                    if guard_has(e.guards, is15, True):
                        bad('C01-P', 'flags on PC path', 'flags are written on the d == 15 path')
    run.instance('C01-A', ci.name, obligations=8, ok=ok,
                 sample={'class': ci.name, 'mnemonic': mn, 'encodings': sorted(encs), 'core': fmt(cores[0][0])[:120]})


def _judge_mutant(run, mrepo, name, ctx):
    from .. import dprefs
    from . import c09
    ci, mns, encs = ctx['classes'][name]
    mci = mrepo.cls(name)
    check_class(run, mrepo, ctx['eff'], ctx['fr'], mci, mns, encs)
    if not run.findings and len(mns) == 1:
        mn = sorted(mns)[0]
        fields = init_fields(mci)
        top, extra = dprefs.harness_options(name, mn, fields)
        c09.check_variant(run, mrepo, ctx['fr'], mci, dprefs.dp_model(mn, fields), {}, None, rule='C01-V', top_roles=top,
                          extra_words=extra, abstract_shift=dprefs.wants_abstract_shift(mn, fields))


def main(repo_path, tier, seed, replay=None):
    run = Run('C01', tier, level='other', seed=seed)
    repo = Repo(repo_path)
    eff = Effects(repo)
    bind = Binding(repo)
    fa = FuncAnalyzer(repo)
    fr = FieldRanges(repo, fa)
    classes = dp_classes(repo, bind)
    for name, (ci, mns, encs) in sorted(classes.items()):
        check_class(run, repo, eff, fr, ci, mns, encs)
    run.floor('data-processing opcode classes', len(classes), 66)
    # V: bit-exact value comparison with the pseudocode reference (M7); the shifter enters as a shared symbol pair whose
    # arguments are compared (compositional: Shift_C itself is C01-H / C17-A)
    from .. import dprefs
    from . import c09
    nv = 0
    for name, (ci, mns, encs) in sorted(classes.items()):
        if len(mns) != 1:
            continue
        mn = sorted(mns)[0]
        fields = init_fields(ci)
        top, extra = dprefs.harness_options(name, mn, fields)
        before = len(run.findings)
        nob, vok = c09.check_variant(run, repo, fr, ci, dprefs.dp_model(mn, fields), {}, None, rule='C01-V', top_roles=top,
                                     extra_words=extra, abstract_shift=dprefs.wants_abstract_shift(mn, fields))
        nv += 1
        run.instance('C01-V', name, obligations=nob, ok=vok, sample={'class': name, 'mnemonic': mn})
    run.floor('data-processing classes compared bit for bit', nv, 66)
    # W: widths on these classes
    sub = Run('tmp')
    c10.check_widths(sub, repo, eff, fr, fa, rule='C01-W', select=None)
    names = set(classes)
    for f in sub.findings:
        if f.func.split('.')[0] in names:
            run.violation('C01-W', f.file, f.func, f.construct, f.message, f.detail)
    run.instance('C01-W', 'widths of data-processing results', obligations=len(names), ok=True, sample={'classes': len(names)})
    # P (continued): ALUWritePC itself - interworking only on ARMv7 in ARM state (C04-W table re-evaluated)
    from . import c04
    sub = Run('tmp')
    c04.check_write_pc(sub, repo)
    bad = [f for f in sub.findings if 'alu_write_pc' in f.func or 'bx_write_pc' in f.func or 'branch_write_pc' in f.func]
    for f in bad:
        run.violation('C01-P', f.file, f.func, f.construct, f.message, f.detail)
    run.instance('C01-P', 'ALUWritePC table', obligations=3, ok=not bad, sample={'function': 'ArmV6.alu_write_pc'})
    # H: the helpers the role table is stated in terms of compute the architectural numbers (C17-A re-evaluated)
    from . import c17_arith
    sub = Run('tmp')
    c17_arith.check_arith(sub, repo)
    used = ('add_with_carry', 'shift_c', 'shift', 'arm_expand_imm', 'thumb_expand_imm', 'lsl_c', 'lsr_c', 'asr_c', 'ror_c', 'arm_expand_imm_c', 'thumb_expand_imm_c')
    hb = [f for f in sub.findings if f.func in used]
    for f in hb:
        run.violation('C01-H', f.file, f.func, f.construct, f.message, f.detail)
    run.instance('C01-H', 'AddWithCarry / Shift_C / expand-immediate bit-exact', obligations=len(used), ok=not hb, sample={'helpers': list(used)})
    # positive control: SBC passes carry-in 1 (in memory)
    fired = False
    what = ''
    for name, (ci, mns, encs) in sorted(classes.items()):
        if mns == {'Sbc'} and 'processor.registers.cpsr.c)' in ci.module.source:
            src = ci.module.source
            i = src.rfind('processor.registers.cpsr.c)')
            mutated = src[:i] + '1)' + src[i + len('processor.registers.cpsr.c)'):]
            mrepo = Repo(repo_path, overrides={ci.module.relpath: mutated})
            tmp = Run('C01')
            check_class(tmp, mrepo, eff, fr, mrepo.cls(ci.name), mns, encs)
            fired = bool(tmp.findings)
            what = '%s: AddWithCarry carry-in replaced by the constant 1' % ci.name
            break
    run.control('C01-A SBC carry-in', fired, what)
    if tier == 'thorough':
        from ..selftest import run_selftest
        targets = [(name, ci.module.relpath, ci.module.source, name + '.execute') for name, (ci, mns, encs) in sorted(classes.items())]
        run_selftest(run, repo_path, 'C01', targets, _judge_mutant, {'fr': fr, 'eff': eff, 'classes': classes}, per_function=8, floor=75, seconds=12)
    run.exhaustive = True
    run.undecided = []
    run.assumptions = ['families are bound through the reference encodings (spec/enc_*.json); operand decoding is C06/C07']
    return run.finish(
        'C01: each of the data-processing execute() bodies is reduced to an effect trace with normalised value terms and compared '
        'with the role table of its instruction (which operand is inverted, which carry-in, which helper result feeds which flag), '
        'plus frame, setflags dominance, the joint PC-destination rule against the decode model, guard and width rules, and the helpers '
        'themselves (AddWithCarry, Shift_C, expand-immediate) are compared bit for bit with gate-level references; C01-V compares the '
        'final R[d] and NZCV of every body bit for bit with a pseudocode reference for all operand values at once. These hold '
        'for every operand value, flag state, shift amount and mode because they are properties of all paths of the loop-free body.',
        './check C01 --tier %s' % tier)
