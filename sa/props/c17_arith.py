"""C17-A - arithmetic primitives, bit-exact.

The helpers whose results every data-processing, load/store and saturating instruction is built
from are interpreted in the bit-vector domain with fully symbolic arguments (operands interleaved
bit by bit so that adders stay linear) and compared with references that are *wiring only*:
  add_with_carry   ripple-carry adder written out gate by gate; carry = c32, overflow = c32 ^ c31
  lsl_c/lsr_c/asr_c/ror_c   for every constant amount 1..255 the result and the carry-out are a
                   fixed selection of input bits (A2.2.1); shift_c / shift compose them
  arm_expand_imm_c / thumb_expand_imm_c   for each of the 16 / 24 rotations a fixed wiring
  signed_sat_q / unsigned_sat_q   for every N in 1..32 (0..32): clamp and saturation flag
  to_signed / to_unsigned / sign_extend / add / sub / bit_count / lowest_set_bit_ref /
  is_ones / align
"""
from .. import spec as specmod
from ..bdd import BDD
from ..bitdom import Interp, Int, V, Value, Tup, Policy, sym_int

BO, SH = 'armulator.armv6.bits_ops', 'armulator.armv6.shift'


class P(Policy):
    uninterpreted = frozenset()


def interleaved(B, names, w):
    for i in reversed(range(w)):
        for n in names:
            B.var_index('%s[%d]' % (n, i))
    return [sym_int(B, n, w) for n in names]


class H:
    def __init__(self, run, repo):
        self.run = run
        self.repo = repo

    def call(self, mod, fname, mk):
        B = BDD()
        it = Interp(self.repo, B, P())
        fi = self.repo.func(mod, fname)
        args = mk(B, it)
        rets = it.run_function(fi, [a if isinstance(a, Value) else V(a) for a in args])
        val = Value(it.coalesce([(B.AND(c, cc), p) for c, v, s in rets for cc, p in v.cases]))
        returned = B.all_or(c for c, _, _ in rets)
        return B, it, fi, args, val, returned

    def expect(self, construct, fi, B, it, val, want, what, cond=1, returned=1):
        ok = True
        miss = B.AND(cond, B.NOT(returned))
        if miss != 0:
            self.run.violation('C17-A', fi.relpath, fi.qualname, construct + ' (completion)', '%s: no result for some arguments, e.g. %s' % (
                what, witness(B, miss)))
            ok = False
        r = specmod.diff_values(it, B.AND(cond, returned), val, want if isinstance(want, Value) else V(want), what)
        if r is not None:
            self.run.violation('C17-A', fi.relpath, fi.qualname, construct, '%s: %s; e.g. %s' % (what, r[0][:200], witness(B, r[1])))
            ok = False
        for o in it.outcomes:
            if o.kind in ('unbound', 'hosterror') and B.AND(o.cond, cond) != 0:
                self.run.violation('C17-A', fi.relpath, fi.qualname, construct + ' host error', '%s can fail: %s %s' % (what, o.kind, o.payload))
                ok = False
        return ok


def witness(B, cond):
    a = B.pick(cond)
    vals = {}
    for v, b in a.items():
        n = B.names[v]
        if '[' in n:
            base, idx = n[:n.rindex('[')], int(n[n.rindex('[') + 1:-1])
            vals[base] = vals.get(base, 0) | (b << idx)
        else:
            vals[n] = b
    return {k: hex(v) for k, v in sorted(vals.items())}


def shifted(kind, x, k, n=32):
    """(result bits, carry bit) of <kind>_C(x, k) for a constant k >= 1 (x: list of n bits, LSB first)."""
    if kind == 'lsl':
        ext = [0] * k + list(x)
        return ext[:n], (ext[n] if n < len(ext) else 0)
    if kind == 'lsr':
        ext = list(x) + [0] * (k + n)
        return ext[k:k + n], ext[k - 1]
    if kind == 'asr':
        ext = list(x) + [x[n - 1]] * (k + n)
        return ext[k:k + n], ext[k - 1]
    if kind == 'ror':
        m = k % n
        res = list(x[m:]) + list(x[:m])
        return res, res[n - 1]
    raise ValueError(kind)


def check_arith(run, repo):
    h = H(run, repo)
    # ---- AddWithCarry ------------------------------------------------------------------------------------
    def mk(B, it):
        B.var_index('cin[0]')
        x, y = interleaved(B, ['x', 'y'], 32)
        return [x, y, sym_int(B, 'cin', 1), it.const(32)]
    B, it, fi, args, val, ret = h.call(BO, 'add_with_carry', mk)
    x, y, cin = args[0].bits, args[1].bits, args[2].bits[0]
    c = cin
    s = []
    carries = [c]
    for p, q in zip(x, y):
        s.append(B.XOR(B.XOR(p, q), c))
        c = B.OR(B.AND(p, q), B.AND(c, B.XOR(p, q)))
        carries.append(c)
    want = V(Tup([V(Int(s)), V(Int([carries[32]])), V(Int([B.XOR(carries[32], carries[31])]))]))
    ok = h.expect('add_with_carry', fi, B, it, val, want, 'AddWithCarry(x, y, carry_in) = (sum<31:0>, carry out of bit 31, signed overflow)', returned=ret)
    run.instance('C17-A', 'add_with_carry', obligations=34, ok=ok, sample={'helper': 'add_with_carry', 'width': 32})
    # ---- add / sub ------------------------------------------------------------------------------------------
    for fname, sub in (('add', False), ('sub', True)):
        def mk(B, it):
            x, y = interleaved(B, ['x', 'y'], 32)
            return [x, y, it.const(32)]
        B, it, fi, args, val, ret = h.call(BO, fname, mk)
        x, y = args[0].bits, args[1].bits
        c = 1 if sub else 0
        s = []
        for p, q in zip(x, y):
            q = B.NOT(q) if sub else q
            s.append(B.XOR(B.XOR(p, q), c))
            c = B.OR(B.AND(p, q), B.AND(c, B.XOR(p, q)))
        ok = h.expect(fname, fi, B, it, val, V(Int(s)), '%s(x, y, 32) = (x %s y) mod 2^32' % (fname, '-' if sub else '+'), returned=ret)
        run.instance('C17-A', fname, obligations=32, ok=ok, sample={'helper': fname})
    # ---- shifts by every constant amount -----------------------------------------------------------------------
    for kind in ('lsl', 'lsr', 'asr', 'ror'):
        def mk(B, it):
            sh = sym_int(B, 'shift', 8)
            return [sym_int(B, 'x', 32), it.const(32), sh]
        B, it, fi, args, val, ret = h.call(SH, kind + '_c', mk)
        x, sh = args[0].bits, args[2]
        ok = True
        p = val.single()
        if not isinstance(p, Tup) or len(p.items) != 2:
            run.violation('C17-A', fi.relpath, fi.qualname, kind + '_c shape', 'must return (result, carry_out)')
            ok = False
        else:
            res = None
            car = None
            for k in range(1, 256):
                r, cbit = shifted(kind, x, k)
                ck = it.i_eq(sh, it.const(k))
                res = Int(r) if res is None else it.i_ite(ck, Int(r), res)
                car = Int([cbit]) if car is None else it.i_ite(ck, Int([cbit]), car)
            nz = B.NOT(it.i_eq(sh, it.const(0)))
            ok &= h.expect(kind + '_c result', fi, B, it, p.items[0], V(Int(it.ext(res, 32))), '%s_C(x, shift) result for every shift 1..255' % kind.upper(), cond=nz, returned=ret)
            ok &= h.expect(kind + '_c carry', fi, B, it, p.items[1], V(car), '%s_C(x, shift) carry-out for every shift 1..255' % kind.upper(), cond=nz, returned=ret)
        run.instance('C17-A', kind + '_c', obligations=510, ok=ok, sample={'helper': kind + '_c', 'amounts': '1..255'})
    # ---- Shift_C as a whole: every type, amount 0..255 -----------------------------------------------------------
    for tname, kind in (('LSL', 'lsl'), ('LSR', 'lsr'), ('ASR', 'asr'), ('ROR', 'ror'), ('RRX', None)):
        def mk(B, it, tname=tname):
            amt = sym_int(B, 'amount', 8) if tname != 'RRX' else it.const(1)
            c = sym_int(B, 'carry', 1)
            return [sym_int(B, 'value', 32), it.const(32), ('enum', 'SRType', tname), amt, c]
        B, it, fi, args, val, ret = h.call(SH, 'shift_c', mk)
        x, amt, cin = args[0].bits, args[3], args[4].bits[0]
        if kind is None:
            res, car = Int(list(x[1:]) + [cin]), Int([x[0]])
        else:
            res, car = Int(list(x)), Int([cin])
            for k in range(1, 256):
                r, cbit = shifted(kind, x, k)
                ck = it.i_eq(amt, it.const(k))
                res = it.i_ite(ck, Int(r), res)
                car = it.i_ite(ck, Int([cbit]), car)
        want = V(Tup([V(Int(it.ext(res, 32))), V(car)]))
        ok = h.expect('shift_c ' + tname, fi, B, it, val, want, 'Shift_C(value, %s, amount, carry_in) for every amount' % tname, returned=ret)
        run.instance('C17-A', 'shift_c ' + tname, obligations=512, ok=ok, sample={'helper': 'shift_c', 'type': tname})
    # ---- Shift (the carry-less wrapper) and the carry-less primitives: same tables, first component -------------------------
    for tname, kind in (('LSL', 'lsl'), ('LSR', 'lsr'), ('ASR', 'asr'), ('ROR', 'ror'), ('RRX', None)):
        def mk(B, it, tname=tname):
            amt = sym_int(B, 'amount', 8) if tname != 'RRX' else it.const(1)
            return [sym_int(B, 'value', 32), it.const(32), ('enum', 'SRType', tname), amt, sym_int(B, 'carry', 1)]
        B, it, fi, args, val, ret = h.call(SH, 'shift', mk)
        x, amt, cin = args[0].bits, args[3], args[4].bits[0]
        if kind is None:
            res = Int(list(x[1:]) + [cin])
        else:
            res = Int(list(x))
            for k in range(1, 256):
                r, _ = shifted(kind, x, k)
                res = it.i_ite(it.i_eq(amt, it.const(k)), Int(r), res)
        ok = h.expect('shift ' + tname, fi, B, it, val, V(Int(it.ext(res, 32))), 'Shift(value, %s, amount, carry_in) for every amount' % tname, returned=ret)
        run.instance('C17-A', 'shift ' + tname, obligations=256, ok=ok, sample={'helper': 'shift', 'type': tname})
    for fname, kind in (('lsl', 'lsl'), ('lsr', 'lsr'), ('asr', 'asr'), ('ror', 'ror')):
        def mk(B, it):
            sh = sym_int(B, 'shift', 8)       # selector variables above the data variables
            return [sym_int(B, 'x', 32), it.const(32), sh]
        B, it, fi, args, val, ret = h.call(SH, fname, mk)
        x, sh = args[0].bits, args[2]
        res = Int(list(x))
        for k in range(1, 256):
            r, _ = shifted(kind, x, k)
            res = it.i_ite(it.i_eq(sh, it.const(k)), Int(r), res)
        ok = h.expect(fname, fi, B, it, val, V(Int(it.ext(res, 32))), '%s(x, shift) for every shift 0..255' % fname.upper(), returned=ret)
        run.instance('C17-A', fname, obligations=256, ok=ok, sample={'helper': fname})
    B, it, fi, args, val, ret = h.call(SH, 'rrx', lambda B, it: [sym_int(B, 'x', 32), it.const(32), sym_int(B, 'c', 1)])
    ok = h.expect('rrx', fi, B, it, val, V(Int(list(args[0].bits[1:]) + [args[2].bits[0]])), 'RRX(x, carry_in)', returned=ret)
    run.instance('C17-A', 'rrx', obligations=1, ok=ok, sample={'helper': 'rrx'})
    for fname, cfun in (('arm_expand_imm', 'arm_expand_imm_c'), ('thumb_expand_imm', 'thumb_expand_imm_c')):
        # the carry-less forms equal the first component of the _c forms (compared by interpreting both)
        B, it, fi, args, val, ret = h.call(SH, fname, lambda B, it: [sym_int(B, 'imm12', 12)])
        it2 = Interp(repo, B, P())
        rets2 = it2.run_function(repo.func(SH, cfun), [V(args[0]), V(sym_int(B, 'c', 1))])
        v2 = Value(it2.coalesce([(B.AND(c, cc), p) for c, v, s in rets2 for cc, p in v.cases]))
        p2 = v2.single()
        ok = isinstance(p2, Tup) and h.expect(fname, fi, B, it, val, p2.items[0], '%s(imm12) = %s(imm12, c)[0]' % (fname, cfun), returned=ret)
        run.instance('C17-A', fname, obligations=4096, ok=bool(ok), sample={'helper': fname})
    # ---- ARMExpandImm_C / ThumbExpandImm_C ---------------------------------------------------------------------------
    def mk(B, it):
        return [sym_int(B, 'imm12', 12), sym_int(B, 'c', 1)]
    B, it, fi, args, val, ret = h.call(SH, 'arm_expand_imm_c', mk)
    imm, cin = args[0], args[1].bits[0]
    base = list(imm.bits[0:8]) + [0] * 24
    res, car = Int(base), Int([cin])
    for rot in range(1, 16):
        r, cbit = shifted('ror', base, 2 * rot)
        ck = it.i_eq(Int(imm.bits[8:12]), it.const(rot))
        res = it.i_ite(ck, Int(r), res)
        car = it.i_ite(ck, Int([cbit]), car)
    ok = h.expect('arm_expand_imm_c', fi, B, it, val, V(Tup([V(Int(it.ext(res, 32))), V(car)])),
                  'ARMExpandImm_C(imm12, carry_in) for all 4096 immediates', returned=ret)
    run.instance('C17-A', 'arm_expand_imm_c', obligations=4096, ok=ok, sample={'helper': 'arm_expand_imm_c'})
    B, it, fi, args, val, ret = h.call(SH, 'thumb_expand_imm_c', mk)
    imm, cin = args[0], args[1].bits[0]
    lo = list(imm.bits[0:8])
    z8 = [0] * 8
    forms = {0: lo + z8 * 3, 1: lo + z8 + lo + z8, 2: z8 + lo + z8 + lo, 3: lo * 4}
    res, car = None, Int([cin])
    top2 = Int(imm.bits[10:12])
    for k, bits in forms.items():
        ck = it.i_eq(Int(imm.bits[8:10]), it.const(k))
        res = Int(bits) if res is None else it.i_ite(ck, Int(bits), res)
    unrot = list(imm.bits[0:7]) + [1] + [0] * 24
    for rot in range(8, 32):
        r, cbit = shifted('ror', unrot, rot)
        ck = it.i_eq(Int(imm.bits[7:12]), it.const(rot))
        res = it.i_ite(ck, Int(r), res)
        car = it.i_ite(ck, Int([cbit]), car)
    ok = h.expect('thumb_expand_imm_c', fi, B, it, val, V(Tup([V(Int(it.ext(res, 32))), V(car)])),
                  'ThumbExpandImm_C(imm12, carry_in) for all 4096 immediates', returned=ret)
    run.instance('C17-A', 'thumb_expand_imm_c', obligations=4096, ok=ok, sample={'helper': 'thumb_expand_imm_c'})
    # ---- saturation ------------------------------------------------------------------------------------------------------
    for fname, signed in (('signed_sat_q', True), ('unsigned_sat_q', False)):
        ok = True
        for n in range(1 if signed else 0, 33):
            def mk(B, it, n=n):
                i = sym_int(B, 'i', 36)
                return [Int(i.bits, True), it.const(n)]
            B, it, fi, args, val, ret = h.call(BO, fname, mk)
            i = args[0]
            hi, lo = ((1 << (n - 1)) - 1, -(1 << (n - 1))) if signed else ((1 << n) - 1, 0)
            gt = it.i_lt(it.const(hi), i)
            lt = it.i_lt(i, it.const(lo))
            clamp = it.i_ite(gt, it.const(hi), it.i_ite(lt, it.const(lo), i))
            pattern = Int(it.ext(clamp, max(n, 1))[:max(n, 1)] if n else [0])
            want = V(Tup([V(pattern), V(Int([B.OR(gt, lt)]))]))
            ok &= h.expect('%s N=%d' % (fname, n), fi, B, it, val, want,
                           '%s(i, %d) = (i clamped to [%d, %d] as a %d-bit pattern, saturated?)' % (fname, n, lo, hi, n), returned=ret)
        run.instance('C17-A', fname, obligations=2 * 33, ok=ok, sample={'helper': fname, 'N': '1..32' if signed else '0..32', 'i': '36-bit signed'})
    # ---- to_signed / to_unsigned / sign_extend for every width -----------------------------------------------------------------
    ok = True
    for w in range(1, 33):
        B, it, fi, args, val, ret = h.call(BO, 'to_signed', lambda B, it, w=w: [sym_int(B, 'x', w), it.const(w)])
        ok &= h.expect('to_signed(%d)' % w, fi, B, it, val, V(it.trim(Int(args[0].bits, True))), 'to_signed(x, %d) = SInt(x<%d:0>)' % (w, w - 1), returned=ret)
        B, it, fi, args, val, ret = h.call(BO, 'to_unsigned', lambda B, it, w=w: [Int(sym_int(B, 'x', 40).bits, True), it.const(w)])
        ok &= h.expect('to_unsigned(%d)' % w, fi, B, it, val, V(Int(args[0].bits[:w])), 'to_unsigned(x, %d) = x mod 2^%d' % (w, w), returned=ret)
    run.instance('C17-A', 'to_signed / to_unsigned', obligations=64, ok=ok, sample={'widths': '1..32'})
    ok = True
    for w in range(1, 32):
        for to in sorted({w + 1, 16, 24, 32}):
            if to <= w:
                continue
            B, it, fi, args, val, ret = h.call(BO, 'sign_extend', lambda B, it, w=w, to=to: [sym_int(B, 'x', w), it.const(w), it.const(to)])
            xb = list(args[0].bits)
            ok &= h.expect('sign_extend(%d,%d)' % (w, to), fi, B, it, val, V(Int(xb + [xb[-1]] * (to - w))), 'sign_extend(x, %d, %d)' % (w, to), returned=ret)
    run.instance('C17-A', 'sign_extend', obligations=100, ok=ok, sample={})
    # ---- bit counts -----------------------------------------------------------------------------------------------------------------
    B, it, fi, args, val, ret = h.call(BO, 'bit_count', lambda B, it: [sym_int(B, 'x', 32), it.const(1), it.const(32)])
    tot = it.const(0)
    for b in args[0].bits:
        tot = it.i_add(tot, Int([b]))
    ok = h.expect('bit_count ones', fi, B, it, val, V(tot), 'bit_count(x, 1, 32) = number of set bits', returned=ret)
    B, it, fi, args, val, ret = h.call(BO, 'bit_count', lambda B, it: [sym_int(B, 'x', 16), it.const(0), it.const(16)])
    tot = it.const(0)
    for b in args[0].bits:
        tot = it.i_add(tot, Int([B.NOT(b)]))
    ok &= h.expect('bit_count zeros', fi, B, it, val, V(tot), 'bit_count(x, 0, 16) = number of clear bits', returned=ret)
    run.instance('C17-A', 'bit_count', obligations=2, ok=ok, sample={})
    B, it, fi, args, val, ret = h.call(BO, 'lowest_set_bit_ref', lambda B, it: [sym_int(B, 'x', 16), it.const(16)])
    want = it.const(16)
    for i in reversed(range(16)):
        want = it.i_ite(args[0].bits[i], it.const(i), want)
    ok = h.expect('lowest_set_bit_ref', fi, B, it, val, V(want), 'LowestSetBit(x) (16-bit register lists)', returned=ret)
    run.instance('C17-A', 'lowest_set_bit_ref', obligations=17, ok=ok, sample={})
    for n in (2, 3, 8):
        B, it, fi, args, val, ret = h.call(BO, 'is_ones', lambda B, it, n=n: [sym_int(B, 'x', n), it.const(n)])
        ok = h.expect('is_ones(%d)' % n, fi, B, it, val, V(Int([B.all_and(args[0].bits)])), 'is_ones(x, %d)' % n, returned=ret)
        run.instance('C17-A', 'is_ones(%d)' % n, obligations=1, ok=ok, sample={})
