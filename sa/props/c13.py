"""C13 - memory access model: endianness, alignment policy, exact byte footprint.

The four accessor bodies (MemA / MemU, get / set) are interpreted in the bit-vector table
domain for each access size with the address, value, SCTLR.A/U, HSCTLR.A, CPSR.E, mode and
ARCH symbolic; address translation, alignment faults and the hub are *events*.  The event
list (what is translated, what faults, what is read or written where, with which bytes) and
the returned value are compared with the architecture's MemA_with_priv / MemU_with_priv.

  C13-P  policy: aligned access / alignment fault / legacy align-down / byte-wise - the
         condition of each outcome equals the reference for every (size, address, A, U, arch,
         Hyp) combination; fault arguments (address, is-write) correct.
  C13-E  endianness / footprint: the value handed to (returned from) the hub is the register
         value with exactly one byte reversal iff CPSR.E, per byte wiring; the byte-wise path
         moves byte i to/from address + i (mod 2^32) through size-1 aligned accesses.
  C13-T  translate-before-access: every hub access uses the descriptor returned by a
         translate_address call with the same (aligned) address, privilege, direction, size.
  C13-W  wrappers: mem_a/mem_u pass current_mode_is_not_user(), the unprivileged forms pass
         the constant False.
  C13-F  instruction fetch does not depend on CPSR.E and assembles halfwords little-endian
         first; opcode_len in {16, 32}.
"""
import ast

from .. import refmodel, spec as specmod
from ..bitdom import Int, V, Value, Tup, UF, NONE, Top
from ..machine import Machine, describe_witness
from ..report import Run, AnalysisError
from ..srcmodel import Repo

SIZES = (1, 2, 4, 8)
P = refmodel.P


class Ev:
    def __init__(self, kind, cond, **kw):
        self.kind = kind
        self.cond = cond
        self.__dict__.update(kw)


class Harness:
    """Runs one accessor with hub / translation / fault stubs and collects events."""

    def __init__(self, repo, arch=None):
        self.repo = repo
        self.events = []
        self.nmem = 0
        self.ndesc = 0
        stubs = {
            'MemoryControllerHub.__getitem__': self.hub_read,
            'MemoryControllerHub.__setitem__': self.hub_write,
            'translate_address': self.translate,
            'alignment_fault': self.fault,
            'clear_exclusive_by_address': self.noop,
        }
        self.m = Machine(repo, stubs=stubs, arch=arch)
        self.rm = refmodel.M(self.m)
        self.it = self.m.it
        self.B = self.m.B

    def noop(self, it, args, st, node):
        return V(NONE)

    def item(self, v):
        p = v.single()
        if not isinstance(p, Tup) or len(p.items) != 2:
            raise AnalysisError('memory hub indexed with something other than (descriptor, size)')
        return p.items[0], p.items[1]

    def hub_read(self, it, args, st, node):
        desc, size = self.item(args[0])
        k = it.const_of(size, st.cond)
        if k not in SIZES:
            raise AnalysisError('hub read with a non-constant size')
        self.nmem += 1
        val = self.m.sym('MEM%d' % self.nmem, 8 * k)
        self.events.append(Ev('read', st.cond, desc=desc, size=k, value=val))
        return V(val)

    def hub_write(self, it, args, st, node):
        desc, size = self.item(args[0])
        k = it.const_of(size, st.cond)
        if k not in SIZES:
            raise AnalysisError('hub write with a non-constant size')
        self.events.append(Ev('write', st.cond, desc=desc, size=k, value=args[1]))
        return V(NONE)

    def translate(self, it, args, st, node):
        self.ndesc += 1
        d = ('obj', 'DESC%d' % self.ndesc, 'AddressDescriptor')
        self.events.append(Ev('translate', st.cond, args=args, desc=d))
        return V(d)

    def fault(self, it, args, st, node):
        self.events.append(Ev('fault', st.cond, args=args))
        from ..bitdom import Outcome
        it.outcomes.append(Outcome('raise', st.cond, 'DataAbort(alignment)', node, st.copy(), it.cur_func))
        st.cond = 0
        return V(NONE)


class DescPolicyMixin:
    pass


def patch_policy(h):
    """AddressDescriptor attributes as atoms (shareable etc.)."""
    pol = h.m.pol
    base_attr = pol.attr

    def attr(it, obj, attr_, st, _b=base_attr):
        if obj[0] == 'obj' and obj[2] == 'AddressDescriptor':
            if attr_ == 'memattrs':
                return V(('obj', obj[1] + '.memattrs', 'MemoryAttributes'))
            if attr_ == 'paddress':
                return V(('obj', obj[1] + '.paddress', 'FullAddress'))
        if obj[0] == 'obj' and obj[2] == 'MemoryAttributes':
            return V(pol.sym(obj[1] + '.' + attr_, 1))
        if obj[0] == 'obj' and obj[2] == 'FullAddress':
            return V(pol.sym(obj[1] + '.' + attr_, 40))
        return _b(it, obj, attr_, st)
    pol.attr = attr


def reverse(rm, v, size):
    bits = rm.it.ext(v, 8 * size)
    out = []
    for i in range(size):
        out += bits[8 * (size - 1 - i): 8 * (size - i)]
    return Int(out)


def diff_int(h, cond, a, b, what):
    r = specmod.diff_values(h.it, cond, a if isinstance(a, Value) else V(a), b if isinstance(b, Value) else V(b), what)
    return r


def check_mem_a(run, repo, is_set):
    meth = 'mem_a_with_priv_set' if is_set else 'mem_a_with_priv_get'
    ok_all = True
    for size in SIZES:
        h = Harness(repo)
        patch_policy(h)
        B, it, rm = h.B, h.it, h.rm
        addr = h.m.sym('ARG.address', 32)
        priv = h.m.sym('ARG.privileged', 1)
        wasal = h.m.sym('ARG.was_aligned', 1)
        value = h.m.sym('ARG.value', 8 * size)
        args = [addr, it.const(size), priv, wasal] + ([value] if is_set else [])
        res, fi = h.m.run('ArmV6', meth, args)
        dom = B.var('ARCH[2]')
        fn = fi.qualname
        label = '%s size=%d' % (meth, size)
        k = size.bit_length() - 1
        aligned = it.i_eq(Int(addr.bits[0:k]), it.const(0)) if k else 1
        arch = h.m.sym('ARCH', 3)
        arch7 = B.NOT(it.i_lt(arch, it.const(7)))
        sctlr = rm.view('sctlr')
        A, U = sctlr.bits[1], sctlr.bits[22]
        fault_ref = B.AND(B.NOT(aligned), B.all_or([arch7, A, U]))
        va_ref = Int([0] * k + list(addr.bits[k:])) if k else addr     # Align(address, size)
        va_ref = it.i_ite(aligned, addr, va_ref)
        E = rm.cpsr().bits[9]
        ok = True

        def bad(construct, msg, wit=None):
            nonlocal ok
            ok = False
            run.violation('C13-P' if 'policy' in construct or 'fault' in construct else (
                'C13-T' if 'translat' in construct else 'C13-E'), fi.relpath, fn, '%s [size=%d]' % (construct, size), msg,
                {'witness': describe_witness(B, B.pick(wit), ('ARG.address',)) if wit not in (None, 0) else None})
        faults = [e for e in h.events if e.kind == 'fault']
        fc = B.all_or(e.cond for e in faults)
        d = B.AND(dom, B.XOR(fc, B.AND(dom, fault_ref)))
        if d != 0:
            bad('alignment fault policy', 'MemA: the set of (address, SCTLR.A, SCTLR.U, arch) that takes an alignment fault '
                'differs from the architecture (unaligned and (arch >= 7 or A or U))', d)
        for e in faults:
            r = diff_int(h, B.AND(dom, e.cond), e.args[0], addr, 'fault address')
            if r is not None:
                bad('fault address', 'alignment fault reports the wrong address: %s' % r[0], r[1])
            w = it.const_of(e.args[1], B.AND(dom, e.cond))
            if w != (1 if is_set else 0):
                bad('fault iswrite', 'alignment fault of a %s is reported with iswrite=%s' % ('store' if is_set else 'load', w), e.cond)
        trs = [e for e in h.events if e.kind == 'translate']
        acc = [e for e in h.events if e.kind == ('write' if is_set else 'read')]
        nofault = B.AND(dom, B.NOT(fault_ref))
        for e in trs + acc:
            early = B.AND(B.AND(dom, fault_ref), e.cond)
            if early != 0:
                bad('alignment fault priority', 'MemA %s in a state that must take an alignment fault: the alignment check comes '
                    'first in MemA_with_priv, so that an unaligned address which also fails translation (no region, no permission, '
                    'invalid descriptor) reports an Alignment fault, not the translation / permission fault'
                    % ('translates the address' if e.kind == 'translate' else 'accesses memory'), early)
                break
        if len(trs) != 1 or len(acc) != 1:
            bad('translation / access count', 'expected one translation and one hub access, found %d / %d' % (len(trs), len(acc)))
        else:
            t, a = trs[0], acc[0]
            if B.AND(nofault, B.NOT(t.cond)) != 0 or B.AND(nofault, B.NOT(a.cond)) != 0:
                bad('translation coverage', 'some non-faulting access performs no translation or no memory access',
                    B.AND(nofault, B.NOT(B.AND(t.cond, a.cond))))
            r = diff_int(h, nofault, t.args[0], va_ref, 'translated address')
            if r is not None:
                bad('translated address', 'the address translated is not (address if aligned else Align(address, size)): %s' % r[0], r[1])
            r = diff_int(h, nofault, t.args[1], priv, 'privileged')
            if r is not None:
                bad('translation privilege', 'translate_address is not given the caller\'s privilege', r[1])
            w = it.const_of(t.args[2], nofault)
            if w != (1 if is_set else 0):
                bad('translation direction', 'translate_address(iswrite=%s) for a %s' % (w, 'store' if is_set else 'load'), nofault)
            if it.const_of(t.args[3], nofault) != size:
                bad('translation size', 'translate_address is given a different size')
            r = diff_int(h, nofault, t.args[4], wasal, 'wasaligned')
            if r is not None:
                bad('translation wasaligned', 'translate_address is not given was_aligned', r[1])
            dsingle = a.desc.single()
            if dsingle != t.desc:
                bad('translate-before-access', 'the hub is accessed with a descriptor that is not the result of the translation')
            if a.size != size:
                bad('access size', 'the hub access has size %d' % a.size)
            if is_set:
                want = it.i_ite(E, reverse(rm, value, size), value)
                r = diff_int(h, nofault, a.value, want, 'stored bytes')
                if r is not None:
                    bad('endianness (store)', 'the bytes handed to the hub are not the value with one byte reversal iff '
                        'CPSR.E: %s' % r[0], r[1])
            else:
                want = it.i_ite(E, reverse(rm, a.value, size), a.value)
                r = diff_int(h, nofault, res.value, want, 'loaded value')
                if r is not None:
                    bad('endianness (load)', 'the returned value is not the hub value with one byte reversal iff CPSR.E: %s'
                        % r[0], r[1])
        run.instance('C13-P', label, obligations=9, ok=ok, sample={'function': fn, 'size': size, 'events': len(h.events)})
        ok_all = ok_all and ok
    return ok_all


def check_mem_u(run, repo, is_set):
    meth = 'mem_u_with_priv_set' if is_set else 'mem_u_with_priv_get'
    for size in SIZES:
        h = Harness(repo)
        patch_policy(h)
        B, it, rm = h.B, h.it, h.rm
        addr = h.m.sym('ARG.address', 32)
        priv = h.m.sym('ARG.privileged', 1)
        value = h.m.sym('ARG.value', 8 * size)
        args = [addr, it.const(size), priv] + ([value] if is_set else [])
        res, fi = h.m.run('ArmV6', meth, args)
        fn = fi.qualname
        dom = B.AND(B.var('ARCH[2]'), rm.valid_state())
        k = size.bit_length() - 1
        arch = h.m.sym('ARCH', 3)
        arch7 = B.NOT(it.i_lt(arch, it.const(7)))
        sctlr, hsctlr = rm.view('sctlr'), rm.view('hsctlr')
        A, U, HA = sctlr.bits[1], sctlr.bits[22], hsctlr.bits[1]
        legacy = B.all_and([B.NOT(arch7), B.NOT(A), B.NOT(U)])
        aligned0 = it.i_eq(Int(addr.bits[0:k]), it.const(0)) if k else 1
        eff_addr = it.i_ite(legacy, Int([0] * k + list(addr.bits[k:])) if k else addr, addr)
        aligned = B.OR(aligned0, legacy)
        cp = rm.cpsr()
        is_hyp = rm.mode_is(cp, 'hyp')
        virt = rm.cfg('have_virt_ext')
        fault_ref = B.AND(B.NOT(aligned), B.OR(B.all_and([virt, B.NOT(rm.is_secure(cp)), is_hyp, HA]),
                                                B.AND(B.NOT(is_hyp), A)))
        bytewise = B.AND(B.NOT(aligned), B.NOT(fault_ref))
        E = cp.bits[9]
        ok = True

        def bad(rule, construct, msg, wit=None):
            nonlocal ok
            ok = False
            run.violation(rule, fi.relpath, fn, '%s [size=%d]' % (construct, size), msg,
                          {'witness': describe_witness(B, B.pick(wit), ('ARG.address',)) if wit not in (None, 0) else None})
        # faults raised by this level (the inlined MemA level never faults for an aligned address)
        fc = B.all_or(e.cond for e in h.events if e.kind == 'fault')
        d = B.AND(dom, B.XOR(B.AND(fc, dom), B.AND(dom, fault_ref)))
        if d != 0:
            bad('C13-P', 'alignment fault policy', 'MemU: the states that take an alignment fault differ from the architecture '
                '(unaligned, not legacy, and (Hyp with HSCTLR.A) or (not Hyp with SCTLR.A))', d)
        for e in [e for e in h.events if e.kind == 'fault']:
            w = it.const_of(e.args[1], B.AND(dom, e.cond))
            if w != (1 if is_set else 0):
                bad('C13-P', 'fault iswrite', 'alignment fault reported with iswrite=%s' % w, e.cond)
            r = diff_int(h, B.AND(dom, e.cond), e.args[0], addr, 'fault address')
            if r is not None:
                bad('C13-P', 'fault address', 'alignment fault reports the wrong address', r[1])
        acc = [e for e in h.events if e.kind == ('write' if is_set else 'read')]
        trs = [e for e in h.events if e.kind == 'translate']
        # aligned path: exactly one access of the full size at eff_addr
        whole = [e for e in acc if e.size == size and B.AND(B.AND(dom, aligned), e.cond) != 0] if size > 1 else None
        byte_acc = [e for e in acc if B.AND(B.AND(dom, bytewise), e.cond) != 0]
        al = B.AND(dom, aligned)
        if size > 1:
            if len(whole) != 1 or B.AND(al, B.NOT(whole[0].cond)) != 0:
                bad('C13-P', 'aligned path', 'an aligned (or legacy align-down) access must be one %d-byte access' % size, al)
            else:
                a = whole[0]
                t = [t for t in trs if t.desc == a.desc.single()]
                if len(t) != 1:
                    bad('C13-T', 'translate-before-access', 'aligned access without its own translation')
                else:
                    t = t[0]
                    r = diff_int(h, al, t.args[0], eff_addr, 'address')
                    if r is not None:
                        bad('C13-P', 'aligned path address', 'the aligned path accesses the wrong address: %s' % r[0], r[1])
                    if it.const_of(t.args[4], al) != 1:
                        bad('C13-T', 'wasaligned', 'the aligned path must translate with wasaligned=True')
                    r = diff_int(h, al, t.args[1], priv, 'privileged')
                    if r is not None:
                        bad('C13-T', 'privilege', 'privilege not passed down', r[1])
                if is_set:
                    want = it.i_ite(E, reverse(rm, value, size), value)
                    r = diff_int(h, al, a.value, want, 'stored bytes')
                    if r is not None:
                        bad('C13-E', 'endianness (store, aligned)', 'stored bytes: %s' % r[0], r[1])
            # byte-wise path
            bw = B.AND(dom, bytewise)
            if bw != 0:
                if len(byte_acc) != size or any(e.size != 1 for e in byte_acc):
                    bad('C13-E', 'byte-wise footprint', 'the unaligned path must perform exactly %d single-byte accesses, '
                        'found %s' % (size, [(e.size) for e in byte_acc]), bw)
                else:
                    src = it.i_ite(E, reverse(rm, value, size), value) if is_set else None
                    got_bytes = []
                    for i, e in enumerate(byte_acc):
                        if B.AND(bw, B.NOT(e.cond)) != 0:
                            bad('C13-E', 'byte-wise footprint', 'byte %d is not accessed on every unaligned path' % i, bw)
                        t = [t for t in trs if t.desc == e.desc.single()]
                        if len(t) != 1:
                            bad('C13-T', 'translate-before-access', 'byte access %d without its own translation' % i)
                            continue
                        t = t[0]
                        want_a = Int(it.ext(it.i_add(addr, it.const(i)), 32))
                        r = diff_int(h, bw, t.args[0], want_a, 'byte address')
                        if r is not None:
                            bad('C13-E', 'byte %d address' % i, 'byte %d must go to address + %d (mod 2^32): %s' % (i, i, r[0]), r[1])
                        if it.const_of(t.args[4], bw) != 0:
                            bad('C13-T', 'wasaligned', 'the byte-wise path must translate with wasaligned=False')
                        if is_set:
                            wb = Int(it.ext(src, 8 * size)[8 * i:8 * i + 8])
                            r = diff_int(h, bw, e.value, wb, 'byte %d' % i)
                            if r is not None:
                                bad('C13-E', 'byte %d value' % i, 'byte %d written is not byte %d of the (E-reversed) value: %s'
                                    % (i, i, r[0]), r[1])
                        else:
                            got_bytes.append(e.value)
                    if not is_set and len(got_bytes) == size:
                        raw = Int([b for v in got_bytes for b in it.ext(v, 8)])
                        want = it.i_ite(E, reverse(rm, raw, size), raw)
                        r = diff_int(h, bw, res.value, want, 'assembled value')
                        if r is not None:
                            bad('C13-E', 'byte-wise assembly', 'the value assembled from the bytes is wrong: %s' % r[0], r[1])
        if not is_set and size > 1 and whole and len(whole) == 1:
            a = whole[0]
            want = it.i_ite(E, reverse(rm, a.value, size), a.value)
            r = diff_int(h, al, res.value, want, 'loaded value')
            if r is not None:
                bad('C13-E', 'endianness (load, aligned)', 'returned value: %s' % r[0], r[1])
        run.instance('C13-P', '%s size=%d' % (meth, size), obligations=6 + 3 * size, ok=ok,
                     sample={'function': fn, 'size': size, 'events': [e.kind for e in h.events][:12]})


def check_wrappers(run, repo):
    want = {'mem_a_get': ('mem_a_with_priv_get', 'mode'), 'mem_a_set': ('mem_a_with_priv_set', 'mode'),
            'mem_u_get': ('mem_u_with_priv_get', 'mode'), 'mem_u_set': ('mem_u_with_priv_set', 'mode'),
            'mem_u_unpriv_get': ('mem_u_with_priv_get', False), 'mem_u_unpriv_set': ('mem_u_with_priv_set', False)}
    for w, (callee, privkind) in want.items():
        m = Machine(repo, stubs={callee: 'event'})
        rm = refmodel.M(m)
        B = m.B
        addr = m.sym('ARG.address', 32)
        val = m.sym('ARG.value', 32)
        args = [addr, m.it.const(4)] + ([val] if w.endswith('set') else [])
        res, fi = m.run('ArmV6', w, args)
        evs = [e for e in m.pol.events if e[0] == callee]
        ok = True
        dom = B.AND(B.var('ARCH[2]'), rm.valid_state())
        if len(evs) != 1:
            ok = False
            run.violation('C13-W', fi.relpath, fi.qualname, 'delegation', '%s must call %s exactly once' % (w, callee))
        else:
            a = evs[0][2]
            ci = repo.cls('ArmV6')
            names = ci.find_method(callee).params()[1:]
            amap = dict(zip(names, a))
            pv = amap.get('privileged')
            if privkind is False:
                if pv is None or m.it.const_of(pv, dom) != 0:
                    ok = False
                    run.violation('C13-W', fi.relpath, fi.qualname, 'privileged argument',
                                  '%s must perform the access as unprivileged (privileged=False) regardless of the current mode' % w)
            else:
                wantp = Int([B.NOT(rm.mode_is(rm.cpsr(), 'usr'))])
                r = specmod.diff_values(m.it, dom, pv, V(wantp), 'privileged') if pv is not None else ('missing', dom)
                if r is not None:
                    ok = False
                    run.violation('C13-W', fi.relpath, fi.qualname, 'privileged argument',
                                  '%s must pass current_mode_is_not_user() as the privilege of the access' % w)
            for nm, src in (('address', addr), ('value', val)):
                if nm in amap and (nm != 'value' or w.endswith('set')):
                    r = specmod.diff_values(m.it, dom, amap[nm], V(src), nm)
                    if r is not None:
                        ok = False
                        run.violation('C13-W', fi.relpath, fi.qualname, nm + ' argument', '%s does not pass its %s through' % (w, nm))
            if 'was_aligned' in amap and m.it.const_of(amap['was_aligned'], dom) != 1:
                ok = False
                run.violation('C13-W', fi.relpath, fi.qualname, 'was_aligned argument', '%s must pass was_aligned=True' % w)
        run.instance('C13-W', w, obligations=3, ok=ok, sample={'function': fi.qualname, 'privilege': str(privkind)})


def check_fetch(run, repo):
    h = Harness(repo)
    patch_policy(h)
    B, it, rm = h.B, h.it, h.rm
    res, fi = h.m.run('ArmV6', 'fetch_instruction')
    cp = rm.cpsr()
    J, T = cp.bits[24], cp.bits[5]
    arm = B.AND(B.NOT(J), B.NOT(T))
    thumb = B.AND(B.NOT(J), T)
    dom = B.AND(B.AND(B.var('ARCH[2]'), rm.valid_state()), B.OR(arm, thumb))
    # fetches are word/halfword aligned by the PC invariant (C04-W): restrict to aligned PCs
    pc = rm.R('PC')
    dom = B.AND(dom, B.NOT(pc.bits[0]))
    dom = B.AND(dom, B.OR(thumb, B.NOT(pc.bits[1])))
    ok = True
    E = B.var_index(P + 'cpsr.value[9]')
    opc = res.heap.get('processor.opcode')
    ln = res.heap.get('processor.opcode_len')
    reads = [e for e in h.events if e.kind == 'read']
    if opc is None or ln is None:
        raise AnalysisError('fetch_instruction does not set opcode / opcode_len')
    for c, p in opc.cases:
        if B.AND(c, dom) == 0 or not isinstance(p, Int):
            continue
        for k, b in enumerate(p.bits):
            if E in B.support(B.simplify(b, B.AND(c, dom))):
                # semantic dependence: cofactors differ somewhere in the domain
                d = B.AND(B.AND(c, dom), B.XOR(B.restrict(b, {E: 0}), B.restrict(b, {E: 1})))
                if d != 0:
                    ok = False
                    run.violation('C13-F', fi.relpath, fi.qualname, 'fetch depends on CPSR.E',
                                  'the fetched instruction word depends on the data-endianness bit CPSR.E (bit %d of the '
                                  'opcode): instruction fetch must always be little-endian' % k,
                                  {'witness': describe_witness(B, B.pick(d))})
                    break
        if not ok:
            break
    # composition: ARM = one 4-byte little-endian word; Thumb = first halfword, and hw1:hw2 when hw1[15:11] in 11101/11110/11111
    def le(ev):
        return ev.value
    if ok and len(reads) >= 1:
        arm_reads = [e for e in reads if e.size == 4 and B.AND(B.AND(dom, arm), e.cond) != 0]
        th_reads = [e for e in reads if e.size == 2 and B.AND(B.AND(dom, thumb), e.cond) != 0]
        if len(arm_reads) != 1 or len(th_reads) != 2:
            ok = False
            run.violation('C13-F', fi.relpath, fi.qualname, 'fetch accesses', 'expected one word fetch in ARM state and up to '
                          'two halfword fetches in Thumb state; found %d / %d' % (len(arm_reads), len(th_reads)))
        else:
            cE = B.NOT(cp.bits[9])    # compare in the E == 0 world (independence was shown above)
            r = specmod.diff_values(it, B.AND(B.AND(dom, arm), cE), opc, V(arm_reads[0].value), 'ARM opcode')
            if r is not None:
                ok = False
                run.violation('C13-F', fi.relpath, fi.qualname, 'ARM fetch', 'ARM opcode is not the little-endian word at PC: %s' % r[0])
            hw1, hw2 = th_reads[0].value, th_reads[1].value
            top5 = Int(hw1.bits[11:16])
            is32 = B.all_or(it.i_eq(top5, it.const(v)) for v in (0b11101, 0b11110, 0b11111))
            want = it.i_ite(is32, Int(list(hw2.bits) + list(hw1.bits)), hw1)
            r = specmod.diff_values(it, B.AND(B.AND(dom, thumb), cE), opc, V(want), 'Thumb opcode')
            if r is not None:
                ok = False
                run.violation('C13-F', fi.relpath, fi.qualname, 'Thumb fetch', 'Thumb opcode is not hw1 (or hw1:hw2 when '
                              'hw1[15:11] is 11101/11110/11111): %s' % r[0])
            wl = it.i_ite(arm, it.const(32), it.i_ite(is32, it.const(32), it.const(16)))
            r = specmod.diff_values(it, B.AND(dom, cE), ln, V(wl), 'opcode_len')
            if r is not None:
                ok = False
                run.violation('C13-F', fi.relpath, fi.qualname, 'opcode_len', 'instruction length is not 32 (ARM / 32-bit '
                              'Thumb by the top five bits of the first halfword) or 16: %s' % r[0])
    run.instance('C13-F', 'fetch_instruction', obligations=4, ok=ok, sample={'function': fi.qualname, 'reads': len(reads)})


def main(repo_path, tier, seed, replay=None):
    run = Run('C13', tier, level='other', seed=seed)
    repo = Repo(repo_path)
    import re
    from .. import memo
    memo.check(run, repo, 'C13-MEMO', lambda rel, q: re.search(r'(^|\.)(mem_[au]|big_endian|fetch_)', q) is not None,
               'the MemA / MemU accessors and BigEndianReverse')
    for is_set in (False, True):
        check_mem_a(run, repo, is_set)
        check_mem_u(run, repo, is_set)
    check_wrappers(run, repo)
    check_fetch(run, repo)
    # positive control: iswrite flag of the load accessor's alignment fault flipped (in memory)
    fi = repo.method('ArmV6', 'mem_a_with_priv_get')
    src = fi.module.source
    seg = ast.get_source_segment(src, fi.node)
    fired = False
    what = ''
    if 'self.alignment_fault(address, False)' in seg:
        new_seg = seg.replace('self.alignment_fault(address, False)', 'self.alignment_fault(address, True)', 1)
        mrepo = Repo(repo_path, overrides={fi.module.relpath: src.replace(seg, new_seg, 1)})
        tmp = Run('C13')
        check_mem_a(tmp, mrepo, False)
        fired = bool(tmp.findings)
        what = 'mem_a_with_priv_get: alignment_fault(address, False) -> True'
    run.control('C13-P fault direction flipped', fired, what)
    run.exhaustive = True
    run.undecided = ['the store/load round-trip equality over real memory contents as such (it follows from E + C16 but is '
                     'a run-time equality)']
    run.assumptions = ['reference: MemA_with_priv / MemU_with_priv (ARM ARM B2.4.4, DESIGN.md A.8); translation, alignment '
                       'faults and the memory hub are abstracted as events with symbolic results (they are judged by C14/C15/C16)',
                       'instruction fetch addresses are aligned (PC invariant, C04-W)']
    return run.finish(
        'The four accessors are interpreted per access size in the bit-vector table domain with address, value, SCTLR.A/U, '
        'HSCTLR.A, CPSR.E, mode, ARCH symbolic; the resulting event lists (faults, translations, hub accesses with per-byte '
        'wiring) and returned values are compared with the architecture\'s MemA/MemU for all inputs at once. Wrappers pass the '
        'right privilege; instruction fetch is independent of CPSR.E and assembles halfwords correctly.',
        './check C13 --tier %s' % tier)
