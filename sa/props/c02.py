"""C02 - single-register loads and stores: address, size, extension, target, write-back, ordering.

The 49 LDR/STR-family classes are bound through the reference encodings; the family
(load/store, size, signed, unprivileged, exclusive, addressing form) is read off the encoding
mnemonic.  Each execute() body is reduced to its effect trace and, for every assignment of
its boolean addressing fields (add, index, wback, post_index, register_form), partially
evaluated and compared with the architecture's template:

  C02-T  offset_addr = add|sub(base, offset, 32) selected by `add`; base R[n] (literal forms
         Align(PC,4)); offset imm32 / Shift(R[m], shift_t, shift_n, C) / R[m];
         address = offset_addr if index else R[n] (..T forms: R[n] if post_index); every memory
         access is at `address` (second word of a split doubleword at add(address,4,32)) with
         the family's size and accessor kind (MemU / MemA / MemU_unpriv); loaded value goes to
         R[t] (R[t2]) through sign_extend(.,8*size,32) iff the family is signed; stored value
         is R[t] truncated to the size; alignment tests and the rotate amount are taken from
         `address`; write-back is R[n] := offset_addr exactly under wback / post_index.
  C02-O  every memory access, and every register read, precedes the base write-back / the
         destination write on all paths (an abort leaves the base unchanged; Rt == Rm and
         Rt == Rn read the old value).
  C02-PC where the decode layer lets t be 15 for a word load: load_write_pc(<the loaded data>)
         under t == 15 and the word-alignment test, R[t] only on the t != 15 side.
  C02-X  exclusive forms: the size given to the monitors equals the access size, the address
         is the access address; status 0 with the store under pass, 1 and no store otherwise.
  C02-F  frame: loads write {R[t], R[t2], R[n], PC}, stores {MEM, R[n]} (+R[d] status).
  C02-G  guard (condition_passed) and C02-W widths on these classes.
Not decided: the bytes moved for given data / endianness (C13 accessors, C17 helpers).
"""
import ast
import itertools
import re

from ..binding import Binding
from ..effects import Effects
from ..fields import FieldRanges
from ..flow import Walker, guard_has, fmt, subterms, exclusive
from ..ranges import FuncAnalyzer
from ..report import Run, AnalysisError
from ..srcmodel import Repo
from . import c10
from .c01 import init_fields
from .c05 import effect_events, is_condition_passed

MN = re.compile(r'^(Ldr|Str)(ex)?(sb|sh|b|h|d)?(t)?(Immediate|Register|Literal)?(Arm|Thumb)?(A\d|T\d)$')
SIZES = {None: 4, 'b': 1, 'h': 2, 'sb': 1, 'sh': 2, 'd': 8}
BOOLS = ('add', 'index', 'wback', 'post_index', 'register_form')
C = ('flag', 'c')


def const(v):
    return ('const', v)


class Family:
    def __init__(self, m):
        self.load = m.group(1) == 'Ldr'
        self.excl = bool(m.group(2))
        self.size = SIZES[m.group(3)]
        self.signed = m.group(3) in ('sb', 'sh')
        self.unpriv = bool(m.group(4))
        self.form = m.group(5) or ('Exclusive' if self.excl else 'Unpriv')
        self.key = (self.load, self.excl, self.size, self.signed, self.unpriv, self.form)

    def describe(self):
        return '%s%s size %d%s%s %s' % ('load' if self.load else 'store', ' exclusive' if self.excl else '', self.size,
                                         ' signed' if self.signed else '', ' unprivileged' if self.unpriv else '', self.form)


def ls_classes(repo, bind):
    out = {}
    for enc in bind.enc2cls:
        m = MN.match(enc)
        if not m:
            continue
        a = bind.abstract_of_encoding(enc)
        if a is None:
            continue
        out.setdefault(a.name, (a, [], set()))
        out[a.name][1].append(Family(m))
        out[a.name][2].add(enc)
    return out


# ---------------------------------------------------------------------------
# term normalisation and partial evaluation
# ---------------------------------------------------------------------------
def norm(t):
    if isinstance(t, list):
        return [norm(x) for x in t]
    if not isinstance(t, tuple) or not t:
        return t
    if not isinstance(t[0], str):
        return tuple(norm(x) for x in t)
    if t[0] == 'phi':
        t = ('ite',) + t[1:]
    t = tuple(norm(x) if isinstance(x, (tuple, list)) else x for x in t)
    k = t[0]
    if k == 'ite' and isinstance(t[1], tuple) and t[1] and t[1][0] == 'not':
        return ('ite', t[1][1], t[3], t[2])
    if k == 'mem':
        return t[:4]
    if k == 'call':
        name, args = t[1], t[2]
        if name == 'shift':
            return ('proj', ('call', 'shift_c', args), 0)
        if name == 'substring' and len(args) == 3 and args[2] == const(0) and args[1][0] == 'const':
            return ('call', 'lower_chunk', (args[0], const(args[1][1] + 1)))
    if k == 'builtin' and t[1] == 'int' and len(t[2]) == 1:
        return t[2][0]
    if k == 'op' and t[1] in ('BitAnd', 'Mod'):
        # (a + b) & 0xFFFFFFFF and (a + b) % 2**32 are add(a, b, 32); likewise for -
        for x, m in ((t[2], t[3]), (t[3], t[2])):
            full = (t[1] == 'BitAnd' and m == const(0xFFFFFFFF)) or \
                   (t[1] == 'Mod' and m in (const(1 << 32), ('op', 'Pow', const(2), const(32))) and x is t[2])
            if full and isinstance(x, tuple) and x and x[0] == 'op' and x[1] in ('Add', 'Sub'):
                return ('call', 'add' if x[1] == 'Add' else 'sub', (x[2], x[3], const(32)))
    return t


def pe_cond(c, asg):
    if not isinstance(c, tuple) or not c:
        return None
    if c[0] == 'field' and c[1] in asg:
        return asg[c[1]]
    if c[0] == 'not':
        r = pe_cond(c[1], asg)
        return None if r is None else not r
    if c[0] in ('and', 'or'):
        rs = [pe_cond(x, asg) for x in c[1]]
        if c[0] == 'and':
            return False if False in rs else (True if all(r is True for r in rs) else None)
        return True if True in rs else (False if all(r is False for r in rs) else None)
    return None


def pe(t, asg):
    if isinstance(t, list):
        return [pe(x, asg) for x in t]
    if not isinstance(t, tuple) or not t:
        return t
    if t[0] in ('ite', 'phi'):
        c = pe_cond(t[1], asg)
        if c is True:
            return pe(t[2], asg)
        if c is False:
            return pe(t[3], asg)
    return tuple(pe(x, asg) if isinstance(x, (tuple, list)) else x for x in t)


def live(ev, asg):
    for term, pol, _ in ev.guards:
        c = pe_cond(term, asg)
        if c is not None and c != pol:
            return False
    return True


def N(t, asg):
    return norm(pe(t, asg))


def add32(a, b):
    return ('call', 'add', (a, b, const(32)))


def sub32(a, b):
    return ('call', 'sub', (a, b, const(32)))


def low(t, bits):
    return ('call', 'lower_chunk', (t, const(bits)))


class Template:
    """Expected terms of one class under one assignment of the boolean addressing fields."""

    def __init__(self, fam, fields, asg):
        rn = ('reg', ('field', 'n'))
        self.fam = fam
        if fam.form == 'Literal':
            base = ('call', 'align', (('pc',), const(4)))
        else:
            base = rn
        self.base = base
        offs = []
        if 'imm32' in fields and asg.get('register_form') is not True:
            offs.append(('field', 'imm32'))
        if 'm' in fields and asg.get('register_form') is not False:
            rm = ('reg', ('field', 'm'))
            if 'shift_t' in fields:
                offs.append(('proj', ('call', 'shift_c', (rm, const(32), ('field', 'shift_t'), ('field', 'shift_n'), C)), 0))
            else:
                offs.append(rm)
        self.offsets = offs
        if fam.excl:
            self.offset_addr = [add32(rn, ('field', 'imm32'))] if 'imm32' in fields else []
            self.address = self.offset_addr or [rn]
            self.wb = False
            return
        mk = add32 if asg.get('add', True) else sub32
        self.offset_addr = [norm(mk(base, o)) for o in offs]
        if fam.form == 'Literal':
            self.address = self.offset_addr
            self.wb = False
        elif 'post_index' in fields:
            self.address = [base] if asg['post_index'] else self.offset_addr
            self.wb = asg['post_index']
        else:
            self.address = self.offset_addr if asg.get('index', True) else [base]
            self.wb = asg.get('wback', False)


def is_align_probe(t):
    """(X, description) when t tests low-order bits of X."""
    if t[0] == 'call' and t[1] == 'lower_chunk' and t[2][1] in (const(1), const(2), const(3)):
        return t[2][0]
    if t[0] == 'call' and t[1] == 'bit_at' and t[2][1] == const(0):
        return t[2][0]
    return None


def has(t, pred):
    return any(pred(s) for s in subterms(t))


def check_class(run, repo, eff, fr, ci, fams, encs):
    fn = ci.name + '.execute'
    ok = [True]
    seen = set()

    def bad(rule, construct, msg):
        ok[0] = False
        m = re.match(r'^(.*) \[([^\]]*)\]$', construct)
        if m:
            construct, msg = m.group(1), msg + ' (addressing fields %s)' % m.group(2)
        if (rule, construct) in seen:
            return
        seen.add((rule, construct))
        run.violation(rule, ci.relpath, fn, construct, msg)
    if len({f.key for f in fams}) != 1:
        bad('C02-T', 'family', 'the class serves encodings of different load/store families: %s' % sorted({f.describe() for f in fams}))
        return
    fam = fams[0]
    tr = Walker(repo, eff).walk(ci.methods['execute'], ci)
    fields = init_fields(ci)
    effs = effect_events(tr)
    t15 = ('cmp', 'Eq', ('field', 't'), const(15))
    is_t15 = lambda t: norm(t) == t15
    # ---- G ----
    for e in effs:
        if not guard_has(e.guards, is_condition_passed, True):
            bad('C02-G', 'unguarded ' + e.kind, 'effect `%s` is not dominated by condition_passed()' % e.text())
    # ---- F ----
    regs_ok = {('field', 'n')}
    if fam.load:
        regs_ok |= {('field', 't'), ('field', 't2')}
    if fam.excl and not fam.load:
        regs_ok |= {('field', 'd')}
    pure_ok = {'null_check_if_thumbee', 'alignment_fault', 'set_exclusive_monitors', 'exclusive_monitors_pass'}
    for e in effs:
        k = e.kind
        if k == 'RegWrite':
            if e.d['idx'] not in regs_ok:
                bad('C02-F', 'register write R[%s]' % fmt(e.d['idx']), 'a %s may write only %s' % (
                    fam.describe(), ', '.join(sorted('R[%s]' % fmt(r) for r in regs_ok))))
        elif k == 'MemRead':
            if not fam.load:
                bad('C02-F', 'memory read', 'a store instruction reads memory')
        elif k == 'MemWrite':
            if fam.load:
                bad('C02-F', 'memory write', 'a load instruction writes memory')
        elif k == 'Branch':
            if not (fam.load and fam.size == 4 and not fam.excl and e.d['kind'] == 'load'):
                bad('C02-F', 'branch', 'PC written through %s_write_pc by a %s' % (e.d['kind'], fam.describe()))
        elif k == 'ProcCall' and e.d['recv'] == '' and e.d['method'] in pure_ok:
            if e.d['method'] in ('set_exclusive_monitors', 'exclusive_monitors_pass') and not fam.excl:
                bad('C02-F', e.d['method'], 'a non-exclusive access touches the exclusive monitors')
        elif k == 'Raise' and 'EndOfInstruction' in e.text():
            pass
        else:
            bad('C02-F', k, 'effect outside the frame of a %s: `%s`' % (fam.describe(), e.text()[:120]))
    # ---- N: the call site of the ThumbEE null check ----
    check_null_check_call(bad, 'C02-N', tr, encs, const(15) if fam.form == 'Literal' else ('field', 'n'), fam.describe())
    # ---- O ----
    writes = tr.of('RegWrite')
    for w in writes:
        for e in tr.events:
            if e.idx <= w.idx or exclusive(e, w):
                continue
            if e.kind in ('MemRead', 'MemWrite') and w.d['idx'] == ('field', 'n'):
                bad('C02-O', '%s after base write-back' % e.kind, 'the base register is written back before the memory access `%s`: an abort '
                    'raised by the access must leave R[n] unchanged' % e.text()[:100])
            elif e.kind in ('MemRead', 'MemWrite') and fam.load and w.d['idx'] in (('field', 't'), ('field', 't2')) and \
                    not (fam.size == 8 and not fam.excl):
                bad('C02-O', '%s after destination write' % e.kind, 'memory is accessed after the destination register was written')
            elif e.kind == 'RegRead' and e.d['idx'][0] != 'const':
                bad('C02-O', 'read of R[%s] after write of R[%s]' % (fmt(e.d['idx']), fmt(w.d['idx'])),
                    'a register operand is read after a register was written: when the two numbers coincide the new value is used')
    # ---- T, PC, X per assignment of the addressing booleans ----
    bools = [b for b in BOOLS if b in fields]
    arm_values = sorted({bool(re.search(r'A\d$', en)) for en in encs}) or [False, True]
    nasg = 0
    for vals in itertools.product((True, False), repeat=len(bools)):
        asg = dict(zip(bools, vals))
        nasg += 1
        tp = Template(fam, fields, asg)
        if not tp.address:
            raise AnalysisError('%s: no offset operand field (imm32 / m) found' % ci.name)
        tag = ','.join('%s=%d' % (k, v) for k, v in asg.items()) or '-'
        evs = [e for e in tr.events if live(e, asg)]
        mems = [e for e in evs if e.kind in ('MemRead', 'MemWrite')]
        addr_ok = set(map(repr, tp.address))
        addr4_ok = set(repr(norm(add32(a, const(4)))) for a in tp.address)
        kind = 'unpriv' if fam.unpriv else ('a' if (fam.excl or fam.size == 8) else 'u')

        def addr_slot(a):
            r = repr(N(a, asg))
            return 0 if r in addr_ok else (1 if r in addr4_ok and fam.size == 8 else None)
        if not mems:
            bad('C02-T', 'no access [%s]' % tag, 'no memory access is performed')
        shapes = set()
        for e in mems:
            slot = addr_slot(e.d['addr'])
            size = N(e.d['size'], asg)
            if slot is None:
                bad('C02-T', 'address [%s]' % tag, 'memory is accessed at `%s`; the template address is `%s`' % (
                    fmt(N(e.d['addr'], asg))[:140], fmt(tp.address[0])[:140]))
                continue
            if fam.size == 8:
                good = (slot == 0 and size in (const(8), const(4))) or (slot == 1 and size == const(4))
                if fam.excl:
                    good = slot == 0 and size == const(8)
            else:
                good = size == const(fam.size)
            if not good:
                bad('C02-T', 'size [%s]' % tag, 'access size %s at %s; the family transfers %d bytes' % (
                    fmt(size), 'address' if slot == 0 else 'address+4', fam.size))
            shapes.add((slot, size))
            if e.d['kind'] != kind:
                bad('C02-T', 'accessor', 'memory accessor Mem%s used; this family uses Mem%s' % (e.d['kind'].upper(), kind.upper()))
        if fam.size == 8 and not fam.excl:
            # the single 64-bit access is chosen exactly under HaveLPAE() && address<2:0> == '000'
            want8 = ('cmp', 'Eq', low(tp.address[0], 3), const(0))

            def lpae_guard(t):
                t = N(t, asg)
                return t[0] == 'and' and any(x == ('call', 'have_lpae', ()) for x in t[1]) and any(norm(x) == want8 for x in t[1]) and len(t[1]) == 2
            for e in mems:
                big = N(e.d['size'], asg) == const(8)
                if big and not guard_has(e.guards, lpae_guard, True):
                    bad('C02-T', 'doubleword alignment test [%s]' % tag, 'the 8-byte access must be chosen exactly when HaveLPAE() and address<2:0> == 000')
                if not big and not guard_has(e.guards, lpae_guard, False):
                    bad('C02-T', 'doubleword alignment test [%s]' % tag, 'the two word accesses must be chosen exactly when not (HaveLPAE() and address<2:0> == 000)')
        if fam.size == 8 and not fam.excl and mems and shapes != {(0, const(8)), (0, const(4)), (1, const(4))}:
            bad('C02-T', 'doubleword split [%s]' % tag, 'a doubleword transfer is one 8-byte access or the words at address and address+4; found %s' %
                sorted((s, fmt(z)) for s, z in shapes))
        # alignment probes
        for e in evs:
            terms = [g[0] for g in e.guards] + [v for v in e.d.values() if isinstance(v, tuple)]
            for t in terms:
                for s in subterms(N(t, asg)):
                    if not isinstance(s, tuple) or not s:
                        continue
                    x = is_align_probe(s)
                    if x is None or has(x, lambda u: isinstance(u, tuple) and u and u[0] == 'mem'):
                        continue
                    if not has(x, lambda u: u == ('reg', ('field', 'n')) or u == ('pc',)):
                        continue
                    if x[0] == 'call' and x[1] == 'align':
                        continue
                    if repr(x) not in addr_ok:
                        bad('C02-T', 'alignment source [%s]' % tag, 'the low address bits are taken from `%s`, not from the access address `%s`' % (
                            fmt(x)[:120], fmt(tp.address[0])[:120]))
        # loaded value
        if fam.load:
            for e in evs:
                if e.kind != 'RegWrite' or e.d['idx'] not in (('field', 't'), ('field', 't2')):
                    continue
                second = e.d['idx'] == ('field', 't2')
                v = N(e.d['value'], asg)
                if not load_value_ok(v, fam, second, addr_slot, e, asg, kind):
                    bad('C02-T', 'loaded value R[%s] [%s]' % (fmt(e.d['idx']), tag), 'R[%s] receives `%s`; the template value is %s' % (
                        fmt(e.d['idx']), fmt(v)[:140], value_desc(fam, second)))
            if not any(e.kind in ('RegWrite', 'Branch') and (e.kind == 'Branch' or e.d['idx'] == ('field', 't')) for e in evs):
                bad('C02-T', 'destination [%s]' % tag, 'the loaded value is never written to R[t]')
            if fam.size == 8 and not any(e.kind == 'RegWrite' and e.d['idx'] == ('field', 't2') for e in evs):
                bad('C02-T', 'destination t2 [%s]' % tag, 'the second word is never written to R[t2]')
            # on EVERY path on which memory is read the destination(s) are written (or the PC is loaded): the guards of the
            # reads and of the destination writes are enumerated as opaque atoms (LPAE single access, endianness, ...)
            def peel(t, pol):
                while t[0] == 'not':
                    t, pol = t[1], not pol
                return repr(N(t, asg)), pol
            dest = [e for e in evs if (e.kind == 'RegWrite' and e.d['idx'] in (('field', 't'), ('field', 't2'))) or e.kind == 'Branch']
            rds = [e for e in mems if e.kind == 'MemRead']
            atoms = []
            for e in rds:
                for t, pol, _ in e.guards:
                    k = peel(t, pol)[0]
                    if k not in atoms:
                        atoms.append(k)
            for e in dest:
                # the endianness split of a doubleword is made after the read: both sides must write both registers
                for t, pol, _ in e.guards:
                    k = peel(t, pol)[0]
                    if 'big_endian' in k and k not in atoms:
                        atoms.append(k)
            if rds and len(atoms) <= 8:
                def live_under(e, val):
                    for t, pol, _ in e.guards:
                        k, p = peel(t, pol)
                        if k in val and val[k] != p:
                            return False
                    return True
                for vals in itertools.product((True, False), repeat=len(atoms)):
                    val = dict(zip(atoms, vals))
                    if not any(live_under(e, val) for e in rds):
                        continue
                    need = [('field', 't')] + ([('field', 't2')] if fam.size == 8 else [])
                    for r in need:
                        if not any(live_under(e, val) and (e.kind == 'Branch' or e.d['idx'] == r) for e in dest):
                            bad('C02-T', 'destination R[%s] not written on a path [%s]' % (fmt(r), tag),
                                'memory is read but R[%s] is not written on the path where %s' % (
                                    fmt(r), ', '.join('%s is %s' % (a[:50], v) for a, v in val.items() if not a.startswith("('pcall', 'condition_passed'"))[:300]))
                            break
        else:
            for e in mems:
                if e.kind != 'MemWrite':
                    continue
                slot = addr_slot(e.d['addr'])
                if slot is None:
                    continue
                v = N(e.d['value'], asg)
                if not store_value_ok(v, fam, slot, N(e.d['size'], asg), e):
                    bad('C02-T', 'stored value [%s]' % tag, 'memory receives `%s`; the template value is %s' % (
                        fmt(v)[:140], 'R[t] truncated to %d bits' % (8 * min(fam.size, 4)) if fam.size < 8 else 'R[t] / R[t2] (R[t]:R[t2] by endianness)'))
        check_legacy_arms(bad, fam, evs, mems, addr_ok, addr_slot, asg, tag, arm_values)
        # write-back
        wbs = [e for e in evs if e.kind == 'RegWrite' and e.d['idx'] == ('field', 'n')]
        if tp.wb and not wbs:
            bad('C02-T', 'missing write-back [%s]' % tag, 'write-back is selected but R[n] is not updated')
        for e in wbs:
            if not tp.wb:
                bad('C02-T', 'write-back [%s]' % tag, 'R[n] is written although write-back is not selected')
            elif repr(N(e.d['value'], asg)) not in set(map(repr, tp.offset_addr)):
                bad('C02-T', 'write-back value [%s]' % tag, 'R[n] := `%s`; the template value is offset_addr `%s`' % (
                    fmt(N(e.d['value'], asg))[:140], fmt(tp.offset_addr[0])[:140]))
        # exclusive monitors
        if fam.excl:
            mon = [e for e in evs if e.kind == 'ProcCall' and e.d['method'] in ('set_exclusive_monitors', 'exclusive_monitors_pass')]
            want = 'set_exclusive_monitors' if fam.load else 'exclusive_monitors_pass'
            if not any(e.d['method'] == want for e in mon):
                bad('C02-X', 'monitor call', '%s is never called' % want)
            for e in mon:
                a = [N(x, asg) for x in e.d['args']]
                if e.d['method'] != want:
                    bad('C02-X', 'monitor call', '%s called by a %s' % (e.d['method'], fam.describe()))
                if len(a) != 2 or repr(a[0]) not in addr_ok:
                    bad('C02-X', 'monitor address', 'the monitor is given `%s`, not the access address' % (fmt(a[0])[:120] if a else '-'))
                elif a[1] != const(fam.size):
                    bad('C02-X', 'monitor size', 'the monitor is given size %s but the access transfers %d bytes' % (fmt(a[1]), fam.size))
            if fam.load and fam.size == 8:
                # LDREXD: if address<2:0> != '000' then AlignmentFault(address, FALSE) - explicit, because MemA aligns down in the legacy model
                af = [e for e in evs if e.kind == 'ProcCall' and e.d['method'] == 'alignment_fault']
                want_g = ('cmp', 'NotEq', low(tp.address[0], 3), const(0))
                if len(af) != 1:
                    bad('C02-X', 'doubleword alignment fault', 'LDREXD must raise an alignment fault for an address that is not doubleword aligned')
                else:
                    a = [N(x, asg) for x in af[0].d['args']]
                    if len(a) != 2 or repr(a[0]) not in addr_ok or a[1] != const(False):
                        bad('C02-X', 'alignment fault arguments', 'AlignmentFault(address, FALSE) expected; found (%s)' % ', '.join(fmt(t) for t in a))
                    if not guard_has(af[0].guards, lambda t: norm(t) == want_g, True):
                        bad('C02-X', 'doubleword alignment test', 'the fault must be raised exactly when address<2:0> != 000; found guard `%s`' % (
                            ' & '.join(fmt(norm(g))[:60] for g, p_, _ in af[0].guards[-1:])))
            if not fam.load:
                is_pass = lambda t: t[0] == 'pcall' and t[1] == 'exclusive_monitors_pass'
                for e in mems:
                    if not guard_has(e.guards, is_pass, True):
                        bad('C02-X', 'store without pass', 'the exclusive store is performed without a successful exclusive_monitors_pass')
                st = [e for e in evs if e.kind == 'RegWrite' and e.d['idx'] == ('field', 'd')]
                got = set()
                for e in st:
                    # the status may be written once with a conditional value: judge every leaf under its conditions
                    for v, g in split_ite(N(e.d['value'], asg), tuple(e.guards)):
                        p = guard_has(g.guards, is_pass, True)
                        q = guard_has(g.guards, is_pass, False)
                        if (p and v == const(0)) or (q and v == const(1)):
                            got.add(v)
                        else:
                            bad('C02-X', 'status value', 'R[d] := %s on the %s side (0 = stored, 1 = not stored)' % (
                                fmt(v), 'pass' if p else 'fail' if q else 'unconditional'))
                if got != {const(0), const(1)}:
                    bad('C02-X', 'status register', 'R[d] must be 0 when the store was performed and 1 otherwise')
        # load to PC
        if fam.load and fam.size == 4 and not fam.excl and not fam.unpriv:
            brs = [e for e in evs if e.kind == 'Branch']
            if fr.feasible(ci.name, {'t': 15}):
                if not brs:
                    bad('C02-PC', 'missing PC path', 't == 15 is accepted by the decode layer but there is no load_write_pc path')
                for e in evs:
                    if e.kind == 'RegWrite' and e.d['idx'] == ('field', 't') and not guard_has(e.guards, is_t15, False):
                        bad('C02-PC', 'R[t] write with t == 15', 'R[t] is written without a t != 15 test although t == 15 is decodable')
            for e in brs:
                v = N(e.d['target'], asg)
                if not (v[0] == 'mem' and repr(v[2]) in addr_ok and v[3] == const(4)):
                    bad('C02-PC', 'load_write_pc operand', 'load_write_pc receives `%s`, not the word loaded from the access address' % fmt(v)[:140])
                if not guard_has(e.guards, is_t15, True):
                    bad('C02-PC', 'load_write_pc guard', 'load_write_pc is not on the t == 15 side')
                if not any(pol and aligned_word_test(N(g, asg), addr_ok) for g, pol, _ in e.guards) or any(
                        legacy_guard(e.guards, us, False, arm, addr_ok, 4, asg) for us in (False, True) for arm in arm_values):
                    bad('C02-PC', 'alignment test', 'load_write_pc must be reachable only when address<1:0> == 00 '
                        '(it is reachable for an unaligned address, or no test of the low address bits guards it)')
    run.instance('C02-T', ci.name, obligations=9 * nasg, ok=ok[0],
                 sample={'class': ci.name, 'family': fam.describe(), 'assignments': nasg, 'encodings': sorted(encs)})


def legacy_truth(t, us, al, arm, addr_ok, size):
    """Three-valued truth of a guard term over the atoms UnalignedSupport(), address<k:0> == 0 (k = 1 for words, 0 for
    halfwords; on the access address only) and CurrentInstrSet() == ARM; None = the term is about something else."""
    if not isinstance(t, tuple) or not t:
        return None
    if t[0] == 'pcall' and t[1] == 'unaligned_support':
        return us
    if t[0] == 'not':
        r = legacy_truth(t[1], us, al, arm, addr_ok, size)
        return None if r is None else not r
    if t[0] in ('and', 'or'):
        rs = [legacy_truth(x, us, al, arm, addr_ok, size) for x in t[1]]
        if t[0] == 'and':
            return False if False in rs else (True if all(r is True for r in rs) else None)
        return True if True in rs else (False if all(r is False for r in rs) else None)

    def low_bits(x):
        # the low address bits whose being zero means "aligned for this access"
        if x[0] == 'call' and x[1] == 'lower_chunk' and x[2][1] == const(2 if size == 4 else 1) and repr(x[2][0]) in addr_ok:
            return True
        if size == 2 and x[0] == 'call' and x[1] == 'bit_at' and x[2][1] == const(0) and repr(x[2][0]) in addr_ok:
            return True
        return False
    if low_bits(t):
        return not al                                     # truthiness of the low bits
    if t[0] == 'cmp' and t[1] in ('Eq', 'NotEq'):
        for a, b in ((t[2], t[3]), (t[3], t[2])):
            if b == const(0) and low_bits(a):
                return al if t[1] == 'Eq' else not al
            if a == ('rcall', 'current_instr_set', ()) and b == ('enum', 'InstrSet', 'ARM'):
                return arm if t[1] == 'Eq' else not arm
            if a == ('rcall', 'current_instr_set', ()) and b[0] == 'enum' and b[1] == 'InstrSet' and arm:
                return t[1] != 'Eq'                       # in ARM state the set is no other member
    return None


def legacy_guard(guards, us, al, arm, addr_ok, size, asg):
    """Is an event under `guards` live for this valuation of the three atoms?  Guards about other things are ignored."""
    for term, pol, _ in guards:
        r = legacy_truth(N(term, asg), us, al, arm, addr_ok, size)
        if r is not None and r != pol:
            return False
    return True


def check_legacy_arms(bad, fam, evs, mems, addr_ok, addr_slot, asg, tag, arm_values):
    """C02-K: before ARMv7 (no unaligned support) an unaligned halfword/word transfer is UNKNOWN - or, for ARM-state word
    loads, the rotated word; the REAL transfer must still happen whenever
        UnalignedSupport() || address aligned [|| CurrentInstrSet() == ARM   for STR (register), STRT, STR (immediate, ARM)]
    and the rotation exactly on the complement in ARM state.  (UNKNOWN may be refined by any value, so only this direction
    is an obligation.)"""
    if fam.size not in (2, 4) or fam.excl:
        return
    arm_clause = (not fam.load) and fam.size == 4
    leaves = []
    if fam.load:
        for e in evs:
            if e.kind == 'RegWrite' and e.d['idx'] == ('field', 't'):
                for v, g in split_ite(N(e.d['value'], asg), tuple(e.guards)):
                    leaves.append((v, g.guards))
    else:
        for e in mems:
            if e.kind == 'MemWrite' and addr_slot(e.d['addr']) == 0:
                for v, g in split_ite(N(e.d['value'], asg), tuple(e.guards)):
                    leaves.append((v, g.guards))
    if not leaves:
        return
    for us in (False, True):
        for al in (False, True):
            for arm in arm_values:
                live_real = any(legacy_guard(g, us, al, arm, addr_ok, fam.size, asg) for v, g in leaves
                                if not (v == const(0) or (v[0] == 'call' and v[1] == 'ror')))
                live_ror = any(legacy_guard(g, us, al, arm, addr_ok, fam.size, asg) for v, g in leaves
                               if v[0] == 'call' and v[1] == 'ror')
                must = us or al or (arm and arm_clause)
                where = 'UnalignedSupport()=%s, address %saligned, %s state' % (us, '' if al else 'un', 'ARM' if arm else 'Thumb')
                if must and not live_real:
                    bad('C02-K', 'legacy unaligned arm [%s]' % tag,
                        'with %s the architecture performs the real transfer (%s), but the tree only has the UNKNOWN / rotated arm there'
                        % (where, 'UnalignedSupport() || aligned' + (' || CurrentInstrSet() == ARM' if arm_clause else '')))
                if fam.load and fam.size == 4 and not must and arm and (live_real or not live_ror):
                    bad('C02-K', 'legacy rotated load [%s]' % tag,
                        'with %s the loaded word is rotated right by 8*address<1:0> (ARM state, before ARMv7); the tree %s there'
                        % (where, 'also writes the unrotated word' if live_real else 'has no rotated arm'))


def aligned_word_test(g, addr_ok):
    for s in subterms(g):
        if isinstance(s, tuple) and s and s[0] == 'cmp' and s[1] == 'Eq':
            for a, b in ((s[2], s[3]), (s[3], s[2])):
                if b == const(0) and a[0] == 'call' and a[1] == 'lower_chunk' and a[2][1] == const(2) and repr(a[2][0]) in addr_ok:
                    return True
    return False


def value_desc(fam, second):
    if fam.size == 8:
        return 'the %s word of the doubleword at address' % ('second' if second else 'first')
    if fam.signed:
        return 'sign_extend(Mem[address,%d], %d, 32)' % (fam.size, 8 * fam.size)
    return 'Mem[address,%d] zero-extended' % fam.size


def unaligned_fallback(e):
    """True when the event sits on the not-(unaligned_support or aligned) side."""
    return guard_has(e.guards, lambda t: has(t, lambda u: isinstance(u, tuple) and u and u[0] == 'pcall' and u[1] == 'unaligned_support'), False)


class _G:
    def __init__(self, guards):
        self.guards = guards


def split_ite(v, guards):
    """Leaves of a conditional value with the guards extended by the conditions taken."""
    if isinstance(v, tuple) and v and v[0] == 'ite' and not (v[1] and v[1][0] == 'cmp' and v[1][2] == ('field', 't')):
        yield from split_ite(v[2], guards + ((v[1], True, None),))
        yield from split_ite(v[3], guards + ((v[1], False, None),))
    else:
        yield v, _G(guards)


def load_value_ok(v, fam, second, addr_slot, e, asg, kind):
    return all(_load_value_ok(x, fam, second, addr_slot, g, asg, kind) for x, g in split_ite(v, tuple(e.guards)))


def _load_value_ok(v, fam, second, addr_slot, e, asg, kind):
    def data(t, size, slot):
        return isinstance(t, tuple) and t and t[0] == 'mem' and t[3] == const(size) and addr_slot(t[2]) == slot
    if fam.size == 8:
        if data(v, 4, 1 if second else 0):
            return True
        # halves of one 8-byte access chosen by endianness
        if v[0] == 'call' and v[1] == 'substring' and data(v[2][0], 8, 0):
            hi = v[2][1:] == (const(63), const(32))
            lo = v[2][1:] == (const(31), const(0))
            be = guard_has(e.guards, lambda t: t[0] == 'pcall' and t[1] == 'big_endian', True)
            le = guard_has(e.guards, lambda t: t[0] == 'pcall' and t[1] == 'big_endian', False)
            if not (hi or lo) or not (be or le):
                return False
            first_high = be
            return (hi if first_high else lo) if not second else (lo if first_high else hi)
        if v[0] == 'call' and v[1] == 'lower_chunk' and v[2][1] == const(32) and data(v[2][0], 8, 0):
            be = guard_has(e.guards, lambda t: t[0] == 'pcall' and t[1] == 'big_endian', True)
            le = guard_has(e.guards, lambda t: t[0] == 'pcall' and t[1] == 'big_endian', False)
            return (be and second) or (le and not second)
        return False
    if second:
        return False
    if v == const(0) and fam.size in (2, 4) and unaligned_fallback(e):
        return True   # UNKNOWN on the unaligned-without-support path
    if fam.signed:
        return v[0] == 'call' and v[1] == 'sign_extend' and data(v[2][0], fam.size, 0) and v[2][1:] == (const(8 * fam.size), const(32))
    if data(v, fam.size, 0):
        return True
    if fam.size == 4 and v[0] == 'call' and v[1] == 'ror' and data(v[2][0], 4, 0) and v[2][1] == const(32) and unaligned_fallback(e):
        amt = v[2][2]
        if amt[0] == 'op' and amt[1] == 'Mult':
            a, b = (amt[2], amt[3]) if amt[2] == const(8) else (amt[3], amt[2])
            if a == const(8) and b[0] == 'call' and b[1] == 'lower_chunk' and b[2][1] == const(2) and addr_slot(b[2][0]) == 0:
                return True
    return False


def store_value_ok(v, fam, slot, size, e):
    return all(_store_value_ok(x, fam, slot, size, g) for x, g in split_ite(v, tuple(e.guards)))


def _store_value_ok(v, fam, slot, size, e):
    rt = ('reg', ('field', 't'))
    rt2 = ('reg', ('field', 't2'))
    t15 = ('cmp', 'Eq', ('field', 't'), const(15))
    if fam.size == 8:
        if size == const(4):
            return v == (rt2 if slot == 1 else rt)
        if v[0] == 'call' and v[1] == 'chain' and v[2][2] == const(32):
            be = guard_has(e.guards, lambda t: t[0] == 'pcall' and t[1] == 'big_endian', True)
            le = guard_has(e.guards, lambda t: t[0] == 'pcall' and t[1] == 'big_endian', False)
            return (be and v[2][:2] == (rt, rt2)) or (le and v[2][:2] == (rt2, rt))
        return False
    if v == const(0) and fam.size in (2, 4) and unaligned_fallback(e):
        return True
    if fam.size == 4:
        if v == rt:
            return True
        if v == ('pc',) and guard_has(e.guards, lambda t: norm(t) == t15, True):
            return True
        if v[0] == 'ite' and norm(v[1]) == t15 and v[2] == ('pc',) and v[3] == rt:
            return True
        return False
    return v == low(rt, 8 * fam.size)


def writeback_before_access(tr, base_idxs):
    """(access event, write event) pairs where a base-register write precedes a memory access on some path."""
    for w in tr.events:
        if w.loops:
            continue
        if (w.kind == 'RegWrite' and w.d['idx'] in base_idxs) or w.kind == 'RmodeWrite':
            for e in tr.events:
                if e.idx > w.idx and e.kind in ('MemRead', 'MemWrite') and not exclusive(e, w):
                    yield e, w


def check_null_check_call(bad, rule, tr, encs, want_arg, what):
    """Every class with a Thumb encoding performs NullCheckIfThumbEE(<base>) once, under condition_passed() only, before its
    first memory access (ARM-only classes may omit it: the check is a no-op outside ThumbEE state)."""
    calls = [e for e in tr.events if e.kind == 'ProcCall' and e.d['recv'] == '' and e.d['method'] == 'null_check_if_thumbee']
    thumb = any(re.search(r'T\d$', en) for en in encs)
    if not calls:
        if thumb:
            bad(rule, 'missing NullCheckIfThumbEE', 'a %s with a Thumb encoding must perform NullCheckIfThumbEE(%s) before the access '
                '(in ThumbEE state a zero base register branches to the null-check handler)' % (what, fmt(want_arg)))
        return
    first_mem = min([e.idx for e in tr.events if e.kind in ('MemRead', 'MemWrite')] or [1 << 30])
    for e in calls:
        a = e.d['args']
        if len(a) != 1 or a[0] != want_arg:
            bad(rule, 'NullCheckIfThumbEE operand', 'NullCheckIfThumbEE(%s) checks the wrong register: the base of this %s is %s'
                % (', '.join(fmt(x) for x in a), what, fmt(want_arg)))
        if e.idx > first_mem:
            bad(rule, 'NullCheckIfThumbEE after the access', 'the null check must precede the first memory access')
        unpred = [u for u in tr.events if u.kind == 'Unpredictable']

        def peel(g):
            t, pol = g[0], g[1]
            while t[0] == 'not':
                t, pol = t[1], not pol
            return t, pol
        # a test whose other side is UNPREDICTABLE (`if CurrentModeIsHyp() then UNPREDICTABLE`) may precede the null check
        extra = [g for g in e.guards if not is_condition_passed(peel(g)[0]) and g[0][0] != 'tryok' and
                 not any(any(peel(h)[0] == peel(g)[0] and peel(h)[1] != peel(g)[1] for h in u.guards) for u in unpred)]
        if extra:
            bad(rule, 'conditional NullCheckIfThumbEE', 'the null check is skipped under `%s`' % fmt(extra[0][0])[:80])


def check_null_check(run, repo, rule):
    """NullCheckIfThumbEE(n) (called by every load/store with a base register): nothing happens outside ThumbEE state; in
    ThumbEE state a zero base (n not 13 / 15) sets LR = PC<31:1>:'1', clears ITSTATE, branches to TEEHBR - 4 and ends the
    instruction.  Decided on the effect trace of ArmV6.null_check_if_thumbee."""
    from ..effects import _SelfWalker
    fi = repo.method('ArmV6', 'null_check_if_thumbee')
    tr = _SelfWalker(repo, 'ArmV6', []).walk(fi, repo.cls('ArmV6'))
    params = [a.arg for a in fi.node.args.args if a.arg != 'self']
    if len(params) != 1:
        raise AnalysisError('null_check_if_thumbee: expected one parameter (the base register number)')
    n = ('name', params[0])
    def truth(t, te, n15, n13, z):
        """Three-valued truth over the atoms: in ThumbEE state, n == 15, n == 13, R[n] == 0."""
        if not isinstance(t, tuple) or not t:
            return None
        if t[0] == 'not':
            r = truth(t[1], te, n15, n13, z)
            return None if r is None else not r
        if t[0] in ('and', 'or'):
            rs = [truth(x, te, n15, n13, z) for x in t[1]]
            if t[0] == 'and':
                return False if False in rs else (True if all(r is True for r in rs) else None)
            return True if True in rs else (False if all(r is False for r in rs) else None)
        if t == ('reg', n):
            return not z
        if t[0] == 'cmp' and t[1] in ('Eq', 'NotEq'):
            r = None
            for a, b in ((t[2], t[3]), (t[3], t[2])):
                if a == ('rcall', 'current_instr_set', ()) and b[0] == 'enum' and b[1] == 'InstrSet':
                    r = te if b[2] == 'THUMB_EE' else (False if te else None)
                elif a == n and b == const(15):
                    r = n15
                elif a == n and b == const(13):
                    r = n13
                elif a == ('reg', n) and b == const(0):
                    r = z
            if r is not None:
                return r if t[1] == 'Eq' else not r
        return None

    def live(e, te, n15, n13, z):
        for term, pol, _ in e.guards:
            r = truth(term, te, n15, n13, z)
            if r is not None and r != pol:
                return False
        return True
    ok = True
    effects = [e for e in tr.events if e.kind in ('RegWrite', 'FlagWrite', 'SysWrite', 'Branch', 'Raise', 'Unpredictable', 'Print',
                                                  'RmodeWrite', 'CpsrWriteByInstr', 'SpsrWrite', 'BranchTo', 'SelectISet', 'ObjStore',
                                                  'ProcStore', 'MemWrite', 'MemRead', 'TakeException', 'ItAdvance')]
    vals = [(te, n15, n13, z) for te in (False, True) for n15 in (False, True) for n13 in (False, True) for z in (False, True)
            if not (n15 and n13)]
    for e in effects:
        if any(live(e, False, n15, n13, z) for _, n15, n13, z in vals):
            ok = False
            run.violation(rule, fi.relpath, fi.qualname, 'effect outside ThumbEE state: ' + e.kind,
                          'NullCheckIfThumbEE must do nothing unless CurrentInstrSet() == ThumbEE; `%s` is reachable in other states '
                          '(a load/store with a zero base register would then branch to TEEHBR - 4)' % e.text()[:100])
    hits = [e for e in effects if e.kind in ('RegWrite', 'FlagWrite', 'Branch', 'Raise')]
    want = {'RegWrite': lambda e: e.d['idx'] == const(14) and e.d['value'] in (('op', 'BitOr', ('pc',), const(1)), ('op', 'BitOr', const(1), ('pc',)),
                                                                              ('call', 'set_bit_at', (('pc',), const(0), const(1)))),
            'FlagWrite': lambda e: e.d['flag'] == 'it' and e.d['value'] == const(0),
            'Branch': lambda e: e.d['kind'] == 'branch' and e.d['target'][0] == 'call' and e.d['target'][1] == 'sub' and
            len(e.d['target'][2]) == 3 and e.d['target'][2][1:] == (const(4), const(32)) and
            e.d['target'][2][0] in (('sys', 'teehbr'), ('procattr', 'registers.teehbr')),
            'Raise': lambda e: 'EndOfInstruction' in e.d['exc']}
    seen = set()
    for e in hits:
        good = want[e.kind](e) and all(live(e, *v) == (v[0] and not v[1] and not v[2] and v[3]) for v in vals)
        if not good:
            ok = False
            run.violation(rule, fi.relpath, fi.qualname, 'null-check effect ' + e.kind,
                          'in ThumbEE state a zero base register (not SP, not PC) gives LR = PC | 1, ITSTATE = 0, BranchWritePC(TEEHBR - 4), '
                          'EndOfInstruction - found `%s` under `%s`' % (e.text()[:80], ' & '.join(fmt(g[0])[:40] for g in e.guards[1:])))
        else:
            seen.add(e.kind)
    if seen != set(want):
        ok = False
        run.violation(rule, fi.relpath, fi.qualname, 'null-check sequence',
                      'missing step(s) of the ThumbEE null check: %s' % ', '.join(sorted(set(want) - seen)))
    order = [e.kind for e in hits]
    if ok and (order.index('Raise') < order.index('Branch') or order.index('Branch') < order.index('RegWrite')):
        ok = False
        run.violation(rule, fi.relpath, fi.qualname, 'null-check order', 'LR is set from the PC before the branch; EndOfInstruction comes last')
    run.instance(rule, 'NullCheckIfThumbEE', obligations=len(effects) + 4, ok=ok, sample={'function': fi.qualname, 'effects': len(effects)})


def check_abort_ordering(run, repo, rule):
    """The C02-O / C03-O ordering rule on all single and block load/store classes (shared with C14)."""
    from . import c03
    eff = Effects(repo)
    bind = Binding(repo)
    n = 0
    for classes in (ls_classes(repo, bind), c03.bt_classes(repo, bind)):
        for name, (ci, fams, encs) in sorted(classes.items()):
            tr = Walker(repo, eff).walk(ci.methods['execute'], ci)
            n += 1
            seen = set()
            for e, w in writeback_before_access(tr, (('field', 'n'), const(13))):
                if e.kind in seen:
                    continue
                seen.add(e.kind)
                run.violation(rule, ci.relpath, ci.name + '.execute', '%s after base write-back' % e.kind,
                              'the base register is written back (`%s`) before the memory access `%s`: when that access aborts the '
                              'base must be unchanged' % (w.text()[:80], e.text()[:80]))
    return n


def _judge_mutant(run, mrepo, name, ctx):
    ci, fams, encs = ctx['classes'][name]
    check_class(run, mrepo, ctx['eff'], ctx['fr'], mrepo.cls(name), fams, encs)


def main(repo_path, tier, seed, replay=None):
    run = Run('C02', tier, level='other', seed=seed)
    repo = Repo(repo_path)
    eff = Effects(repo)
    bind = Binding(repo)
    fa = FuncAnalyzer(repo)
    fr = FieldRanges(repo, fa)
    classes = ls_classes(repo, bind)
    for name, (ci, fams, encs) in sorted(classes.items()):
        check_class(run, repo, eff, fr, ci, fams, encs)
    run.floor('single load/store opcode classes', len(classes), 49)
    check_null_check(run, repo, 'C02-N')
    sub = Run('tmp')
    c10.check_widths(sub, repo, eff, fr, fa, rule='C02-W', select=None)
    names = set(classes)
    for f in sub.findings:
        if f.func.split('.')[0] in names:
            run.violation('C02-W', f.file, f.func, f.construct, f.message, f.detail)
    run.instance('C02-W', 'widths of addresses, loaded values and write-back values', obligations=len(names), ok=True,
                 sample={'classes': len(names)})
    from . import c17_arith
    sub = Run('tmp')
    c17_arith.check_arith(sub, repo)
    used = ('add', 'sub', 'shift_c', 'shift', 'lsl_c', 'lsr_c', 'asr_c', 'ror_c', 'sign_extend', 'to_signed', 'to_unsigned')
    hb = [f for f in sub.findings if f.func in used]
    for f in hb:
        run.violation('C02-H', f.file, f.func, f.construct, f.message, f.detail)
    run.instance('C02-H', 'add / sub mod 2^32, Shift_C, sign_extend bit-exact', obligations=len(used), ok=not hb, sample={'helpers': list(used)})
    controls(run, repo_path, repo, eff, fr, classes)
    if tier == 'thorough':
        from ..selftest import run_selftest
        targets = [(name, ci.module.relpath, ci.module.source, name + '.execute') for name, (ci, fams, encs) in sorted(classes.items())]
        run_selftest(run, repo_path, 'C02', targets, _judge_mutant, {'fr': fr, 'eff': eff, 'classes': classes}, per_function=8, floor=75, seconds=12)
    run.exhaustive = True
    run.undecided = ['the bytes moved for given data, endianness and alignment (C13 accessor conformance, C17 helpers)',
                     ]
    run.assumptions = ['families are bound through the reference encodings (spec/enc_*.json); operand decoding is C06/C07',
                       'Registers.get/set and the Mem* accessors are the only register/memory interfaces used by execute() bodies (C10-O, C19)']
    return run.finish(
        'C02: each of the 49 single load/store execute() bodies is reduced to an effect trace; for every assignment of its boolean '
        'addressing fields the address, size, accessor, extension, target, stored value, write-back value and guard terms are partially '
        'evaluated and compared with the family template, together with ordering (access and operand reads before any register '
        'write), the load-to-PC rule against the decode model, exclusive-monitor consistency, frame, guard and width rules. These are '
        'properties of all paths of a loop-free body, so they hold for every base, offset, data value and configuration.',
        './check C02 --tier %s' % tier)


def controls(run, repo_path, repo, eff, fr, classes):
    def mutated(cname, fn):
        ci, fams, encs = classes[cname]
        src = ci.module.source
        new = fn(src)
        if new is None or new == src:
            return None
        mrepo = Repo(repo_path, overrides={ci.module.relpath: new})
        tmp = Run('C02')
        check_class(tmp, mrepo, eff, fr, mrepo.cls(cname), fams, encs)
        return tmp.findings

    def swap_wback(src):
        # move the write-back statement in front of the memory access (AST edit)
        tree = ast.parse(src)
        for f in ast.walk(tree):
            if isinstance(f, ast.FunctionDef) and f.name == 'execute':
                for n in ast.walk(f):
                    body = getattr(n, 'body', None)
                    if not isinstance(body, list):
                        continue
                    for blk in (body, getattr(n, 'orelse', [])):
                        idx = [i for i, s in enumerate(blk) if isinstance(s, ast.If) and ast.unparse(s.test) == 'self.wback']
                        acc = [i for i, s in enumerate(blk) if 'mem_u_' in ast.unparse(s) or 'mem_a_' in ast.unparse(s)]
                        if idx and acc and acc[0] < idx[0]:
                            s = blk.pop(idx[0])
                            blk.insert(acc[0], s)
                            return ast.unparse(tree)
        return None
    for cname, fn, what in (
            ('StrhRegister', swap_wback, 'write-back moved before the store'),
            ('LdrsbLiteral', lambda s: s.replace('sign_extend(processor.mem_u_get(address, 1), 8, 32)', 'processor.mem_u_get(address, 1)'),
             'sign extension dropped'),
            ('StrRegister', lambda s: re.sub(r'\s+or\s*\n?\s*processor\.registers\.current_instr_set\(\) == InstrSet\.ARM', '', s),
             'ARM-state clause of the legacy unaligned store dropped'),
            ('Strexb', lambda s: re.sub(r'exclusive_monitors_pass\(address, 1\)', 'exclusive_monitors_pass(address, 4)', s),
             'monitor size differs from the access size')):
        if cname not in classes:
            run.control('C02 ' + what, False, '')
            continue
        f = mutated(cname, fn)
        run.control('C02 ' + what, bool(f), '%s: %s' % (cname, what) if f is not None else '')
