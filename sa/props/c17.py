"""C17 - bit-vector primitives and register field views.

  C17-V  field views: for every register view class each property's getter reads exactly the
         architectural bit positions (reference: spec/regfields.json), its setter writes exactly
         those bits with the value's bits in the same order and leaves every other bit
         unchanged; two fields of one register overlap only where the architecture aliases
         them; indexed accessors (get_cp_n, get_d_n, ...) address the right slice for every n.
  C17-T  helper tables and wiring: DecodeImmShift / DecodeRegShift decision tables; Shift_C
         dispatch (amount == 0 passthrough, one primitive per type, arguments passed through);
         ARMExpandImm_C / ThumbExpandImm_C argument wiring and the non-rotating byte replication;
         substring / set_substring / bit_at / set_bit_at / chain / lower_chunk / bit_not /
         sign_extend / big_endian_reverse as exact bit wiring for constant positions; RRX_C.
  C17-X  shifter width: every call of a shift primitive passes the operand width 32 (the only
         other width is ITAdvance's 4-bit mask).
  C17-A  arithmetic primitives bit-exact (sa/props/c17_arith.py): AddWithCarry, add/sub, the four
         shifters and Shift_C for every amount, the expand-immediate functions for all 4096
         immediates, saturation for every N, to_signed/to_unsigned/sign_extend, bit counts.
"""
import ast

from .. import spec as specmod, refmodel
from ..bdd import BDD
from ..bitdom import Interp, Int, V, Value, Tup, UF, NONE, Policy, Unsupported, sym_int
from ..machine import Machine, StatePolicy
from ..report import Run, AnalysisError
from ..srcmodel import Repo, norm_stmt

VIEW_PKG = 'armulator.armv6.all_registers'
# architectural aliases: fields of one register that legitimately share bits
ALIASES = {
    'SCTLR': [{'dz', 'wxn'}, {'ha', 'br'}],
    'TTBCR': [{'n', 't0sz'}, {'pd0', 'pd1', 'epd0', 'a1', 'n', 't0sz', 'irgn0', 'orgn0', 'sh0', 't1sz', 'irgn1', 'orgn1', 'sh1',
                              'epd1', 'eae'}],
    'DFSR': [{'domain', 'status', 'fs', 'lpae', 'cm', 'ext', 'wnr'}],
    'CPSR': [{'isetstate', 'j', 't'}, {'apsr', 'n', 'z', 'c', 'v', 'q', 'ge'}],
}


def view_classes(repo):
    out = []
    for m in repo.modules_under(VIEW_PKG):
        for ci in m.classes.values():
            if ci.is_subclass_of('AbstractRegister') and ci.name != 'AbstractRegister':
                out.append(ci)
    return sorted(out, key=lambda c: c.name)


class ViewPolicy(Policy):
    def __init__(self, B):
        self.B = B

    def attr(self, it, obj, attr, st):
        if attr == 'value':
            return V(sym_int(self.B, 'value', 32))
        if attr == 'length':
            return V(it.const(32))
        return None


def run_getter(repo, ci, name):
    B = BDD()
    it = Interp(repo, B, ViewPolicy(B))
    g = ci.find_getter(name)
    rets = it.run_function(g, [V(('obj', 'self', ci.name))])
    cases = []
    for c, v, s in rets:
        for cc, p in v.cases:
            cases.append((B.AND(c, cc), p))
    return it, Value(it.coalesce(cases))


def getter_bits(repo, ci, name):
    """Bit positions (MSB first) the getter returns; None if it is not a pure bit selection."""
    it, v = run_getter(repo, ci, name)
    p = v.single()
    if not isinstance(p, Int):
        return None
    B = it.B
    out = []
    for b in reversed(p.bits):
        if b in (0, 1):
            out.append('const%d' % b)
            continue
        v_, lo, hi = B.nodes[b]
        if lo == 0 and hi == 1 and B.names[v_].startswith('value['):
            out.append(int(B.names[v_][6:-1]))
        else:
            return None
    # masks such as CPSR.apsr read "value & const": represent as positions with const0 holes
    return out


def check_views(run, repo):
    ref = specmod.load('regfields.json')
    classes = view_classes(repo)
    nfields = 0
    for ci in classes:
        want = ref.get(ci.name)
        if want is None:
            run.violation('C17-V', ci.relpath, ci.name, 'class', 'register view class %s has no entry in the reference field table' % ci.name)
            continue
        fields = {}
        for name in sorted(set(ci.getters) | set(want)):
            nfields += 1
            ok = True
            fn = '%s.%s' % (ci.name, name)
            if name not in ci.getters and ci.find_getter(name) is None:
                run.violation('C17-V', ci.relpath, fn, 'field missing', 'the reference table has field %s.%s but the class does not' % (ci.name, name))
                continue
            if name not in want:
                run.violation('C17-V', ci.relpath, fn, 'field unknown', 'field %s.%s is not in the reference field table' % (ci.name, name))
                continue
            try:
                got = getter_bits(repo, ci, name)
            except (Unsupported, AnalysisError) as e:
                got = None
            if got != want[name]:
                ok = False
                run.violation('C17-V', ci.relpath, fn, 'getter bits',
                              '%s.%s reads bits %s; the architecture places the field at %s' % (ci.name, name, got, want[name]))
            fields[name] = got
            # setter agreement
            st = ci.find_setter(name)
            if st is not None and got is not None:
                pos = [b for b in got if isinstance(b, int)]
                B = BDD()
                it = Interp(repo, B, ViewPolicy(B))
                val = sym_int(B, 'arg', len(pos))
                rets = it.run_function(st, [V(('obj', 'self', ci.name)), V(val)])
                fin = None
                for c, v, s in rets:
                    fin = s.heap.get('self.value')
                old = sym_int(B, 'value', 32)
                wantv = list(old.bits)
                for i, b in enumerate(reversed(pos)):      # LSB of the field value -> last listed position
                    wantv[b] = val.bits[i]
                r = None if fin is None else specmod.diff_values(it, 1, fin, V(Int(wantv)), 'value')
                if fin is None or r is not None:
                    ok = False
                    run.violation('C17-V', ci.relpath, fn + ' (setter)', 'setter bits',
                                  'the setter of %s.%s does not write exactly the bits its getter reads (in order, leaving the '
                                  'others unchanged): %s' % (ci.name, name, r[0] if r else 'no store'))
            run.instance('C17-V', fn, obligations=2, ok=ok, sample={'field': fn, 'bits': want[name]})
        # overlaps
        al = ALIASES.get(ci.name, [])
        names = sorted(fields)
        for i, a in enumerate(names):
            for b in names[i + 1:]:
                if fields[a] is None or fields[b] is None:
                    continue
                sa_ = {x for x in fields[a] if isinstance(x, int)}
                sb_ = {x for x in fields[b] if isinstance(x, int)}
                if sa_ & sb_ and not any(a in g and b in g for g in al):
                    run.violation('C17-V', ci.relpath, ci.name, 'overlap %s/%s' % (a, b),
                                  'fields %s and %s of %s share bit(s) %s; the architecture does not alias them' % (
                                      a, b, ci.name, sorted(sa_ & sb_)))
    run.floor('register view classes', len(classes), 36)
    run.floor('register fields', nfields, 185)


INDEXED = {  # class -> accessor -> (max n exclusive, lambda n: (hi, lo))
    'CPACR': {'get_cp_n': (14, lambda n: (2 * n + 1, 2 * n))},
    'NSACR': {'get_cp_n': (14, lambda n: (n, n))},
    'HCPTR': {'get_tcp_n': (14, lambda n: (n, n))},
    'DACR': {'get_d_n': (16, lambda n: (2 * n + 1, 2 * n))},
    'PRRR': {'get_tr_n': (8, lambda n: (2 * n + 1, 2 * n)), 'get_nos_n': (8, lambda n: (n + 24, n + 24))},
    'NMRR': {'get_ir_n': (8, lambda n: (2 * n + 1, 2 * n)), 'get_or_n': (8, lambda n: (2 * n + 17, 2 * n + 16))},
    'RSR': {'get_sd_n': (8, lambda n: (n + 8, n + 8))},
    'HSTR': {'get_t_n': (16, lambda n: (n, n))},
}


def check_indexed(run, repo):
    for cname, accs in INDEXED.items():
        ci = repo.cls(cname)
        for acc, (mx, f) in accs.items():
            fi = ci.find_method(acc)
            if fi is None:
                run.violation('C17-V', ci.relpath, '%s.%s' % (cname, acc), 'accessor missing', 'indexed accessor vanished')
                continue
            ok = True
            for n in range(mx):
                if cname == 'HSTR' and n == 14:
                    continue
                B = BDD()
                it = Interp(repo, B, ViewPolicy(B))
                rets = it.run_function(fi, [V(('obj', 'self', cname)), V(it.const(n))])
                hi, lo = f(n)
                old = sym_int(B, 'value', 32)
                want = Int(old.bits[lo:hi + 1])
                val = Value(it.coalesce([(B.AND(c, cc), p) for c, v, s in rets for cc, p in v.cases]))
                r = specmod.diff_values(it, 1, val, V(want), 'bits')
                if r is not None:
                    ok = False
                    run.violation('C17-V', ci.relpath, '%s.%s' % (cname, acc), 'n=%d' % n,
                                  '%s.%s(%d) must read bits [%d:%d]: %s' % (cname, acc, n, hi, lo, r[0]))
            run.instance('C17-V', '%s.%s' % (cname, acc), obligations=mx, ok=ok, sample={'accessor': acc, 'indices': mx})


# ---------------------------------------------------------------------------
# helper tables / wiring
# ---------------------------------------------------------------------------
class HelperPolicy(Policy):
    def __init__(self, uninterpreted=()):
        self.uninterpreted = frozenset(uninterpreted)


def helper(repo, modname, fname, args, uninterpreted=()):
    B = BDD()
    it = Interp(repo, B, HelperPolicy(uninterpreted))
    fi = repo.func(modname, fname)
    return B, it, fi


def check_helpers(run, repo):
    BO, SH = 'armulator.armv6.bits_ops', 'armulator.armv6.shift'

    def run_h(mod, fname, mkargs, uninterpreted=()):
        B = BDD()
        it = Interp(repo, B, HelperPolicy(uninterpreted))
        fi = repo.func(mod, fname)
        args = mkargs(B, it)
        rets = it.run_function(fi, [a if isinstance(a, Value) else V(a) for a in args])
        val = Value(it.coalesce([(B.AND(c, cc), p) for c, v, s in rets for cc, p in v.cases]))
        return B, it, fi, args, val

    def expect(rule_obj, fi, B, it, val, want, what, cond=1):
        r = specmod.diff_values(it, cond, val, want if isinstance(want, Value) else V(want), what)
        if r is not None:
            run.violation('C17-T', fi.relpath, fi.qualname, rule_obj, '%s: %s' % (what, r[0]))
            return False
        for o in it.outcomes:
            if o.kind in ('unbound', 'hosterror', 'assert_fail') and B.AND(o.cond, cond) != 0:
                run.violation('C17-T', fi.relpath, fi.qualname, rule_obj + ' host error', '%s can fail: %s %s' % (what, o.kind, o.payload))
                return False
        return True

    # --- slices for every constant position pair up to width 32 ---------------------------
    n = 0
    ok = True
    for msb in range(32):
        for lsb in range(msb + 1):
            B, it, fi, args, val = run_h(BO, 'substring', lambda B, it: [sym_int(B, 'x', 40), it.const(msb), it.const(lsb)])
            ok &= expect('substring(%d,%d)' % (msb, lsb), fi, B, it, val, Int(args[0].bits[lsb:msb + 1]), 'substring(x, %d, %d) = x[%d:%d]' % (msb, lsb, msb, lsb))
            n += 1
    run.instance('C17-T', 'substring', obligations=n, ok=ok, sample={'helper': 'substring', 'pairs': n})
    n = 0
    ok = True
    for msb in range(0, 32, 1):
        for lsb in range(0, msb + 1, max(1, (msb + 1) // 4)):
            w = msb - lsb + 1
            B, it, fi, args, val = run_h(BO, 'set_substring', lambda B, it: [sym_int(B, 'x', 32), it.const(msb), it.const(lsb), sym_int(B, 'v', w)])
            want = list(args[0].bits)
            want[lsb:msb + 1] = list(args[3].bits)
            ok &= expect('set_substring(%d,%d)' % (msb, lsb), fi, B, it, val, Int(want), 'set_substring(x, %d, %d, v) replaces exactly x[%d:%d]' % (msb, lsb, msb, lsb))
            n += 1
    run.instance('C17-T', 'set_substring', obligations=n, ok=ok, sample={'helper': 'set_substring', 'pairs': n})
    ok = True
    for i in range(32):
        B, it, fi, args, val = run_h(BO, 'bit_at', lambda B, it: [sym_int(B, 'x', 40), it.const(i)])
        ok &= expect('bit_at(%d)' % i, fi, B, it, val, Int([args[0].bits[i]]), 'bit_at(x, %d)' % i)
        B, it, fi, args, val = run_h(BO, 'set_bit_at', lambda B, it: [sym_int(B, 'x', 32), it.const(i), sym_int(B, 'v', 1)])
        want = list(args[0].bits)
        want[i] = args[2].bits[0]
        ok &= expect('set_bit_at(%d)' % i, fi, B, it, val, Int(want), 'set_bit_at(x, %d, v)' % i)
    run.instance('C17-T', 'bit_at / set_bit_at', obligations=64, ok=ok, sample={'helpers': ['bit_at', 'set_bit_at']})
    ok = True
    for k in (1, 2, 4, 7, 8, 11, 12, 16, 17, 24, 25, 31, 32):
        B, it, fi, args, val = run_h(BO, 'lower_chunk', lambda B, it: [sym_int(B, 'x', 40), it.const(k)])
        ok &= expect('lower_chunk(%d)' % k, fi, B, it, val, Int(args[0].bits[0:k]), 'lower_chunk(x, %d)' % k)
        B, it, fi, args, val = run_h(BO, 'chain', lambda B, it: [sym_int(B, 'h', 8), sym_int(B, 'l', k), it.const(k)])
        ok &= expect('chain(%d)' % k, fi, B, it, val, Int(list(args[1].bits) + list(args[0].bits)), 'chain(h, l, %d) = h:l' % k)
        B, it, fi, args, val = run_h(BO, 'bit_not', lambda B, it: [sym_int(B, 'x', k), it.const(k)])
        ok &= expect('bit_not(%d)' % k, fi, B, it, val, Int([B.NOT(b) for b in args[0].bits]), 'bit_not(x, %d)' % k)
        if k < 32:
            B, it, fi, args, val = run_h(BO, 'sign_extend', lambda B, it: [sym_int(B, 'x', k), it.const(k), it.const(32)])
            ok &= expect('sign_extend(%d,32)' % k, fi, B, it, val, Int(list(args[0].bits) + [args[0].bits[-1]] * (32 - k)),
                         'sign_extend(x, %d, 32) replicates bit %d' % (k, k - 1))
    run.instance('C17-T', 'lower_chunk / chain / bit_not / sign_extend', obligations=50, ok=ok, sample={})
    ok = True
    for nb in (1, 2, 4, 8):
        B, it, fi, args, val = run_h(BO, 'big_endian_reverse', lambda B, it: [sym_int(B, 'x', 8 * nb), it.const(nb)])
        x = args[0].bits
        want = []
        for i in range(nb):
            want += x[8 * (nb - 1 - i): 8 * (nb - i)]
        ok &= expect('big_endian_reverse(%d)' % nb, fi, B, it, val, Int(want), 'big_endian_reverse(x, %d) reverses the %d bytes' % (nb, nb))
    run.instance('C17-T', 'big_endian_reverse', obligations=4, ok=ok, sample={'sizes': [1, 2, 4, 8]})
    # --- align for power-of-two sizes --------------------------------------------------------------
    ok = True
    for k in (1, 2, 4, 8):
        B, it, fi, args, val = run_h(BO, 'align', lambda B, it: [sym_int(B, 'x', 32), it.const(k)])
        z = k.bit_length() - 1
        ok &= expect('align(%d)' % k, fi, B, it, val, Int([0] * z + list(args[0].bits[z:])), 'align(x, %d) clears the low %d bits' % (k, z))
    run.instance('C17-T', 'align', obligations=4, ok=ok, sample={})
    # --- DecodeImmShift / DecodeRegShift ------------------------------------------------------------
    B, it, fi, args, val = run_h(SH, 'decode_imm_shift', lambda B, it: [sym_int(B, 'type', 2), sym_int(B, 'imm5', 5)])
    ty, imm = args
    p = val.single()
    ok = isinstance(p, Tup) and len(p.items) == 2
    if ok:
        z = it.i_eq(imm, it.const(0))
        t = [it.i_eq(ty, it.const(k)) for k in range(4)]
        want_t = Value([(t[0], ('enum', 'SRType', 'LSL')), (t[1], ('enum', 'SRType', 'LSR')), (t[2], ('enum', 'SRType', 'ASR')),
                        (B.AND(t[3], z), ('enum', 'SRType', 'RRX')), (B.AND(t[3], B.NOT(z)), ('enum', 'SRType', 'ROR'))])
        n32 = it.const(32)
        want_n = it.i_ite(t[0], imm, it.i_ite(B.OR(t[1], t[2]), it.i_ite(z, n32, imm), it.i_ite(z, it.const(1), imm)))
        ok &= expect('decode_imm_shift type', fi, B, it, p.items[0], want_t, 'DecodeImmShift shift type table')
        ok &= expect('decode_imm_shift amount', fi, B, it, p.items[1], want_n, 'DecodeImmShift shift amount table (0 -> 32 for LSR/ASR, RRX -> 1)')
    else:
        run.violation('C17-T', fi.relpath, fi.qualname, 'decode_imm_shift shape', 'DecodeImmShift must return (shift_t, shift_n)')
    run.instance('C17-T', 'decode_imm_shift', obligations=128, ok=ok, sample={'rows': '4 types x 32 imm5'})
    B, it, fi, args, val = run_h(SH, 'decode_reg_shift', lambda B, it: [sym_int(B, 'type', 2)])
    t = [it.i_eq(args[0], it.const(k)) for k in range(4)]
    want = Value([(t[0], ('enum', 'SRType', 'LSL')), (t[1], ('enum', 'SRType', 'LSR')), (t[2], ('enum', 'SRType', 'ASR')),
                  (t[3], ('enum', 'SRType', 'ROR'))])
    ok = expect('decode_reg_shift', fi, B, it, val, want, 'DecodeRegShift table')
    run.instance('C17-T', 'decode_reg_shift', obligations=4, ok=ok, sample={})
    # --- Shift_C dispatch (primitives uninterpreted) ---------------------------------------------------
    prims = ('lsl_c', 'lsr_c', 'asr_c', 'ror_c', 'rrx_c')
    ok = True
    for tname, prim in (('LSL', 'lsl_c'), ('LSR', 'lsr_c'), ('ASR', 'asr_c'), ('ROR', 'ror_c'), ('RRX', 'rrx_c')):
        def mk(B, it, tname=tname):
            amt = sym_int(B, 'amount', 8) if tname != 'RRX' else it.const(1)
            return [sym_int(B, 'value', 32), it.const(32), ('enum', 'SRType', tname), amt, sym_int(B, 'carry', 1)]
        B, it, fi, args, val = run_h(SH, 'shift_c', mk, uninterpreted=prims)
        value, _, _, amt, carry = args
        zero = it.i_eq(amt, it.const(0))
        nz = B.NOT(zero)
        # amount == 0: (value, carry_in)
        if zero != 0:
            r = specmod.diff_values(it, zero, val, V(Tup([V(value), V(carry)])), 'passthrough')
            if r is not None:
                ok = False
                run.violation('C17-T', fi.relpath, fi.qualname, 'shift_c amount 0 (%s)' % tname,
                              'Shift_C with amount 0 must return (value, carry_in) unchanged: %s' % r[0])
        third = V(amt) if prim != 'rrx_c' else V(carry)
        uargs = [V(value), V(it.const(32)), third]
        want = V(Tup([V(UF(prim, uargs, 0)), V(UF(prim, uargs, 1))]))
        r = specmod.diff_values(it, nz, val, want, 'dispatch')
        if r is not None:
            ok = False
            run.violation('C17-T', fi.relpath, fi.qualname, 'shift_c dispatch (%s)' % tname,
                          'Shift_C(%s) with a non-zero amount must be exactly %s(value, 32, %s): %s' % (
                              tname, prim, 'carry_in' if prim == 'rrx_c' else 'amount', r[0]))
    run.instance('C17-T', 'shift_c dispatch', obligations=10, ok=ok, sample={'types': 5})
    # --- expand-immediate argument wiring ---------------------------------------------------------------
    B, it, fi, args, val = run_h(SH, 'arm_expand_imm_c', lambda B, it: [sym_int(B, 'imm12', 12), sym_int(B, 'c', 1)],
                                 uninterpreted=('shift_c',))
    imm, c = args
    want = V(UF('shift_c', [V(Int(imm.bits[0:8])), V(it.const(32)), V(('enum', 'SRType', 'ROR')),
                            V(Int([0] + list(imm.bits[8:12]))), V(c)]))
    ok = expect('arm_expand_imm_c', fi, B, it, val, want, 'ARMExpandImm_C = Shift_C(ZeroExtend(imm12[7:0]), SRType_ROR, 2*imm12[11:8], carry_in)')
    run.instance('C17-T', 'arm_expand_imm_c', obligations=5, ok=ok, sample={})
    B, it, fi, args, val = run_h(SH, 'thumb_expand_imm_c', lambda B, it: [sym_int(B, 'imm12', 12), sym_int(B, 'c', 1)],
                                 uninterpreted=('ror_c',))
    imm, c = args
    lo = list(imm.bits[0:8])
    z8 = [0] * 8
    sel = [it.i_eq(Int(imm.bits[8:10]), it.const(k)) for k in range(4)]
    rep = it.i_ite(sel[0], Int(lo), it.i_ite(sel[1], Int(lo + z8 + lo), it.i_ite(sel[2], Int(z8 + lo + z8 + lo), Int(lo * 4))))
    norot = it.i_eq(Int(imm.bits[10:12]), it.const(0))
    rot = UF('ror_c', [V(Int(list(imm.bits[0:7]) + [1])), V(it.const(32)), V(Int(imm.bits[7:12]))])
    ok = True
    pv = val.single()
    r = specmod.diff_values(it, norot, val, V(Tup([V(rep), V(c)])), 'non-rotating form')
    if r is not None:
        ok = False
        run.violation('C17-T', fi.relpath, fi.qualname, 'thumb_expand_imm_c byte replication',
                      'ThumbExpandImm_C for imm12[11:10] == 00 must replicate imm12[7:0] per imm12[9:8] and pass the carry through: %s' % r[0])
    rcond = B.NOT(norot)
    rv = [(cnd, p) for cnd, p in val.cases if B.AND(cnd, rcond) != 0]
    good = len(rv) == 1 and isinstance(rv[0][1], Tup) and len(rv[0][1].items) == 2
    if good:
        a, b = rv[0][1].items
        r1 = specmod.diff_values(it, rcond, a, V(UF('ror_c', rot.args, 0)), 'rotated value')
        r2 = specmod.diff_values(it, rcond, b, V(UF('ror_c', rot.args, 1)), 'carry')
        if r1 is not None or r2 is not None:
            good = False
            why = (r1 or r2)[0]
    else:
        why = 'unexpected result shape'
    if not good:
        ok = False
        run.violation('C17-T', fi.relpath, fi.qualname, 'thumb_expand_imm_c rotation',
                      'ThumbExpandImm_C for imm12[11:10] != 00 must be ROR_C(\'1\':imm12[6:0] zero-extended to 32 bits, 32, '
                      'imm12[11:7]): %s' % why)
    run.instance('C17-T', 'thumb_expand_imm_c', obligations=6, ok=ok, sample={})
    # --- RRX_C is pure wiring -----------------------------------------------------------------------------
    B, it, fi, args, val = run_h(SH, 'rrx_c', lambda B, it: [sym_int(B, 'x', 32), it.const(32), sym_int(B, 'c', 1)])
    x, _, c = args
    ok = expect('rrx_c', fi, B, it, val, V(Tup([V(Int(list(x.bits[1:32]) + [c.bits[0]])), V(Int([x.bits[0]]))])),
                'RRX_C(x, c) = (c:x[31:1], x[0])')
    run.instance('C17-T', 'rrx_c', obligations=2, ok=ok, sample={})


def check_shifter_width(run, repo):
    SH = repo.module('armulator.armv6.shift')
    widthful = {}
    for name, fi in SH.functions.items():
        ps = fi.params()
        for i, p in enumerate(ps):
            if p in ('x_len', 'value_len'):
                widthful[name] = i
    n = 0
    for mod in repo.modules.values():
        for fn in ast.walk(mod.tree):
            if not isinstance(fn, ast.FunctionDef):
                continue
            params = {a.arg for a in fn.args.args}
            for node in ast.walk(fn):
                if not isinstance(node, ast.Call):
                    continue
                f = node.func
                name = f.id if isinstance(f, ast.Name) else (f.attr if isinstance(f, ast.Attribute) else None)
                if name not in widthful:
                    continue
                r = repo.resolve_expr(mod, f) if isinstance(f, (ast.Name, ast.Attribute)) else None
                if not (r and r[0] == 'func' and r[1].module is SH):
                    continue
                i = widthful[name]
                if len(node.args) <= i:
                    continue
                w = node.args[i]
                n += 1
                ok = True
                if isinstance(w, ast.Constant):
                    if w.value != 32:
                        allowed = fn.name == 'it_advance'   # ITAdvance shifts the IT mask at its own width; its result is judged bit for bit by C08-A
                        if not allowed:
                            ok = False
                            run.violation('C17-X', mod.relpath, fn.name, norm_stmt(node, 100),
                                          '%s is called with operand width %r; every architectural shift / rotate / expansion '
                                          'works on 32-bit values' % (name, w.value))
                elif isinstance(w, ast.Name) and w.id in params and mod is SH:
                    pass    # pass-through of the caller's own width parameter inside the primitive layer
                elif isinstance(w, ast.BinOp) and mod is SH:
                    pass    # derived widths inside the primitive layer (e.g. x_len - m)
                else:
                    ok = False
                    run.violation('C17-X', mod.relpath, fn.name, norm_stmt(node, 100),
                                  '%s is called with a non-constant operand width `%s`' % (name, ast.unparse(w)))
                run.instance('C17-X', '%s:%s %s' % (mod.relpath.split('/')[-1], fn.name, norm_stmt(node, 40)), ok=ok, nontrivial=True)
    run.floor('shift primitive call sites', n, 95)


def main(repo_path, tier, seed, replay=None):
    run = Run('C17', tier, level='other', seed=seed)
    repo = Repo(repo_path)
    import re
    from .. import memo
    memo.check(run, repo, 'C17-MEMO', lambda rel, q: rel.endswith('bits_ops.py') or rel.endswith('shift.py') or '/all_registers/' in rel,
               'the arithmetic helpers and the register field views')
    check_views(run, repo)
    check_indexed(run, repo)
    check_helpers(run, repo)
    check_shifter_width(run, repo)
    from . import c17_arith
    c17_arith.check_arith(run, repo)
    # positive control: carry-out of AddWithCarry taken from bit 31 of the sum (in memory)
    bo = repo.module('armulator.armv6.bits_ops')
    old = 'carry_out = 0 if result == unsigned_sum else 1'
    fired, what = False, ''
    if old in bo.source:
        mrepo = Repo(repo_path, overrides={bo.relpath: bo.source.replace(old, 'carry_out = (unsigned_sum >> (size - 1)) & 1', 1)})
        tmp = Run('C17')
        c17_arith.check_arith(tmp, mrepo)
        fired = any('add_with_carry' in f.construct for f in tmp.findings)
        what = 'add_with_carry: carry-out taken from bit 31 of the sum'
    run.control('C17-A carry-out', fired, what)
    # positive control: CPSR.q moved to bit 26 (in memory)
    ci = repo.cls('CPSR')
    src = ci.module.source
    fired = False
    what = ''
    if 'return self[27]' in src:
        mrepo = Repo(repo_path, overrides={ci.module.relpath: src.replace('return self[27]', 'return self[26]', 1)})
        tmp = Run('C17')
        check_views(tmp, mrepo)
        fired = bool(tmp.findings)
        what = 'CPSR.q getter moved to bit 26'
    run.control('C17-V field moved', fired, what)
    run.exhaustive = True
    run.undecided = ['widths other than the ones the instruction set uses (AddWithCarry, shifts and expand-immediate at 32 bits; '
                     'saturation for N in 0..32 on 36-bit inputs; bit counts at 16/32 bits)']
    run.assumptions = ['spec/regfields.json transcribes the architectural field positions (generated from the tree, audited; '
                       'TTBCR.ORGN0 corrected to [11:10])']
    return run.finish(
        'C17: register field views as exact bit selections (getter positions against the reference table, setter/getter '
        'agreement with all other bits preserved, alias-only overlaps, indexed accessors for every index); the wiring helpers '
        '(substring, set_substring, bit_at, set_bit_at, chain, lower_chunk, bit_not, sign_extend, align, big_endian_reverse, '
        'RRX_C) for every constant position, DecodeImmShift / DecodeRegShift tables, the Shift_C dispatch and the '
        'expand-immediate argument wiring by bit-vector abstract interpretation; operand width 32 at every shifter call site. '
        'C17-A: AddWithCarry, add/sub, LSL_C/LSR_C/ASR_C/ROR_C and Shift_C for every amount 0..255, ARM/ThumbExpandImm_C for all '
        '4096 immediates, SignedSatQ/UnsignedSatQ for every N, to_signed/to_unsigned/sign_extend for every width, bit counts and '
        'LowestSetBit are interpreted with fully symbolic arguments and compared bit for bit with gate-level / wiring references.',
        './check C17 --tier %s' % tier)
