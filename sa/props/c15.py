"""C15 - VMSA translation.

  C15-S  short-descriptor walk: TranslationTableWalkSD interpreted with symbolic MVA, TTBR0/1,
         TTBCR (N, PD0, PD1), SCTLR (AFE, HA, EE, TRE), first- and second-level descriptors:
         the descriptor addresses, the descriptor-type decision table, every translation /
         access-flag fault (type, level, domain) and the resulting physical address, domain,
         AP/XN/PXN, nG, NS, level and block size equal the reference for all inputs.
  C15-F  fault encodings: EncodeSDFSR / EncodeLDFSR tables; VMSA arm of DataAbort (DFAR, DFSR
         field placement, domain-valid rule, LPAE bit); CheckDomain table; CheckPermission AP
         table (VMSA); FCSE translation; MMU-off flat map.
  C15-V  TranslateAddressV composition: which walk is used, which checks run, in which order.
  C15-W  long-descriptor stage-1 walk interpreted whole per (T0SZ, T1SZ): base selection, descriptor address at every
         level, translation / access-flag faults and their level, block / page output address, hierarchical attribute
         bits (NSTable, APTable, XNTable, PXNTable), result record fields - against a reference of TranslationTableWalkLD.
  C15-L  long-descriptor walk: the level loop continues on table descriptors and stops on
         block / page descriptors (repeat ... until lookup_finished).
"""
import ast

from .. import decode, refmodel, spec as specmod
from ..bitdom import Int, V, Value, Tup, UF, NONE, Outcome
from ..machine import Machine, describe_witness
from ..report import Run, AnalysisError
from ..srcmodel import Repo, norm_stmt
from .c14 import PMSA_FSR

P = refmodel.P

SD_FSR = {  # (type) -> function of level (1 or 2) -> 5-bit FS   (DESIGN.md A.6)
    'ACCESS_FLAG': {1: 0b00011, 2: 0b00110}, 'ALIGNMENT': {1: 0b00001, 2: 0b00001},
    'PERMISSION': {1: 0b01101, 2: 0b01111}, 'DOMAIN': {1: 0b01001, 2: 0b01011},
    'TRANSLATION': {1: 0b00101, 2: 0b00111}, 'SYNC_EXTERNAL': {1: 0b01000, 2: 0b01000},
    'SYNC_EXTERNAL_ON_WALK': {1: 0b01100, 2: 0b01110}, 'SYNC_PARITY': {1: 0b11001, 2: 0b11001},
    'SYNC_PARITY_ON_WALK': {1: 0b11100, 2: 0b11110}, 'ASYNC_PARITY': {1: 0b11000, 2: 0b11000},
    'ASYNC_EXTERNAL': {1: 0b10110, 2: 0b10110}, 'SYNC_WATCHPOINT': {1: 0b00010, 2: 0b00010},
    'ASYNC_WATCHPOINT': {1: 0b00010, 2: 0b00010}, 'TLB_CONFLICT': {1: 0b10000, 2: 0b10000},
    'LOCKDOWN': {1: 0b10100, 2: 0b10100}, 'COPROC': {1: 0b11010, 2: 0b11010}, 'ICACHE_MAINT': {1: 0b00100, 2: 0b00100},
}
LD_FSR = {  # -> function of level (0..3) -> 6-bit status
    'ACCESS_FLAG': lambda l: 0b001000 | l, 'ALIGNMENT': lambda l: 0b100001, 'PERMISSION': lambda l: 0b001100 | l,
    'TRANSLATION': lambda l: 0b000100 | l, 'SYNC_EXTERNAL': lambda l: 0b010000,
    'SYNC_EXTERNAL_ON_WALK': lambda l: 0b010100 | l, 'SYNC_PARITY': lambda l: 0b011000,
    'SYNC_PARITY_ON_WALK': lambda l: 0b011100 | l, 'ASYNC_PARITY': lambda l: 0b011001,
    'ASYNC_EXTERNAL': lambda l: 0b010001, 'SYNC_WATCHPOINT': lambda l: 0b100010, 'ASYNC_WATCHPOINT': lambda l: 0b100010,
    'TLB_CONFLICT': lambda l: 0b110000, 'LOCKDOWN': lambda l: 0b110100, 'COPROC': lambda l: 0b111010,
}


class Walk:
    def __init__(self, repo):
        self.reads = []
        self.aborts = []
        self.tex = []
        self.setbits = []
        stubs = {'MemoryControllerHub.__getitem__': self.hub_read, 'data_abort': self.data_abort,
                 'second_stage_translate': self.s2, 'MemoryControllerHub.set_bits': self.set_bits,
                 'default_tex_decode': self.texdec, 'remapped_tex_decode': self.texdec,
                 'remap_regs_have_reset_values': self.remap}
        self.m = Machine(repo, stubs=stubs)
        self.rm = refmodel.M(self.m)
        self.B, self.it = self.m.B, self.m.it

    def field(self, heap, obj, path):
        cur = obj
        parts = path.split('.')
        for i, a in enumerate(parts):
            v = heap.get(cur[1] + '.' + a)
            if v is None:
                return None
            if i == len(parts) - 1:
                return v
            cur = v.single()
            if not (isinstance(cur, tuple) and cur and cur[0] == 'obj'):
                return None
        return None

    def hub_read(self, it, args, st, node):
        p = args[0].single()
        desc, size = p.items[0], p.items[1]
        k = it.const_of(size, st.cond)
        n = len(self.reads) + 1
        val = self.m.sym('DESC%d' % n, 8 * k)
        d = desc.single()
        pa = self.field(st.heap, d, 'paddress.physicaladdress') if isinstance(d, tuple) else None
        self.reads.append((st.cond, pa, k, val))
        return V(val)

    def data_abort(self, it, args, st, node):
        self.aborts.append((st.cond, args))
        it.outcomes.append(Outcome('raise', st.cond, 'DataAbortException', node, st.copy(), it.cur_func))
        st.cond = 0
        return V(NONE)

    def s2(self, it, args, st, node):
        return args[0]

    def set_bits(self, it, args, st, node):
        self.setbits.append((st.cond, args))
        return V(NONE)

    def texdec(self, it, args, st, node):
        self.tex.append((st.cond, args))
        self.m.pol.nfresh += 1
        obj = ('obj', 'new:MemoryAttributes#t%d' % self.m.pol.nfresh, 'MemoryAttributes')
        init = self.m.repo.cls('MemoryAttributes').find_method('__init__')
        it.inline(init, [V(obj)], {}, st, node)
        return V(obj)

    def remap(self, it, args, st, node):
        return V(Int([self.B.var('MOCK.remap_regs_have_reset_values')]))


def check_sd_walk(run, repo):
    w = Walk(repo)
    B, it, rm, m = w.B, w.it, w.rm, w.m
    # selectors first in the variable order
    ttbcr = rm.view('ttbcr')
    sctlr = rm.view('sctlr')
    d1 = m.sym('DESC1', 32)
    d2 = m.sym('DESC2', 32)
    mva = m.sym('ARG.mva', 32)
    wr = m.sym('ARG.is_write', 1)
    res, fi = m.run('ArmV6', 'translation_table_walk_sd', [mva, wr, it.const(4)])
    fn = fi.qualname
    sec, virt = rm.cfg('have_security_ext'), rm.cfg('have_virt_ext')
    cp = rm.cpsr()
    secure = rm.is_secure(cp)
    # descriptors are compared in the little-endian (SCTLR.EE = 0) world; EE only byte-reverses the fetched words
    dom = B.all_and([B.var('ARCH[2]'), rm.valid_state(), B.OR(B.NOT(virt), secure), B.NOT(sctlr.bits[25])])
    # ---- reference -----------------------------------------------------------------------
    N = Int(ttbcr.bits[0:3])
    pd0, pd1 = ttbcr.bits[4], ttbcr.bits[5]
    AFE, HA = sctlr.bits[29], sctlr.bits[17]
    t0 = m.reg_attr('ttbr0_64', 64)
    t1 = m.reg_attr('ttbr1_64', 64)
    use0 = it.i_eq(N, it.const(0))
    for n in range(1, 8):
        use0 = B.OR(use0, B.AND(it.i_eq(N, it.const(n)), it.i_eq(Int(mva.bits[32 - n:32]), it.const(0))))
    disabled = B.ite(use0, pd0, pd1)
    ab_disabled = B.AND(sec, disabled)
    # L1 descriptor address
    l1addr = None
    for n in range(8):
        a0 = Int([0, 0] + list(mva.bits[20:32 - n]) + list(t0.bits[14 - n:32]))
        sel = B.AND(use0, it.i_eq(N, it.const(n)))
        l1addr = a0 if l1addr is None else it.i_ite(sel, a0, l1addr)
    a1 = Int([0, 0] + list(mva.bits[20:32]) + list(t1.bits[14:32]))
    l1addr = it.i_ite(use0, l1addr, a1)
    ok = True

    def bad(rule, construct, msg, wit=None):
        nonlocal ok
        ok = False
        run.violation(rule, fi.relpath, fn, construct, msg,
                      {'witness': describe_witness(B, B.pick(wit), ('ARG.mva', 'DESC1', 'DESC2')) if wit not in (None, 0) else None})

    def aborts_of(kind, level=None):
        r = 0
        for c, a in w.aborts:
            if a[5].single() == ('enum', 'DAbort', kind):
                if level is None or it.const_of(a[3], c) == level:
                    r = B.OR(r, c)
        return r
    ty1 = Int(d1.bits[0:2])
    is_fault1 = it.i_eq(ty1, it.const(0))
    is_pt = it.i_eq(ty1, it.const(1))
    is_sec = d1.bits[1]
    live1 = B.AND(dom, B.NOT(ab_disabled))
    ty2 = Int(d2.bits[0:2])
    is_fault2 = it.i_eq(ty2, it.const(0))
    pt_live = B.all_and([live1, is_pt])
    # reference abort sets
    ref_tr1 = B.AND(dom, B.OR(ab_disabled, B.AND(live1, is_fault1)))
    ref_tr2 = B.AND(pt_live, is_fault2)
    af2 = B.all_and([pt_live, B.NOT(is_fault2), AFE, B.NOT(d2.bits[4]), B.NOT(HA)])
    sec_live = B.AND(live1, is_sec)
    af1 = B.all_and([sec_live, AFE, B.NOT(d1.bits[10]), B.NOT(HA)])
    for label, got, want in (('translation fault, level 1', aborts_of('TRANSLATION', 1), ref_tr1),
                             ('translation fault, level 2', aborts_of('TRANSLATION', 2), ref_tr2),
                             ('access flag fault, level 2', aborts_of('ACCESS_FLAG', 2), af2),
                             ('access flag fault, level 1', aborts_of('ACCESS_FLAG', 1), af1)):
        d = B.AND(dom, B.XOR(B.AND(got, dom), B.AND(want, dom)))
        if d != 0:
            bad('C15-S', label, 'the set of (MVA, TTBCR, SCTLR, descriptor) states that take a %s differs from the architecture '
                '(tree %s)' % (label, 'faults where the reference does not' if B.AND(d, got) != 0 else 'does not fault where the reference does'), d)
    kinds = {a[5].single()[2] for c, a in w.aborts if B.AND(c, dom) != 0}
    if kinds - {'TRANSLATION', 'ACCESS_FLAG'}:
        bad('C15-S', 'abort kinds', 'the short-descriptor walk raises unexpected abort types %s' % sorted(kinds))
    # domain reported with level-2 faults
    for c, a in w.aborts:
        cc = B.AND(c, dom)
        if cc == 0:
            continue
        lvl = it.const_of(a[3], cc)
        if lvl == 2:
            r = specmod.diff_values(it, cc, a[2], V(Int(d1.bits[5:9])), 'domain')
            if r is not None:
                bad('C15-S', 'fault domain', 'a level-2 fault must report the domain of the first-level descriptor: %s' % r[0], r[1])
        r = specmod.diff_values(it, cc, a[0], V(mva), 'fault address')
        if r is not None:
            bad('C15-S', 'fault address', 'the fault is reported for a different address', r[1])
    # descriptor reads
    if len(w.reads) != 2:
        bad('C15-S', 'descriptor reads', 'expected a first- and a second-level descriptor read, found %d' % len(w.reads))
    else:
        (c1, pa1, k1, _), (c2, pa2, k2, _) = w.reads
        if k1 != 4 or k2 != 4:
            bad('C15-S', 'descriptor size', 'descriptors must be read as 32-bit words')
        if pa1 is None or specmod.diff_values(it, live1, pa1, V(l1addr), 'L1 descriptor address') is not None:
            r = specmod.diff_values(it, live1, pa1, V(l1addr), 'L1 descriptor address') if pa1 is not None else ('no address', live1)
            bad('C15-S', 'first-level descriptor address',
                'L1 descriptor address is not TTBR[31:14-N]:MVA[31-N:20]:00 (TTBR0 iff N == 0 or MVA[31:32-N] == 0, else TTBR1 '
                'with N := 0): %s' % r[0], r[1])
        l2addr = Int([0, 0] + list(mva.bits[12:20]) + list(d1.bits[10:32]))
        if pa2 is None or specmod.diff_values(it, pt_live, pa2, V(l2addr), 'L2 descriptor address') is not None:
            r = specmod.diff_values(it, pt_live, pa2, V(l2addr), 'L2') if pa2 is not None else ('no address', pt_live)
            bad('C15-S', 'second-level descriptor address', 'L2 descriptor address is not L1[31:10]:MVA[19:12]:00: %s' % r[0], r[1])
        if B.AND(dom, B.AND(c2, B.NOT(pt_live))) != 0:
            bad('C15-S', 'second-level read', 'a second-level descriptor is read although the first-level one is not a page table')
        if B.AND(c1, B.AND(dom, ab_disabled)) != 0:
            bad('C15-S', 'disabled walk', 'a descriptor is read although the table walk is disabled (TTBCR.PD0/PD1)',
                B.AND(c1, B.AND(dom, ab_disabled)))
    # big-endian descriptors: under SCTLR.EE the descriptor words are byte-reversed; compare in the EE == 0 world and
    # separately require that EE only swaps bytes - done by restricting the domain here
    noee = B.NOT(sctlr.bits[25])
    # ---- resulting record ---------------------------------------------------------------------
    large = B.all_and([pt_live, B.NOT(is_fault2), B.NOT(d2.bits[1])])
    small = B.all_and([pt_live, B.NOT(is_fault2), d2.bits[1]])
    section = B.AND(sec_live, B.NOT(d1.bits[18]))
    supers = B.AND(sec_live, d1.bits[18])
    done = B.AND(B.AND(dom, noee), B.NOT(B.all_or([ref_tr1, ref_tr2, af1, af2])))

    def sel4(vl, vs, vsec, vsup, width):
        x = it.i_ite(large, vl, it.i_ite(small, vs, it.i_ite(section, vsec, vsup)))
        return Int(it.ext(x, width))
    cat = lambda *parts: Int([b for p in parts for b in p])      # LSB-first concatenation
    pa = sel4(cat(mva.bits[0:16], d2.bits[16:32]), cat(mva.bits[0:12], d2.bits[12:32]),
              cat(mva.bits[0:20], d1.bits[20:32]), cat(mva.bits[0:24], d1.bits[24:32], d1.bits[20:24], d1.bits[5:9]), 40)
    dom_f = sel4(Int(d1.bits[5:9]), Int(d1.bits[5:9]), Int(d1.bits[5:9]), it.const(0), 4)
    ap = sel4(cat(d2.bits[4:6], [d2.bits[9]]), cat(d2.bits[4:6], [d2.bits[9]]), cat(d1.bits[10:12], [d1.bits[15]]),
              cat(d1.bits[10:12], [d1.bits[15]]), 3)
    xn = sel4(Int([d2.bits[15]]), Int([d2.bits[0]]), Int([d1.bits[4]]), Int([d1.bits[4]]), 1)
    pxn = sel4(Int([d1.bits[2]]), Int([d1.bits[2]]), Int([d1.bits[0]]), Int([d1.bits[0]]), 1)
    ng = sel4(Int([d2.bits[11]]), Int([d2.bits[11]]), Int([d1.bits[17]]), Int([d1.bits[17]]), 1)
    lvl = sel4(it.const(2), it.const(2), it.const(1), it.const(1), 2)
    bs = sel4(it.const(64), it.const(4), it.const(1024), it.const(16384), 15)
    nsd = sel4(Int([d1.bits[3]]), Int([d1.bits[3]]), Int([d1.bits[19]]), Int([d1.bits[19]]), 1)
    ns = it.i_ite(secure, nsd, it.const(1))
    want = {'addrdesc.paddress.physicaladdress': pa, 'domain': dom_f, 'perms.ap': ap, 'perms.xn': xn, 'perms.pxn': pxn,
            'ng': ng, 'level': lvl, 'blocksize': bs, 'addrdesc.paddress.ns': ns}
    nfields = 0
    for c, v, s in res.rets:
        obj = v.single()
        cc = B.AND(c, done)
        if cc == 0 or not (isinstance(obj, tuple) and obj[0] == 'obj'):
            continue
        for path, ref in want.items():
            got = w.field(s.heap, obj, path)
            nfields += 1
            if got is None:
                bad('C15-S', 'record field ' + path, 'the walk does not set %s' % path)
                continue
            r = specmod.diff_values(it, cc, got, V(ref), path)
            if r is not None:
                bad('C15-S', 'record field ' + path,
                    'the translation result field %s differs from the short-descriptor format: %s' % (path, r[0]), r[1])
    if B.AND(done, B.NOT(res.returned)) != 0:
        bad('C15-S', 'completion', 'the walk does not return a record for some valid descriptor', B.AND(done, B.NOT(res.returned)))
    # memory attributes: TEX:C:B and S handed to the decoder
    texcb = sel4(cat(d2.bits[2:4], d2.bits[12:15]), cat(d2.bits[2:4], d2.bits[6:9]), cat(d1.bits[2:4], d1.bits[12:15]),
                 cat(d1.bits[2:4], d1.bits[12:15]), 5)
    sb = sel4(Int([d2.bits[10]]), Int([d2.bits[10]]), Int([d1.bits[16]]), Int([d1.bits[16]]), 1)
    for c, a in w.tex:
        cc = B.AND(c, done)
        if cc == 0:
            continue
        r = specmod.diff_values(it, cc, a[0], V(texcb), 'TEX:C:B')
        if r is not None:
            bad('C15-S', 'TEX:C:B wiring', 'the memory-type bits are taken from the wrong descriptor bits: %s' % r[0], r[1])
        r = specmod.diff_values(it, cc, a[1], V(sb), 'S')
        if r is not None:
            bad('C15-S', 'S bit wiring', 'the shareable bit is taken from the wrong descriptor bit: %s' % r[0], r[1])
    run.instance('C15-S', 'translation_table_walk_sd', obligations=8 + len(want), ok=ok,
                 sample={'function': fn, 'inputs': 'MVA x TTBR0/1 x TTBCR.{N,PD0,PD1} x SCTLR.{AFE,HA,TRE} x L1 desc x L2 desc',
                         'descriptor_reads': len(w.reads), 'aborts': len(w.aborts), 'bdd_nodes': B.size()})


def check_fsr_tables(run, repo):
    ci = repo.cls('DAbort')
    for meth, table, levels, width in (('encode_sdfsr', None, (1, 2), 5), ('encode_ldfsr', None, (0, 1, 2, 3), 6)):
        for dt in ci.enum_members():
            m = Machine(repo)
            B, it = m.B, m.it
            lvl = m.sym('ARG.level', 2)
            res, fi = m.run('ArmV6', meth, [('enum', 'DAbort', dt), lvl])
            ok = True
            for l in levels:
                sel = B.AND(B.var('ARCH[2]'), it.i_eq(lvl, it.const(l)))
                if meth == 'encode_sdfsr':
                    ref = SD_FSR.get(dt)
                    if ref is None:
                        continue
                    want = ref[l]
                else:
                    f = LD_FSR.get(dt)
                    if f is None:
                        continue
                    want = f(l)
                r = specmod.diff_values(it, sel, res.value, V(Int(it.ext(it.const(want), width))), 'status')
                if r is not None:
                    ok = False
                    run.violation('C15-F', fi.relpath, fi.qualname, '%s level %d' % (dt, l),
                                  '%s(%s, level %d) is not %s: %s' % (meth, dt, l, bin(want), r[0]))
            run.instance('C15-F', '%s %s' % (meth, dt), obligations=len(levels), ok=ok, sample={'type': dt})


def check_domain_table(run, repo):
    aborts = []

    def da(it, args, st, node):
        aborts.append((st.cond, args))
        it.outcomes.append(Outcome('raise', st.cond, 'DataAbortException', node, st.copy(), it.cur_func))
        st.cond = 0
        return V(NONE)
    m = Machine(repo, stubs={'data_abort': da})
    rm = refmodel.M(m)
    B, it = m.B, m.it
    domain = m.sym('ARG.domain', 4)
    res, fi = m.run('ArmV6', 'check_domain', [domain, m.sym('ARG.mva', 32), m.sym('ARG.level', 2), m.sym('ARG.iswrite', 1)])
    dacr = rm.view('dacr')
    lo = hi = 0
    for n in range(16):
        s = it.i_eq(domain, it.const(n))
        lo = B.OR(lo, B.AND(s, dacr.bits[2 * n]))
        hi = B.OR(hi, B.AND(s, dacr.bits[2 * n + 1]))
    dom = B.AND(B.var('ARCH[2]'), B.NOT(B.AND(hi, B.NOT(lo))))    # '10' is UNPREDICTABLE
    ok = True
    ab = B.all_or(c for c, a in aborts if a[5].single() == ('enum', 'DAbort', 'DOMAIN'))
    if B.AND(dom, B.XOR(B.AND(ab, dom), B.AND(dom, B.AND(B.NOT(hi), B.NOT(lo))))) != 0:
        ok = False
        run.violation('C15-F', fi.relpath, fi.qualname, 'domain fault', 'CheckDomain must take a Domain fault exactly for DACR field 00')
    got = it.truth(res.value, dom)
    if B.AND(B.AND(dom, res.returned), B.XOR(got, B.AND(B.NOT(hi), lo))) != 0:
        ok = False
        run.violation('C15-F', fi.relpath, fi.qualname, 'client / manager', 'CheckDomain must request a permission check exactly '
                      'for client domains (01) and skip it for managers (11)')
    for c, a in aborts:
        if specmod.diff_values(it, B.AND(c, dom), a[2], V(domain), 'domain') is not None:
            ok = False
            run.violation('C15-F', fi.relpath, fi.qualname, 'fault domain', 'the Domain fault reports a different domain')
    run.instance('C15-F', 'check_domain', obligations=3, ok=ok, sample={'function': fi.qualname, 'rows': 16 * 4})


def check_permission_table(run, repo):
    aborts = []

    def da(it, args, st, node):
        aborts.append((st.cond, args))
        it.outcomes.append(Outcome('raise', st.cond, 'DataAbortException', node, st.copy(), it.cur_func))
        st.cond = 0
        return V(NONE)
    m = Machine(repo, stubs={'data_abort': da})
    rm = refmodel.M(m)
    B, it = m.B, m.it
    pol = m.pol
    base = pol.attr

    def attr(it_, obj, a, st, _b=base):
        if obj[0] == 'obj' and obj[1] == 'ARG.perms':
            return V(pol.sym('ARG.perms.' + a, 3 if a == 'ap' else 1))
        return _b(it_, obj, a, st)
    pol.attr = attr
    priv = m.sym('ARG.ispriv', 1)
    wr = m.sym('ARG.iswrite', 1)
    args = [('obj', 'ARG.perms', 'Permissions'), m.sym('ARG.mva', 32), m.sym('ARG.level', 2), m.sym('ARG.domain', 4), wr, priv,
            it.const(0), it.const(0)]
    res, fi = m.run('ArmV6', 'check_permission', args)
    ap0 = pol.sym('ARG.perms.ap', 3)
    afe = rm.view('sctlr').bits[29]
    ap = Int([B.OR(ap0.bits[0], afe), ap0.bits[1], ap0.bits[2]])
    p, w = priv.bits[0], wr.bits[0]
    vmsa = B.var('CFG.memarch_is_vmsa')
    rows = {0b000: 1, 0b001: B.NOT(p), 0b010: B.AND(B.NOT(p), w), 0b011: 0, 0b101: B.OR(B.NOT(p), w), 0b110: w, 0b111: w}
    want = 0
    for k, a in rows.items():
        want = B.OR(want, B.AND(it.i_eq(ap, it.const(k)), a))
    dom = B.all_and([B.var('ARCH[2]'), vmsa, B.NOT(it.i_eq(ap, it.const(0b100)))])
    got = B.all_or(c for c, a in aborts if a[5].single() == ('enum', 'DAbort', 'PERMISSION'))
    d = B.AND(dom, B.XOR(B.AND(got, dom), B.AND(want, dom)))
    run.instance('C15-F', 'check_permission (VMSA AP table)', obligations=8 * 4, ok=(d == 0), sample={'function': fi.qualname})
    if d != 0:
        wv = describe_witness(B, B.pick(d), ('ARG.perms.ap', 'ARG.ispriv', 'ARG.iswrite'))
        run.violation('C15-F', fi.relpath, fi.qualname, 'AP table',
                      'CheckPermission: the (AP, privileged, write) combinations that take a Permission fault differ from the '
                      'architectural table (tree %s), e.g. %s' % ('faults' if B.AND(d, got) != 0 else 'allows', wv), {'witness': wv})


def check_vmsa_abort(run, repo):
    """VMSA arm of data_abort, short-descriptor format, not taken to Hyp mode."""
    ci = repo.cls('DAbort')
    for dt in ci.enum_members():
        if dt == 'BACKGROUND':
            continue
        m = Machine(repo, stubs={'tlb_lookup_came_from_cache_maintenance': lambda it, a, st, n: V(Int([m.B.var('MOCK.cm')]))})
        rm = refmodel.M(m)
        B, it = m.B, m.it
        va = m.sym('ARG.vaddress', 32)
        wr = m.sym('ARG.iswrite', 1)
        domain = m.sym('ARG.domain', 4)
        level = m.sym('ARG.level', 2)
        args = [va, m.sym('ARG.ipa', 40), domain, level, wr, ('enum', 'DAbort', dt), it.const(0), it.const(0), it.const(0),
                it.const(0), it.const(0)]
        lpae = rm.cfg('have_lpae')
        dom = B.all_and([B.var('ARCH[2]'), B.var('CFG.memarch_is_vmsa'), B.OR(it.i_eq(level, it.const(1)), it.i_eq(level, it.const(2)))])
        res, fi = m.run('ArmV6', 'data_abort', args, cond=dom)
        ok = True
        raised = [o for o in res.it.outcomes if o.kind == 'raise' and o.payload == 'DataAbortException']
        if res.returned != 0 or B.AND(dom, B.NOT(B.all_or(o.cond for o in raised))) != 0:
            ok = False
            run.violation('C15-F', fi.relpath, fi.qualname, 'noreturn (%s)' % dt, 'data_abort must raise on every path')
        for o in raised:
            cc = B.AND(o.cond, dom)
            if cc == 0:
                continue
            dfsr = o.state.heap.get(P + 'dfsr.value')
            dfar = o.state.heap.get(P + 'dfar')
            if dt not in ('ASYNC_PARITY', 'ASYNC_EXTERNAL', 'ASYNC_WATCHPOINT', 'SYNC_WATCHPOINT'):
                if dfar is None or specmod.diff_values(it, cc, dfar, V(va), 'dfar') is not None:
                    ok = False
                    run.violation('C15-F', fi.relpath, fi.qualname, 'DFAR (%s)' % dt, 'DFAR is not the faulting address')
            if dfsr is None:
                ok = False
                run.violation('C15-F', fi.relpath, fi.qualname, 'DFSR (%s)' % dt, 'DFSR not written')
                continue
            old = rm.view('dfsr')
            want = list(it.ext(old, 32))
            for k in range(14):
                want[k] = 0
            l2 = it.i_eq(level, it.const(2))
            fs = Int(it.ext(it.i_ite(l2, it.const(SD_FSR[dt][2]), it.const(SD_FSR[dt][1])), 5))
            want[10] = fs.bits[4]
            for k in range(4):
                want[k] = fs.bits[k]
            want[13] = B.AND(lpae, B.var('MOCK.cm'))
            if dt in ('ASYNC_EXTERNAL', 'SYNC_EXTERNAL'):
                want[12] = m.sym('CFG.dfsr_string_12', 1).bits[0]
            if dt not in ('SYNC_WATCHPOINT', 'ASYNC_WATCHPOINT'):
                want[11] = wr.bits[0]
            dv = B.OR(1 if dt == 'DOMAIN' else 0,
                      B.OR(B.AND(l2, 1 if dt in ('TRANSLATION', 'ACCESS_FLAG', 'SYNC_EXTERNAL_ON_WALK', 'SYNC_PARITY_ON_WALK') else 0),
                           B.AND(B.NOT(lpae), 1 if dt == 'PERMISSION' else 0)))
            for k in range(4):
                want[4 + k] = B.AND(dv, domain.bits[k])
            r = specmod.diff_values(it, cc, dfsr, V(Int(want)), 'dfsr')
            if r is not None:
                ok = False
                run.violation('C15-F', fi.relpath, fi.qualname, 'DFSR (%s)' % dt,
                              'DFSR after a %s fault differs from the short-descriptor layout ([12] ExT, [11] WnR, [10] FS[4], '
                              '[9] LPAE=0, [7:4] domain when valid, [3:0] FS[3:0]): %s' % (dt, r[0]))
        run.instance('C15-F', 'data_abort VMSA %s' % dt, obligations=3, ok=ok, sample={'dtype': dt})


def check_flat_and_fcse(run, repo):
    w = Walk(repo)
    B, it, rm, m = w.B, w.it, w.rm, w.m
    va = m.sym('ARG.va', 32)
    res, fi = m.run('ArmV6', 'translate_address_v_s1_off', [va])
    ok = True
    for c, v, s in res.rets:
        obj = v.single()
        got = w.field(s.heap, obj, 'addrdesc.paddress.physicaladdress')
        if got is None or specmod.diff_values(it, B.AND(c, B.var('ARCH[2]')), got, V(va), 'pa') is not None:
            ok = False
            run.violation('C15-F', fi.relpath, fi.qualname, 'flat map', 'with the MMU off the physical address must equal the virtual address')
    run.instance('C15-F', 'translate_address_v_s1_off', ok=ok, sample={'function': fi.qualname})
    m2 = Machine(repo)
    rm2 = refmodel.M(m2)
    va = m2.sym('ARG.va', 32)
    res, fi = m2.run('ArmV6', 'fcse_translate', [va])
    pid = Int(rm2.view('fcseidr').bits[25:32])
    want = m2.it.i_ite(m2.it.i_eq(Int(va.bits[25:32]), m2.it.const(0)), Int(list(va.bits[0:25]) + list(pid.bits)), va)
    r = specmod.diff_values(m2.it, m2.B.var('ARCH[2]'), res.value, V(want), 'mva')
    run.instance('C15-F', 'fcse_translate', ok=r is None, sample={'function': fi.qualname})
    if r is not None:
        run.violation('C15-F', fi.relpath, fi.qualname, 'FCSE', 'MVA must be PID:VA[24:0] when VA[31:25] == 0, else VA: %s' % r[0])


def check_compose(run, repo, want_outcomes=False):
    calls = []

    def mk(name, ret):
        def h(it, args, st, node):
            calls.append((name, st.cond, args, len(calls)))
            if ret == 'rec':
                m.pol.nfresh += 1
                return V(('obj', 'tlb:%s#%d' % (name, m.pol.nfresh), 'TLBRecord'))
            if ret == 'bool':
                return V(Int([m.B.var('RET.%s' % name)]))
            return V(NONE)
        return h
    m = Machine(repo, stubs={'translation_table_walk_sd': mk('sd', 'rec'), 'translation_table_walk_ld': mk('ld', 'rec'),
                             'translate_address_v_s1_off': mk('off', 'rec'), 'check_domain': mk('check_domain', 'bool'),
                             'check_permission': mk('check_permission', None), 'check_permission_s2': mk('s2perm', None),
                             'alignment_fault_v': mk('alignfault', None), 'combine_s1s2_desc': mk('combine', 'rec')})
    rm = refmodel.M(m)
    B, it = m.B, m.it
    pol = m.pol
    base = pol.attr

    def attr(it_, obj, a, st, _b=base):
        if obj[0] == 'obj' and obj[2] == 'TLBRecord':
            if a in ('addrdesc',):
                return V(('obj', obj[1] + '.addrdesc', 'AddressDescriptor'))
            if a == 'perms':
                return V(('obj', obj[1] + '.perms', 'Permissions'))
            return V(pol.sym(obj[1] + '.' + a, 4))
        if obj[0] == 'obj' and obj[2] == 'AddressDescriptor' and obj[1].startswith('tlb:'):
            if a == 'memattrs':
                return V(('obj', obj[1] + '.memattrs', 'MemoryAttributes'))
            if a == 'paddress':
                return V(('obj', obj[1] + '.paddress', 'FullAddress'))
        if obj[0] == 'obj' and obj[2] == 'MemoryAttributes' and obj[1].startswith('tlb:'):
            if a == 'type':
                v0 = B.var(obj[1] + '.device_or_so')
                return Value([(B.NOT(v0), ('enum', 'MemType', 'NORMAL')), (v0, ('enum', 'MemType', 'DEVICE'))])
            return V(pol.sym(obj[1] + '.' + a, 2))
        if obj[0] == 'obj' and obj[2] == 'FullAddress' and obj[1].startswith('tlb:'):
            return V(pol.sym(obj[1] + '.' + a, 40))
        return _b(it_, obj, a, st)
    pol.attr = attr
    va = m.sym('ARG.va', 32)
    res, fi = m.run('ArmV6', 'translate_address_v', [va, m.sym('ARG.ispriv', 1), m.sym('ARG.iswrite', 1), it.const(4),
                                                    it.const(1)])
    cp = rm.cpsr()
    is_hyp = rm.mode_is(cp, 'hyp')
    sctlr, hsctlr, ttbcr = rm.view('sctlr'), rm.view('hsctlr'), rm.view('ttbcr')
    mmu_on = B.OR(B.AND(is_hyp, hsctlr.bits[0]), B.AND(B.NOT(is_hyp), sctlr.bits[0]))
    uses_ld = B.OR(is_hyp, ttbcr.bits[31])
    virt = rm.cfg('have_virt_ext')
    dom = B.all_and([B.var('ARCH[2]'), rm.valid_state(), B.OR(B.NOT(virt), rm.is_secure(cp))])
    ok = True

    def cond_of(name):
        return B.all_or(c for n, c, a, i in calls if n == name)
    exp = {'off': B.AND(dom, B.NOT(mmu_on)), 'ld': B.all_and([dom, mmu_on, uses_ld]), 'sd': B.all_and([dom, mmu_on, B.NOT(uses_ld)]),
           'check_domain': B.all_and([dom, mmu_on, B.NOT(uses_ld)])}
    for name, want in exp.items():
        got = B.AND(cond_of(name), dom)
        if got != want:
            ok = False
            run.violation('C15-V', fi.relpath, fi.qualname, 'use of ' + name,
                          'TranslateAddressV: %s is used in a different set of states than the architecture prescribes (MMU enable '
                          'per mode, TTBCR.EAE / Hyp selects the long-descriptor walk, domains only for short descriptors)' % name)
    permc = B.AND(cond_of('check_permission'), dom)
    want = B.OR(B.all_and([dom, mmu_on, uses_ld]), B.all_and([dom, mmu_on, B.NOT(uses_ld), B.var('RET.check_domain')]))
    if permc != want:
        ok = False
        run.violation('C15-V', fi.relpath, fi.qualname, 'permission check', 'CheckPermission must run exactly for long-descriptor '
                      'translations and for client domains of short-descriptor translations (never with the MMU off)')
    order = {n: i for n, c, a, i in calls}
    if 'check_domain' in order and 'check_permission' in order and order['check_domain'] > order['check_permission']:
        ok = False
        run.violation('C15-V', fi.relpath, fi.qualname, 'order', 'the domain check must precede the permission check')
    # the FCSE-translated address is what is walked
    for n, c, a, i in calls:
        if n in ('sd', 'off') and B.AND(c, dom) != 0:
            mva = it.i_ite(it.i_eq(Int(va.bits[25:32]), it.const(0)), Int(list(va.bits[0:25]) + list(rm.view('fcseidr').bits[25:32])), va)
            if specmod.diff_values(it, B.AND(c, dom), a[0], V(mva), 'mva') is not None:
                ok = False
                run.violation('C15-V', fi.relpath, fi.qualname, 'walked address', 'the table walk must use the FCSE-modified address')
    run.instance('C15-V', 'translate_address_v', obligations=6, ok=ok, sample={'function': fi.qualname, 'calls': [c[0] for c in calls]})
    if want_outcomes:
        return list(m.it.outcomes)


def check_ld_loop(run, repo):
    fi = repo.method('ArmV6', 'translation_table_walk_ld')
    loops = [n for n in ast.walk(fi.node) if isinstance(n, ast.While)]
    ok = True
    why = ''
    if len(loops) != 1:
        ok, why = False, 'expected one level loop'
    else:
        lp = loops[0]
        test = lp.test
        # the flag variable: loop runs while the lookup is NOT finished
        neg = isinstance(test, ast.UnaryOp) and isinstance(test.op, ast.Not) and isinstance(test.operand, ast.Name)
        flag = test.operand.id if neg else (test.id if isinstance(test, ast.Name) else None)
        if flag is None:
            ok, why = False, 'loop condition is not the lookup_finished flag'
        else:
            # inside the loop the table-descriptor arm (the one that updates base_address) must leave the loop running
            # and the block arm must terminate it
            table_sets = None
            for n in ast.walk(lp):
                if isinstance(n, ast.Assign) and len(n.targets) == 1 and isinstance(n.targets[0], ast.Name) \
                        and n.targets[0].id == 'base_address':
                    # sibling assignments in the same block
                    pass
            body_src = ast.unparse(lp)
            sets_false_on_table = ('%s = False' % flag) in body_src
            sets_true_at_top = any(isinstance(s, ast.Assign) and ast.unparse(s) == '%s = True' % flag for s in lp.body[:2])
            # repeat ... until flag: flag := True at the top, False on a table descriptor, loop while not flag
            if not (sets_true_at_top and sets_false_on_table and neg):
                ok, why = False, ('the level loop must implement `repeat ... until lookup_finished` (flag set at the top of each '
                                  'iteration, cleared when a table descriptor is found, loop while NOT finished); the tree loops '
                                  '`while %s`' % ast.unparse(test))
    run.instance('C15-L', 'long-descriptor level loop', ok=ok, sample={'function': fi.qualname})
    if not ok:
        run.violation('C15-L', fi.relpath, fi.qualname, 'level loop polarity', why)


def check_ld_base_select(run, repo):
    """C15-B  long-descriptor stage-1 base selection: the TTBR0 arm reads only the '0' fields of TTBCR (T0SZ, EPD0, IRGN0,
    ORGN0, SH0) and TTBR0, the TTBR1 arm only the '1' fields and TTBR1, the size locals come from the matching TnSZ, and the two
    arms are the same template under that renaming (sibling agreement)."""
    fi = repo.method('ArmV6', 'translation_table_walk_ld')
    fn = fi.qualname
    arms = {}
    for node in ast.walk(fi.node):
        if isinstance(node, ast.If):
            txt = ast.unparse(ast.Module(body=node.body, type_ignores=[]))
            for k in ('0', '1'):
                if ('self.registers.ttbr%s_64' % k) in txt and ('self.registers.ttbr%s_64' % ('1' if k == '0' else '0')) not in txt:
                    arms[k] = node
    ok = True
    if set(arms) != {'0', '1'}:
        raise AnalysisError('translation_table_walk_ld: TTBR0 / TTBR1 base-selection arms not found')
    sized = {}
    for node in ast.walk(fi.node):
        if isinstance(node, ast.Assign) and len(node.targets) == 1 and isinstance(node.targets[0], ast.Name):
            v = ast.unparse(node.value)
            if v.startswith('self.registers.ttbcr.t') and v.endswith('sz'):
                sized.setdefault(node.targets[0].id, set()).add(v[-3])
    for k, node in sorted(arms.items()):
        o = '1' if k == '0' else '0'
        region = [node.test] + node.body
        for part in region:
            for a in ast.walk(part):
                if isinstance(a, ast.Attribute) and ast.unparse(a.value) == 'self.registers.ttbcr':
                    f = a.attr
                    if f[-1] == o or (f[:-1].endswith('sz') is False and f in ('t%ssz' % o,)):
                        ok = False
                        run.violation('C15-B', fi.relpath, fn, 'TTBR%s arm reads TTBCR.%s' % (k, f.upper()),
                                      'the TTBR%s arm of the long-descriptor base selection reads TTBCR.%s, a field of the other translation '
                                      'table base (wrong start level / region size / attributes for the TTBR%s region)' % (k, f.upper(), k))
                if isinstance(a, ast.Name) and a.id in sized and sized[a.id] == {o}:
                    ok = False
                    run.violation('C15-B', fi.relpath, fn, 'TTBR%s arm uses %s' % (k, a.id),
                                  'the TTBR%s arm uses `%s`, which holds TTBCR.T%sSZ' % (k, a.id, o))
    # sibling agreement under the renaming 0 <-> 1
    def canon(node, k):
        import re as _re
        t = ast.unparse(ast.Module(body=node.body, type_ignores=[]))
        t = _re.sub(r'\b(t)%s(sz|_size)\b' % k, r'\1#\2', t)
        t = _re.sub(r'\b(ttbr)%s(_64)\b' % k, r'\1#\2', t)
        t = _re.sub(r'\b(epd|irgn|orgn|sh)%s\b' % k, r'\1#', t)
        t = _re.sub(r'(bit_at\([^()]*(?:\([^()]*\))?[^()]*\)) == 1\b', r'\1', t)
        return t
    a0, a1 = canon(arms['0'], '0'), canon(arms['1'], '1')
    if a0 != a1:
        l0, l1 = a0.splitlines(), a1.splitlines()
        diff = [(x, y) for x, y in zip(l0, l1) if x != y][:1] or [('%d statements' % len(l0), '%d statements' % len(l1))]
        ok = False
        run.violation('C15-B', fi.relpath, fn, 'TTBR0 / TTBR1 arms disagree',
                      'the two base-selection arms are not the same template under the renaming 0 <-> 1: `%s` vs `%s`' % (
                          diff[0][0].strip()[:80], diff[0][1].strip()[:80]))
    # the TTBR1 selection predicate itself, as a boolean function of (T1SZ, base already found, input address):
    #   (t1size == 0 && !basefound) || (t1size > 0 && IsOnes(inputaddr<31:(32-t1size)>))
    from ..bitdom import State, Interp, Policy, Unsupported, sym_int
    from ..bdd import BDD
    B2 = BDD()
    it2 = Interp(repo, B2, Policy())
    it2.cur_func = fi
    t1 = sym_int(B2, 't1_size', 3)
    bf = B2.var('base_found')
    ia = sym_int(B2, 'ia', 32)
    st = State(1, {'t1_size': V(t1), 'base_found': V(Int([bf])), 'ia': V(ia)}, {})
    try:
        got = it2.truth(it2._eval(arms['1'].test, st), 1)
    except Unsupported as u:
        raise AnalysisError('TTBR1 selection test outside the bit-vector idiom: %s' % u)
    want = B2.AND(it2.i_eq(t1, it2.const(0)), B2.NOT(bf))
    for k in range(1, 8):
        want = B2.OR(want, B2.AND(it2.i_eq(t1, it2.const(k)), B2.all_and(ia.bits[32 - k:32])))
    d = B2.XOR(got, want)
    if d != 0:
        ok = False
        a = B2.pick(d)
        w = {}
        for v_, b_ in a.items():
            nm = B2.names[v_]
            base = nm.split('[')[0]
            w[base] = w.get(base, 0) | (b_ << int(nm[nm.index('[') + 1:-1])) if '[' in nm else b_
        run.violation('C15-B', fi.relpath, fn, 'TTBR1 selection predicate',
                      'TTBR1 must be selected exactly when (T1SZ == 0 and no TTBR0 match) or (T1SZ > 0 and the top T1SZ bits of the address are '
                      'ones); the tree differs e.g. for %s' % {k_: (hex(v_) if k_ == 'ia' else v_) for k_, v_ in w.items()})
    run.instance('C15-B', 'long-descriptor TTBR0/TTBR1 base selection', obligations=4, ok=ok, sample={'function': fn})


def check_ld_descriptor_dispatch(run, repo):
    """C15-D: the long-descriptor walk loop classifies every descriptor exactly as the architecture does:
         descriptor<0> == 0                      -> Translation fault
         descriptor<1:0> == 01, level 3          -> Translation fault (reserved encoding)
         descriptor<1:0> == 01, level 1 or 2     -> block
         descriptor<1:0> == 11, level 3          -> page (block_translate)
         descriptor<1:0> == 11, level 1 or 2     -> table: the walk continues
       decided as a truth table of the guards of the three kinds of events inside the loop."""
    from ..effects import _SelfWalker
    fi = repo.method('ArmV6', 'translation_table_walk_ld')
    tr = _SelfWalker(repo, 'ArmV6', []).walk(fi, repo.cls('ArmV6'))
    inloop = [e for e in tr.events if e.loops]
    faults = [e for e in inloop if e.kind == 'ProcCall' and e.d['method'] == 'data_abort' and len(e.d['args']) > 5 and
              e.d['args'][5] == ('enum', 'DAbort', 'TRANSLATION')]
    blocks = [e for e in inloop if e.kind == 'LocalAssign' and e.d['name'] == 'block_translate' and e.d['value'] == ('const', True)]
    tables = [e for e in inloop if e.kind == 'LocalAssign' and e.d['name'] == 'lookup_finished' and e.d['value'] == ('const', False)]
    if not faults or not blocks or not tables:
        raise AnalysisError('translation_table_walk_ld: the descriptor dispatch (translation fault / block_translate = True / '
                            'lookup_finished = False inside the walk loop) was not found')
    desc = [None]

    def bit(t):
        """k if t is bit_at(<descriptor>, k) for k in (0, 1), with one descriptor term throughout."""
        if t[0] == 'call' and t[1] == 'bit_at' and t[2][1] in (('const', 0), ('const', 1)):
            if desc[0] is None:
                desc[0] = t[2][0]
            if t[2][0] == desc[0]:
                return t[2][1][1]
        return None

    def truth(t, valid, b1, l3):
        if not isinstance(t, tuple) or not t:
            return None
        if t[0] == 'not':
            r = truth(t[1], valid, b1, l3)
            return None if r is None else not r
        if t[0] in ('and', 'or'):
            rs = [truth(x, valid, b1, l3) for x in t[1]]
            if t[0] == 'and':
                return False if False in rs else (True if all(r is True for r in rs) else None)
            return True if True in rs else (False if all(r is False for r in rs) else None)
        k = bit(t)
        if k is not None:
            return bool((valid, b1)[k])
        if t[0] == 'cmp' and t[1] in ('Eq', 'NotEq'):
            for a, b in ((t[2], t[3]), (t[3], t[2])):
                k = bit(a)
                if k is not None and b[0] == 'const' and b[1] in (0, 1):
                    r = (valid, b1)[k] == b[1]
                    return r if t[1] == 'Eq' else not r
                if a[0] == 'loopcarried' and a[1] == 'current_level' and b == ('const', 3):
                    return l3 if t[1] == 'Eq' else not l3
        return None

    def live(e, valid, b1, l3):
        for term, pol, _ in e.guards:
            r = truth(term, valid, b1, l3)
            if r is not None and r != pol:
                return False
        return True
    ok = True
    rows = 0
    for valid in (0, 1):
        for b1 in (0, 1):
            for l3 in (False, True):
                rows += 1
                want = 'fault' if (not valid or (b1 == 0 and l3)) else ('block' if (b1 == 0 or l3) else 'table')
                got = {'fault': any(live(e, valid, b1, l3) for e in faults),
                       'block': any(live(e, valid, b1, l3) for e in blocks),
                       'table': any(live(e, valid, b1, l3) for e in tables)}
                # after a fault nothing else matters (the abort does not return); otherwise exactly the wanted kind
                bad = not got[want] or (want != 'fault' and any(v for k, v in got.items() if k != want))
                if bad:
                    ok = False
                    run.violation('C15-D', fi.relpath, fi.qualname, 'descriptor<1:0>=%d%d level%s3' % (b1, valid, '==' if l3 else '!='),
                                  'a long-format descriptor with bits<1:0> = %d%d at a level %s 3 must give `%s`; the walk loop gives %s'
                                  % (b1, valid, '==' if l3 else '!=', {'fault': 'Translation fault', 'block': 'block / page translation',
                                                                      'table': 'next-level table walk'}[want],
                                     ', '.join(k for k, v in got.items() if v) or 'nothing'))
    run.instance('C15-D', 'long-descriptor type dispatch', obligations=rows, ok=ok,
                 sample={'function': fi.qualname, 'fault_sites': len(faults), 'block_sites': len(blocks), 'table_sites': len(tables)})


def check_ld_hierarchical(run, repo):
    """C15-H  hierarchical table attributes of the long-descriptor walk: APTable / XNTable / PXNTable (descriptor bits 62:59) of a
    table descriptor restrict every lower level, so the variable a value from those bits is stored into must combine it with its
    own previous value (x = x and/or ..., x |= ...): an assignment that overwrites forgets the restrictions of the upper levels."""
    fi = repo.method('ArmV6', 'translation_table_walk_ld')
    fn = fi.qualname
    n = 0
    ok = True

    def touches_table_bits(expr):
        for c in ast.walk(expr):
            if isinstance(c, ast.Call) and isinstance(c.func, ast.Name) and c.args and isinstance(c.args[0], ast.Name) \
                    and c.args[0].id == 'descriptor':
                idx = [a.value for a in c.args[1:] if isinstance(a, ast.Constant) and isinstance(a.value, int)]
                if c.func.id == 'bit_at' and len(idx) == 1 and 59 <= idx[0] <= 62:
                    return True
                if c.func.id == 'substring' and len(idx) == 2 and idx[0] >= 59 and idx[1] <= 62 and idx[0] >= idx[1]:
                    return True
        return False
    for loop in ast.walk(fi.node):
        if not isinstance(loop, ast.While):
            continue
        for st in ast.walk(loop):
            if isinstance(st, ast.Assign) and len(st.targets) == 1 and isinstance(st.targets[0], ast.Name) and touches_table_bits(st.value):
                n += 1
                name = st.targets[0].id
                if not any(isinstance(x, ast.Name) and x.id == name for x in ast.walk(st.value)):
                    ok = False
                    run.violation('C15-H', fi.relpath, fn, norm_stmt(st, 90),
                                  '`%s` takes the hierarchical APTable/XNTable/PXNTable bits of this table descriptor without combining them '
                                  'with its previous value: restrictions set by an upper-level table are dropped at the next level' % name)
            elif isinstance(st, ast.AugAssign) and isinstance(st.target, ast.Name) and touches_table_bits(st.value):
                n += 1
                if not isinstance(st.op, (ast.BitOr, ast.BitAnd)):
                    ok = False
                    run.violation('C15-H', fi.relpath, fn, norm_stmt(st, 90), 'hierarchical table bits must accumulate with | or &')
    run.instance('C15-H', 'hierarchical table attributes accumulate', obligations=max(n, 1), ok=ok, sample={'function': fn, 'updates': n})
    run.floor('hierarchical attribute updates in the LD walk', n, 1)


def check_ld_walk(run, repo, sizes, regime='pl1'):
    """C15-W  long-descriptor stage-1 walk (PL1&0 regime), interpreted whole - base selection, the level loop (unrolled),
    and the result record - once per (T0SZ, T1SZ) pair, the pair fixed through the path condition so that every slice position
    is a constant; input address, TTBR0/TTBR1, EPD0/EPD1, security state and up to three 64-bit descriptors stay symbolic.
    Compared with a reference written from TranslationTableWalkLD (ARM ARM B3.19): which TTBR and start level, the descriptor
    address at every level, the translation / access-flag faults with their level, the output address of a level-1/2 block or
    level-3 page, the hierarchical attribute bits, and the permission / nG / NS / level / block-size fields."""
    fi = repo.method('ArmV6', 'translation_table_walk_ld')
    fn = fi.qualname
    nob = 0
    ok_all = True
    for t0, t1 in sizes:
        w = Walk(repo)
        B, it, rm, m = w.B, w.it, w.rm, w.m
        ttbcr = rm.view('ttbcr')
        sctlr = rm.view('sctlr')
        ia = m.sym('ARG.ia', 32)
        D = [None, m.sym('DESC1', 64), m.sym('DESC2', 64), m.sym('DESC3', 64)]
        wr = m.sym('ARG.is_write', 1)
        s2 = m.sym('ARG.s2fs1walk', 1)
        tt0 = m.reg_attr('ttbr0_64', 64)
        tt1 = m.reg_attr('ttbr1_64', 64)
        hyp = regime == 'hyp'
        s2r = regime == 's2'
        if s2r:
            # stage-2 regime: 40-bit IPA, VTTBR, VTCR.T0SZ (signed 4 bits) = t0, VTCR.SL0 = t1 (start level 2 - SL0)
            ia = m.sym('ARG.ipa', 40)
            va = m.sym('ARG.va', 32)
            vtcr = rm.view('vtcr')
            hsctlr = rm.view('hsctlr')
            tt0 = m.reg_attr('vttbr', 64)
            dom = B.all_and([it.i_eq(Int(vtcr.bits[0:4]), it.const(t0 & 15)), it.i_eq(Int(vtcr.bits[6:8]), it.const(t1)),
                             rm.cfg('have_virt_ext'), rm.cfg('have_security_ext'), rm.valid_state(), B.NOT(hsctlr.bits[25]),
                             decode.arch_constraint(it)])
            label = 'stage 2, VTCR.T0SZ=%d SL0=%d' % (t0, t1)
        elif hyp:
            # Hyp regime: HTTBR / HTCR.T0SZ only, never secure, descriptor fetch endianness from HSCTLR.EE
            htcr = rm.view('htcr')
            hsctlr = rm.view('hsctlr')
            tt0 = m.reg_attr('httbr', 64)
            dom = B.all_and([it.i_eq(Int(htcr.bits[0:3]), it.const(t0)), rm.cfg('have_virt_ext'), rm.cfg('have_security_ext'),
                             rm.mode_is(rm.cpsr(), 'hyp'), rm.vbit('scr', 0), B.NOT(hsctlr.bits[25]), decode.arch_constraint(it)])
            label = 'Hyp regime, HTCR.T0SZ=%d' % t0
        else:
            dom = B.all_and([it.i_eq(Int(ttbcr.bits[0:3]), it.const(t0)), it.i_eq(Int(ttbcr.bits[16:19]), it.const(t1)),
                             B.NOT(rm.cfg('have_virt_ext')), rm.valid_state(), B.NOT(sctlr.bits[25]), decode.arch_constraint(it)])
            label = 'T0SZ=%d T1SZ=%d' % (t0, t1)
        res, _ = m.run('ArmV6', 'translation_table_walk_ld',
                       [ia, va, wr, it.const(0), s2, it.const(4)] if s2r else [ia, ia, wr, it.const(1), s2, it.const(4)], cond=dom)
        ok = True

        def bad(construct, msg, wit=None, _label=label):
            nonlocal ok
            ok = False
            run.violation('C15-W', fi.relpath, fn, construct, '%s (%s)' % (msg, _label),
                          {'witness': describe_witness(B, B.pick(wit), ('ARG.ia', 'DESC1', 'DESC2', 'DESC3'))
                           if wit not in (None, 0) else None})
        cat = lambda *parts: Int([b for p in parts for b in p])
        zeros = lambda n: [0] * n
        secure = 0 if (hyp or s2r) else rm.is_secure(rm.cpsr())
        # ---- reference: base selection ----------------------------------------------------------
        if s2r:
            use0 = 1 if t0 == -8 else B.all_and([B.NOT(b) for b in ia.bits[32 - t0:40]])
        else:
            top0 = B.all_and([B.NOT(b) for b in ia.bits[32 - t0:32]]) if t0 else 1
            use0 = 1 if t0 == 0 else top0
        if hyp or s2r:
            use1 = 0
        elif t1 == 0:
            use1 = B.NOT(use0)
        else:
            use1 = B.all_and(list(ia.bits[32 - t1:32]))
        found = B.OR(use0, use1)
        epd = 0 if (hyp or s2r) else B.ite(use1, ttbcr.bits[23], ttbcr.bits[7])

        def start(tsz, ttbr):
            lvl = (2 - t1) if s2r else (1 if tsz < 2 else 2)
            x = (14 - tsz - 9 * t1) if s2r else (9 * lvl - tsz - 4)
            base = cat(zeros(x), ttbr.bits[x:40])
            lo = 39 - 9 * lvl
            sel = cat(zeros(3), ia.bits[lo:32 - tsz])
            return lvl, Int(it.ext(it.i_bitop('or', base, sel), 40))
        l0, a0 = start(t0, tt0)
        l1, a1 = start(t0 if (hyp or s2r) else t1, tt1)
        nofault0 = B.AND(found, B.NOT(epd))
        # the two start levels may differ: build per-selection references and merge with ite(use1, ...)
        refs = {}
        for which, lvl, addr in (('1', l1, a1), ('0', l0, a0)):
            sel = B.AND(dom, B.AND(nofault0, use1 if which == '1' else B.AND(use0, B.NOT(use1))))
            ls, rw, us, pxn, xn = secure, 1, 1, 0, 0
            live = sel
            k = 1
            L = lvl
            steps = []
            while L <= 3:
                d = D[k]
                valid, b1 = d.bits[0], d.bits[1]
                fault = B.AND(live, B.OR(B.NOT(valid), B.AND(B.NOT(b1), 1 if L == 3 else 0)))
                table = B.all_and([live, valid, b1]) if L < 3 else 0
                block = B.all_and([live, valid, b1 if L == 3 else B.NOT(b1)])
                n = 39 - 9 * L
                out = cat(ia.bits[0:n], d.bits[n:40])
                at = list(d.bits[2:12]) + list(d.bits[52:55])
                nls = B.NOT(ls)
                if s2r:
                    xn = pxn = 0
                    rw = us = 1
                    nls = 0
                at[12] = B.OR(at[12], xn)
                at[11] = B.OR(at[11], pxn)
                at[9] = B.OR(at[9], B.AND(secure, nls))
                at[5] = B.OR(at[5], B.NOT(rw))
                at[4] = B.AND(at[4], us)
                at[3] = B.OR(at[3], nls)
                steps.append({'k': k, 'L': L, 'live': live, 'addr': addr, 'fault': fault, 'block': block, 'out': out, 'attrs': at})
                # next level
                addr = Int(it.ext(cat(zeros(3), ia.bits[39 - 9 * (L + 1):48 - 9 * (L + 1)] if L < 3 else [], zeros(0)), 40)) if False else None
                if L < 3:
                    nl = L + 1
                    addr = cat(zeros(3), ia.bits[39 - 9 * nl:48 - 9 * nl], d.bits[12:40])
                    ls = B.AND(ls, B.NOT(d.bits[63]))
                    rw = B.AND(rw, B.NOT(d.bits[62]))
                    us = B.AND(us, B.NOT(d.bits[61]))
                    pxn = B.OR(pxn, d.bits[59])
                    xn = B.OR(xn, d.bits[60])
                live = table
                L += 1
                k += 1
            refs[which] = steps
        all_steps = refs['1'] + refs['0']
        # ---- faults ----------------------------------------------------------------------------------
        ref_tr = {1: B.AND(dom, B.NOT(nofault0)), 2: 0, 3: 0}
        ref_af = {1: 0, 2: 0, 3: 0}
        for stp in all_steps:
            ref_tr[stp['L']] = B.OR(ref_tr[stp['L']], stp['fault'])
            ref_af[stp['L']] = B.OR(ref_af[stp['L']], B.AND(stp['block'], B.NOT(stp['attrs'][8])))
        for kind, ref in (('TRANSLATION', ref_tr), ('ACCESS_FLAG', ref_af)):
            got_all = 0
            for c, a in w.aborts:
                cc = B.AND(c, dom)
                if cc == 0 or a[5].single() != ('enum', 'DAbort', kind):
                    continue
                got_all = B.OR(got_all, cc)
                for L in (1, 2, 3):
                    reg = B.AND(cc, ref[L])
                    if reg != 0:
                        nob += 1
                        r = specmod.diff_values(it, reg, a[3], V(it.const(L)), 'level')
                        if r is not None:
                            bad('%s fault level' % kind.lower(), 'the fault is reported for the wrong lookup level: %s' % r[0], r[1])
                for idx, what, want in ((0, 'faulting address', V(va if s2r else ia)), (9, 'LDFSR format', None), (7, 'second-stage flag', None),
                                        (6, 'taken-to-Hyp flag', None)):
                    nob += 1
                    if want is not None:
                        r = specmod.diff_values(it, cc, a[idx], want, what)
                        if r is not None:
                            bad('%s fault %s' % (kind.lower(), what), 'the fault carries a different %s: %s' % (what, r[0]), r[1])
                    else:
                        try:
                            tv = it.truth(a[idx], cc)
                        except Exception:
                            tv = None
                        exp = 1 if idx == 9 or (idx == 6 and (hyp or s2r)) or (idx == 7 and s2r) else 0
                        if tv is None or B.AND(cc, B.XOR(tv, exp)) != 0:
                            bad('%s fault %s' % (kind.lower(), what), 'a stage-1 long-descriptor fault must be reported in the '
                                'LPAE format, as a first-stage abort, and taken to Hyp mode exactly in the Hyp regime')
            want_all = B.all_or(ref.values())
            nob += 1
            dd = B.AND(dom, B.XOR(got_all, want_all))
            if dd != 0:
                bad('%s faults' % kind.lower().replace('_', ' '),
                    'the set of (address, TTBCR, descriptors) states that take a %s fault differs from the architecture (tree %s)'
                    % (kind.lower().replace('_', ' '), 'faults where the reference does not' if B.AND(dd, got_all) != 0
                       else 'does not fault where the reference does'), dd)
        kinds = {a[5].single()[2] for c, a in w.aborts if B.AND(c, dom) != 0}
        if kinds - {'TRANSLATION', 'ACCESS_FLAG'}:
            bad('abort kinds', 'the long-descriptor walk raises unexpected abort types %s' % sorted(kinds))
        # ---- descriptor reads -----------------------------------------------------------------------
        for k in (1, 2, 3):
            mine = [stp for stp in all_steps if stp['k'] == k]
            live = B.all_or(stp['live'] for stp in mine)
            if k > len(w.reads):
                if live != 0:
                    bad('descriptor read %d' % k, 'no level-%d-deep descriptor read although the walk continues' % k, live)
                continue
            c, pa, size, _ = w.reads[k - 1]
            nob += 2
            if size != 8:
                bad('descriptor size', 'long descriptors must be read as 64-bit doublewords')
            dd = B.AND(dom, B.XOR(B.AND(c, dom), live))
            if dd != 0:
                bad('descriptor read %d' % k, 'descriptor %d is read in states where the architecture does not read it, or the '
                    'reverse (disabled walk, fault or block at an earlier level)' % k, dd)
            for stp in mine:
                reg = B.AND(stp['live'], c)
                if reg == 0:
                    continue
                r = specmod.diff_values(it, reg, pa, V(Int(it.ext(stp['addr'], 40))), 'descriptor address') if pa is not None \
                    else ('no address', reg)
                if r is not None:
                    bad('level-%d descriptor address' % stp['L'],
                        'the descriptor address is not %s: %s' % (
                            'TTBR[39:x]:IA[31-TxSZ:%d]:000 (x = 9*level - TxSZ - 4)' % (39 - 9 * stp['L']) if stp['k'] == 1 else
                            'Descriptor[39:12]:IA[%d:%d]:000' % (47 - 9 * stp['L'], 39 - 9 * stp['L']), r[0]), r[1])
        # ---- result record -----------------------------------------------------------------------------
        done = 0
        for stp in all_steps:
            fin = B.AND(stp['block'], stp['attrs'][8])
            done = B.OR(done, fin)
            if fin == 0:
                continue
            at, L = stp['attrs'], stp['L']
            want = {'addrdesc.paddress.physicaladdress': Int(it.ext(stp['out'], 40)), 'perms.xn': Int([at[12]]),
                    'perms.pxn': Int([at[11]]), 'contiguousbit': Int([at[10]]), 'ng': Int([at[9]]),
                    'perms.ap': Int([1, at[4], at[5]]), 'level': it.const(L), 'blocksize': it.const((512 ** (3 - L)) * 4),
                    'addrdesc.paddress.ns': it.const(1) if s2r else Int([at[3]]), 'domain': it.const(0)}
            for c, v, st_ in res.rets:
                obj = v.single()
                cc = B.AND(c, fin)
                if cc == 0 or not (isinstance(obj, tuple) and obj[0] == 'obj'):
                    continue
                for path, ref in want.items():
                    got = w.field(st_.heap, obj, path)
                    nob += 1
                    if got is None:
                        bad('record field ' + path, 'the walk does not set %s' % path)
                        continue
                    r = specmod.diff_values(it, cc, got, V(ref), path)
                    if r is not None:
                        bad('record field %s (level %d)' % (path, L),
                            'the translation result field %s differs from the long-descriptor format: %s' % (path, r[0]), r[1])
        nob += 1
        if B.AND(done, B.NOT(res.returned)) != 0:
            bad('completion', 'the walk does not return a record for some valid block / page descriptor', B.AND(done, B.NOT(res.returned)))
        if B.AND(B.AND(dom, res.returned), B.NOT(done)) != 0:
            bad('completion', 'the walk returns a record in a state where the architecture takes a fault',
                B.AND(B.AND(dom, res.returned), B.NOT(done)))
        for o in it.outcomes:
            if o.kind in ('hosterror', 'unbound', 'assert_fail') and B.AND(o.cond, dom) != 0:
                bad(norm_stmt(o.node, 90), 'host error reachable in the long-descriptor walk: %s %s' % (o.kind, o.payload),
                    B.AND(o.cond, dom))
        ok_all = ok_all and ok
        run.instance('C15-W', 'translation_table_walk_ld ' + label, obligations=1, ok=ok,
                     sample={'function': fn, 'sizes': label, 'descriptor_reads': len(w.reads), 'aborts': len(w.aborts),
                             'bdd_nodes': B.size(),
                             'inputs': 'IA x TTBR0/1 x EPD0/1 x security state x three 64-bit descriptors'})
    run.extra.setdefault('ld_walk', {})['field_comparisons'] = nob
    return ok_all


def main(repo_path, tier, seed, replay=None):
    run = Run('C15', tier, level='other', seed=seed)
    repo = Repo(repo_path)
    import re
    from .. import memo
    memo.check(run, repo, 'C15-MEMO', lambda rel, q: re.search(r'(translation_table_walk|translate_address|check_domain|check_permission|second_stage|fcse|remap|convert_attrs)', q) is not None,
               'VMSA translation table walks, domain and permission checking')
    check_sd_walk(run, repo)
    check_fsr_tables(run, repo)
    check_domain_table(run, repo)
    check_permission_table(run, repo)
    check_vmsa_abort(run, repo)
    check_flat_and_fcse(run, repo)
    check_compose(run, repo)
    check_ld_loop(run, repo)
    check_ld_base_select(run, repo)
    check_ld_hierarchical(run, repo)
    check_ld_descriptor_dispatch(run, repo)
    LD_QUICK = ((0, 0), (1, 0), (0, 1), (2, 3), (7, 7), (0, 5), (4, 1))
    LD_ALL = tuple((a, b) for a in range(8) for b in range(8))
    check_ld_walk(run, repo, LD_ALL if tier == 'thorough' else LD_QUICK)
    check_ld_walk(run, repo, tuple((a, 0) for a in range(8)) if tier == 'thorough' else ((0, 0), (1, 0), (2, 0), (6, 0)), regime='hyp')
    S2_ALL = tuple((t, 0) for t in range(-2, 8)) + tuple((t, 1) for t in range(-8, 2))
    check_ld_walk(run, repo, S2_ALL if tier == 'thorough' else ((0, 1), (-8, 1), (1, 1), (-2, 0), (3, 0), (7, 0)), regime='s2')
    # positive control for the long-descriptor rule: the level-2 block output slice moved by a bit (in memory)
    fl = repo.method('ArmV6', 'translation_table_walk_ld')
    srcl = fl.module.source
    oldl = 'ia_length = 39 - offset'
    firedl, whatl = False, ''
    if oldl in srcl:
        mrepo = Repo(repo_path, overrides={fl.module.relpath: srcl.replace(oldl, 'ia_length = 38 - offset', 1)})
        tmp = Run('C15')
        try:
            check_ld_walk(tmp, mrepo, ((0, 0),))
            firedl = bool(tmp.findings)
        except AnalysisError:
            firedl = True
        whatl = 'block output boundary 39 - 9*level -> 38 - 9*level'
    run.control('C15-W output address boundary moved', firedl, whatl)
    # positive control: one descriptor slice moved by a bit (in memory)
    fi = repo.method('ArmV6', 'translation_table_walk_sd')
    src = fi.module.source
    fired = False
    what = ''
    old = 'substring(l1desc, 31, 20)'
    if old in src:
        mrepo = Repo(repo_path, overrides={fi.module.relpath: src.replace(old, 'substring(l1desc, 31, 21)', 1)})
        tmp = Run('C15')
        try:
            check_sd_walk(tmp, mrepo)
            fired = bool(tmp.findings)
        except AnalysisError:
            fired = True
        what = 'section base slice l1desc[31:20] -> [31:21]'
    run.control('C15-S descriptor slice moved', fired, what)
    run.exhaustive = True
    run.undecided = ['long-descriptor walk: the walk-attribute fields of the descriptor fetch (IRGN/ORGN/SH), the second-stage translation of stage-1 table addresses, S2AttrDecode / CheckPermissionS2 (the three regimes of the walk itself - PL1&0, Hyp, stage 2 - are decided by C15-W)',
                     'memory attribute decoding (TEX remap / MAIR) beyond the bits handed to it', 'composition of stage 1 with stage 2 (SecondStageTranslate)',
                     'big-endian (SCTLR.EE) descriptor fetch is compared in the EE = 0 world only']
    run.assumptions = ['reference: TranslationTableWalkSD, CheckDomain, EncodeSDFSR/LDFSR, DataAbort, FCSETranslate, '
                       'TranslateAddressV (ARM ARM B3, DESIGN.md A.6/A.9)', 'stage 2 not in play (no virtualization or secure state)']
    return run.finish(
        'VMSA: the short-descriptor walk is interpreted with the MVA, both TTBRs, TTBCR, SCTLR and both descriptors symbolic and '
        'compared with the reference format (descriptor addresses for N = 0..7, type decision table, fault type/level/domain, '
        'resulting PA / domain / AP / XN / PXN / nG / NS / level / block size, attribute bits). Fault-status encodings, the VMSA '
        'arm of DataAbort, CheckDomain, FCSE, the MMU-off flat map and the dispatch inside TranslateAddressV are exact tables. '
        'The stage-1 long-descriptor walk is interpreted whole per (T0SZ, T1SZ) pair with the address, TTBRs, EPDs, security state '
        'and three 64-bit descriptors symbolic (C15-W: base selection, descriptor address per level, fault level, block / page '
        'output address, hierarchical attribute bits, result fields), on top of the structural loop / sibling-arm rules.',
        './check C15 --tier %s' % tier)
