"""C06 / C07 - decode layer validated as a translation of the encoding tables.

Rules (DESIGN.md section 4, C06/C07):
  A1  class selection: the exact region of instruction words the decoder sends to every
      encoding class equals the reference region; words outside every class land on the
      reference raise / undefined leaves; no shadowed (dead) decoder arm.
  A2  operand wiring: every constructor kwarg, as per-bit functions of the instruction
      bits and the permitted state atoms, equals the reference wiring for all accepted words.
  A3  outcomes: UNDEFINED words raise, valid words are accepted (extra acceptance only
      inside the reference UNPREDICTABLE set).
  A4  purity: decode and from_bitarray store nothing on the processor; the constructed
      class is the class selected.
  A5  no host error (unbound local, assertion, type error) on any decode path.
"""
import ast
import copy

from .. import decode, spec
from ..bdd import BDD
from ..report import Run, AnalysisError
from ..srcmodel import Repo, norm_stmt
from ..bitdom import Value

SPEC_FILES = {'ARM': 'enc_arm.json', 'T16': 'enc_t16.json', 'T32': 'enc_t32.json'}
FLOORS = {'ARM': 271, 'T16': 81, 'T32': 250}
DECODER_FLOOR = {'ARM': 20, 'T16': 8, 'T32': 20}


def arm_key(a):
    """(decoder module, truth function of the arm's own test) - independent of names/lines."""
    node, fi = a[2], a[3]
    return '%s :: if %s' % (fi.module.name.split('.')[-1], norm_stmt(node.test, 120))


def check_root(run, repo, root, B, prop, only=None, quiet=False):
    """Compare the tree model of one root with the reference table.  Returns findings added."""
    sp = spec.load(SPEC_FILES[root])
    nb = sp['nbits']
    rm = decode.build(repo, root, B)
    part = rm.part
    before = len(run.findings)
    archok = B.var('ARCH[2]')
    decfile = repo.module(decode.ROOTS[root][0]).relpath

    # ---- A1: decoder-level leaves -------------------------------------------------
    dom_spec = spec.region_from_json(B, sp['domain'], nb)
    if part.domain != dom_spec:
        run.violation('%s-A1' % prop, decfile, 'decode_instruction', 'root domain',
                      'the set of words reaching the %s root decoder differs from the reference' % root)
    ni_t = part.raises.get('NotImplementedError', 0)
    ud_t = B.OR(part.raises.get('UndefinedInstructionException', 0), part.none)
    for label, t, s in (('not-implemented leaves', ni_t, spec.region_from_json(B, sp['decoder']['not_implemented'], nb)),
                        ('undefined leaves', ud_t, spec.region_from_json(B, sp['decoder']['undefined'], nb))):
        d = B.XOR(t, s)
        run.instance('%s-A1' % prop, '%s %s' % (root, label), ok=(d == 0),
                     sample={'root': root, 'leaf': label, 'words': B.count(t, decode.ivars(B, nb))})
        if d != 0:
            w = spec.witness(B, d, nb)
            run.violation('%s-A1' % prop, decfile, 'decode_instruction', '%s %s' % (root, label),
                          'the set of %s words that reach the %s differs from the reference, e.g. %s' % (
                              root, label, w['word']), {'witness': w})
    for exc, c in part.raises.items():
        if exc not in ('NotImplementedError', 'UndefinedInstructionException'):
            run.violation('%s-A1' % prop, decfile, 'decode_instruction', 'raise %s' % exc,
                          'decoder raises %s for some words (neither Undefined nor the documented not-implemented error)' % exc,
                          {'witness': spec.witness(B, c, nb)})
    for o in part.hosterrors:
        run.violation('%s-A5' % prop, o.func.relpath if o.func else decfile, o.func.qualname if o.func else '?',
                      norm_stmt(o.node, 100), 'decoder fails with a host error for some words: %s' % o.payload,
                      {'witness': spec.witness(B, o.cond, nb)})

    # ---- dead arms: informational only ---------------------------------------------
    # A shadowed arm is dead code; whatever it would have changed is already judged by the
    # region comparison above/below (a class that loses words, a missing handler).  Reporting
    # the arm itself would also fire on behaviour-preserving dead code, so it is a note.
    ndec = set()
    for a in part.arms.values():
        ndec.add(a[3].module.name)
        if a[0] == 0:
            run.extra.setdefault('dead_decoder_arms', []).append(arm_key(a))
    if not quiet:
        run.floor('%s decoder modules' % root, len(ndec), DECODER_FLOOR[root])

    # ---- bind reference encodings to tree classes -------------------------------------
    tree = rm.encodings
    bound = {}
    unbound_spec = []
    for name, e in sp['encodings'].items():
        if name in tree:
            bound[name] = name
        else:
            unbound_spec.append(name)
    free_tree = [n for n in tree if n not in bound.values()]
    for name in list(unbound_spec):
        reg = spec.region_from_json(B, sp['encodings'][name]['region'], nb)
        for t in free_tree:
            if tree[t].region == reg:       # renamed class: same words
                bound[name] = t
                free_tree.remove(t)
                unbound_spec.remove(name)
                break
    for name in unbound_spec:
        reg = spec.region_from_json(B, sp['encodings'][name]['region'], nb)
        run.violation('%s-A1' % prop, decfile, 'decode_instruction', 'encoding %s' % name,
                      'no decoder leaf selects a class for the words of encoding %s (missing handler), e.g. %s' % (
                          name, (spec.witness(B, reg, nb) or {}).get('word')))
    for t in free_tree:
        run.violation('%s-A1' % prop, tree[t].file, t + '.from_bitarray', 'class %s' % t,
                      'class is selected by the decoder but has no entry in the reference table, e.g. word %s' % (
                          (spec.witness(B, tree[t].region, nb) or {}).get('word')))

    # ---- per encoding ---------------------------------------------------------------
    n_cmp = 0
    for name, tname in sorted(bound.items()):
        if only is not None and tname not in only:
            continue
        e = sp['encodings'][name]
        em = tree[tname]
        it = em.interp
        fn = tname + '.from_bitarray'
        reg_s = spec.region_from_json(B, e['region'], nb)
        words = B.count(reg_s, decode.ivars(B, nb))
        ok = True
        d = B.XOR(em.region, reg_s)
        if d != 0:
            ok = False
            extra = B.AND(em.region, B.NOT(reg_s))
            w = spec.witness(B, extra if extra != 0 else d, nb)
            run.violation('%s-A1' % prop, em.file, fn, 'region of %s' % name,
                          'the decoder selects %s for a different set of words than the reference (%s), e.g. %s %s' % (
                              tname, 'extra words' if extra != 0 else 'missing words', w['word'],
                              'is now decoded as this class' if extra != 0 else 'no longer reaches this class'),
                          {'witness': w, 'pattern_reference': e.get('pattern'),
                           'pattern_tree': decode.pattern(B, em.region, nb)})
        care = B.AND(B.AND(reg_s, em.region), archok)
        undef_s = B.AND(care, spec.region_from_json(B, e['undef'], nb))
        unpred_s = B.AND(care, spec.region_from_json(B, e['unpred'], nb))
        other_s = 0
        for k, cubes in e.get('other', {}).items():
            other_s = B.OR(other_s, B.AND(care, spec.region_from_json(B, cubes, nb)))
        accept_s = B.AND(care, B.NOT(B.all_or([undef_s, unpred_s, other_s])))
        # A3
        miss = B.AND(accept_s, B.NOT(em.accept))
        if miss != 0:
            ok = False
            w = spec.witness(B, miss, nb)
            what = 'rejected as UNPREDICTABLE (returns None)' if B.AND(miss, em.unpred) != 0 else (
                'raises' if B.AND(miss, B.NOT(em.unpred)) != 0 else 'rejected')
            run.violation('%s-A3' % prop, em.file, fn, 'accepting set',
                          'a valid %s word is %s instead of being decoded, e.g. %s' % (name, what, w['word']),
                          {'witness': w})
        must_undef = B.AND(undef_s, B.NOT(unpred_s))
        d = B.AND(must_undef, B.NOT(em.undef))
        if d != 0:
            ok = False
            w = spec.witness(B, d, nb)
            run.violation('%s-A3' % prop, em.file, fn, 'UNDEFINED set',
                          'an UNDEFINED %s word does not raise the Undefined Instruction exception, e.g. %s' % (
                              name, w['word']), {'witness': w})
        d = B.AND(B.AND(care, em.undef), B.NOT(B.OR(undef_s, unpred_s)))
        if d != 0:
            ok = False
            w = spec.witness(B, d, nb)
            run.violation('%s-A3' % prop, em.file, fn, 'UNDEFINED set',
                          'a valid %s word raises the Undefined Instruction exception, e.g. %s' % (name, w['word']),
                          {'witness': w})
        for exc, c in em.other_raise.items():
            d = B.AND(B.AND(care, c), B.NOT(other_s))
            if d != 0:
                ok = False
                run.violation('%s-A3' % prop, em.file, fn, 'raise %s' % exc,
                              'from_bitarray raises %s for some words of %s' % (exc, name),
                              {'witness': spec.witness(B, d, nb)})
        # A2
        kw_s = e['kwargs']
        kw_t = {k: v for k, v in em.kwargs.items() if k != '#0'}
        acc = B.AND(accept_s, em.accept)
        if set(kw_s) != set(kw_t):
            ok = False
            run.violation('%s-A2' % prop, em.file, fn, 'constructor keywords',
                          'constructor keywords %s differ from the reference %s' % (sorted(kw_t), sorted(kw_s)))
        for k in sorted(set(kw_s) & set(kw_t)):
            vs = spec.value_from_json(B, kw_s[k], nb)
            r = spec.diff_values(it, acc, kw_t[k], vs, k)
            n_cmp += 1
            if r is not None:
                ok = False
                w = spec.witness(B, r[1], nb)
                run.violation('%s-A2' % prop, em.file, fn, 'kwarg %s' % k,
                              'operand %s of %s is extracted differently from the reference: %s; e.g. word %s' % (
                                  k, name, r[0], w['word']),
                              {'witness': w, 'reference': kw_s[k], 'correction_note': e.get('corrections', {}).get(k)})
        # A4
        for cname, c in em.ctor.items():
            if cname != tname and B.AND(c, care) != 0:
                ok = False
                run.violation('%s-A4' % prop, em.file, fn, 'constructs %s' % cname,
                              'from_bitarray of %s constructs an object of class %s' % (tname, cname))
        a0 = em.kwargs.get('#0')
        if a0 is not None:
            iv = Value([(1, decode.instr_bits(B, nb))])
            r = spec.diff_values(it, acc, a0, iv, 'instruction')
            if r is not None:
                ok = False
                run.violation('%s-A4' % prop, em.file, fn, 'instruction argument',
                              'the instruction word stored in the opcode object is not the decoded word')
        # A5
        for o in em.hosterrors:
            if B.AND(o.cond, care) == 0:
                continue
            ok = False
            run.violation('%s-A5' % prop, em.file, fn, '%s %s' % (o.kind, str(o.payload)[:60]),
                          'decoding %s fails with a host error (%s: %s), e.g. word %s' % (
                              name, o.kind, o.payload, (spec.witness(B, B.AND(o.cond, care), nb) or {}).get('word')))
        run.instance('%s-A2' % prop, name, obligations=len(kw_s) + 3, ok=ok,
                     sample={'encoding': name, 'root': root, 'pattern': e.get('pattern'), 'words': words,
                             'kwargs': sorted(kw_s)})
    return rm, len(run.findings) - before, n_cmp


# ---------------------------------------------------------------------------
# positive controls: automatically chosen AST mutations that the rules must flag
# ---------------------------------------------------------------------------
class _Mutator(ast.NodeTransformer):
    def __init__(self, pick):
        self.pick = pick
        self.seen = 0
        self.done = None

    def generic_visit(self, node):
        return super().generic_visit(node)


def mutate_source(src, kind, index=0):
    """Return (new_source, description) or None.  kinds: slice_hi, const_cmp, swap_arms."""
    tree = ast.parse(src)
    state = {'n': 0, 'desc': None}

    class T(ast.NodeTransformer):
        def visit_Call(self, node):
            self.generic_visit(node)
            if kind == 'slice_hi' and isinstance(node.func, ast.Name) and node.func.id == 'substring' \
                    and len(node.args) == 3 and all(isinstance(a, ast.Constant) for a in node.args[1:]) \
                    and isinstance(node.args[0], ast.Name) and node.args[0].id == 'instr' \
                    and node.args[1].value > node.args[2].value:
                if state['n'] == index and state['desc'] is None:
                    state['desc'] = 'substring(instr, %d, %d) -> (%d, %d)' % (
                        node.args[1].value, node.args[2].value, node.args[1].value - 1, node.args[2].value)
                    node.args[1] = ast.Constant(node.args[1].value - 1)
                state['n'] += 1
            return node

        def visit_Compare(self, node):
            self.generic_visit(node)
            if kind == 'const_cmp' and len(node.ops) == 1 and isinstance(node.ops[0], ast.Eq) \
                    and isinstance(node.comparators[0], ast.Constant) and isinstance(node.comparators[0].value, int) \
                    and not isinstance(node.comparators[0].value, bool):
                if state['n'] == index and state['desc'] is None:
                    v = node.comparators[0].value
                    state['desc'] = '%s == %d -> == %d' % (ast.unparse(node.left), v, v ^ 1)
                    node.comparators[0] = ast.Constant(v ^ 1)
                state['n'] += 1
            return node

    new = T().visit(tree)
    if state['desc'] is None:
        return None
    ast.fix_missing_locations(new)
    return ast.unparse(new), state['desc']


def run_controls(run, repo_path, prop, roots):
    """One wiring control and one selection control per root, on an in-memory mutated copy."""
    for root in roots:
        base = Repo(repo_path)
        B = BDD()
        part = decode.partition(base, root, B)
        # wiring control: first class (sorted) whose from_bitarray has a multi-bit instr slice
        fired = False
        desc = ''
        for cname in sorted(part.classes):
            ci = base.cls(cname)
            m = mutate_source(ci.module.source, 'slice_hi', 0)
            if m is None:
                continue
            mrepo = Repo(repo_path, overrides={ci.module.relpath: m[0]})
            tmp = Run(prop)
            try:
                check_root(tmp, mrepo, root, BDD(), prop, only={cname}, quiet=True)
            except AnalysisError:
                fired = True
            if any(f.rule.endswith(('-A2', '-A3', '-A5')) for f in tmp.findings):
                fired = True
            desc = '%s: %s' % (cname, m[1])
            break
        run.control('%s wiring (%s)' % (root, prop), fired, desc)
        # selection control: flip a compared constant in the root decoder module
        dm = base.module(decode.ROOTS[root][0])
        fired = False
        desc = ''
        for idx in range(6):
            m = mutate_source(dm.source, 'const_cmp', idx)
            if m is None:
                break
            mrepo = Repo(repo_path, overrides={dm.relpath: m[0]})
            tmp = Run(prop)
            try:
                check_root(tmp, mrepo, root, BDD(), prop, only=set(), quiet=True)
            except AnalysisError:
                fired = True
            if any(f.rule.endswith('-A1') for f in tmp.findings):
                fired = True
            desc = '%s: %s' % (dm.name.split('.')[-1], m[1])
            if fired:
                break
        run.control('%s selection (%s)' % (root, prop), fired, desc)


def main_for(prop, roots, repo_path, tier, seed):
    run = Run(prop, tier, level='translation_validation', seed=seed)
    repo = Repo(repo_path)
    B = BDD()
    programs = 0
    cmps = 0
    for root in roots:
        rm, nf, n = check_root(run, repo, root, B, prop)
        run.floor('%s encodings' % root, len(rm.encodings), FLOORS[root])
        programs += len(rm.encodings)
        cmps += n
        iv = decode.ivars(B, rm.nbits)
        run.extra.setdefault('space', {})[root] = {
            'domain_words': B.count(rm.part.domain, iv),
            'class_words': sum(B.count(r, iv) for r in rm.part.classes.values()),
            'leaves': len(rm.part.classes), 'decoder_arms': len(rm.part.arms)}
    # A4 (purity, continued): the decode layer and the helpers it calls keep no state of their own (a memo keyed on
    # part of the inputs makes decode depend on history), and a cycle decodes the word it fetched (no per-CPU memo).
    from . import c20
    tmp = Run('tmp')
    c20.check_shared_state(tmp, repo)
    c20.check_pipeline(tmp, repo)
    npur = 0
    for f in tmp.findings:
        if f.rule == 'C20-P' or '/opcodes/' in f.file or f.file.endswith(('shift.py', 'bits_ops.py')):
            npur += 1
            run.violation('%s-A4' % prop, f.file, f.func, f.construct,
                          'decode must depend on the instruction word (and the architectural IT / carry state) only: ' + f.message)
    # memoised decode results: a stored-and-returned result in any function on the decode path (the dispatcher, the
    # decoders, from_bitarray, ArmV6.decode_instruction / emulate_cycle), or a caching decorator on one of them
    from .. import memo
    import ast as _ast

    def on_decode_path(rel, qual):
        return '/opcodes/' in rel or qual.split('.')[-1] in ('decode_instruction', 'from_bitarray', 'emulate_cycle',
                                                                'fetch_instruction')
    for rel, qual, loc, why in memo.find_memos(repo):
        if on_decode_path(rel, qual):
            npur += 1
            run.violation('%s-A4' % prop, rel, qual, 'memo ' + loc,
                          '%s returns a decode result it stored in %s during an earlier call, and %s: the class / operands of a '
                          'word then depend on what was decoded before (instruction set, IT state, carry at that time), not on '
                          'the word and the current state' % (qual, loc, why))
    for m in repo.modules.values():
        for node in _ast.walk(m.tree):
            if isinstance(node, _ast.FunctionDef) and on_decode_path(m.relpath, node.name):
                for d in node.decorator_list:
                    dn = _ast.unparse(d.func if isinstance(d, _ast.Call) else d)
                    if dn.split('.')[-1] in ('lru_cache', 'cache', 'cached_property', 'memoize', 'memoized'):
                        npur += 1
                        run.violation('%s-A4' % prop, m.relpath, node.name, 'decorator @' + dn,
                                      '%s is memoised on its arguments, but its result also depends on state it reads (current '
                                      'instruction set, ITSTATE, APSR.C, architecture version): a word decoded once keeps that '
                                      'decoding when the state has changed' % node.name)
    run.instance('%s-A4' % prop, 'decode-layer statelessness', obligations=2, ok=(npur == 0),
                 sample={'rule': 'no run-time write to module/class-level state in decoders, encodings, bits_ops, shift; '
                                 'emulate_cycle executes from_bitarray(decode(fetch()))'})
    run_controls(run, repo_path, prop, roots)
    if tier == 'thorough':
        from . import decode_mutants
        decode_mutants.selftest(run, repo_path, prop, roots)
    run.exhaustive = True
    run.extra['programs'] = programs
    run.extra['disagreements_checked'] = cmps + 3 * programs
    run.extra['bdd_nodes'] = B.size()
    run.undecided = ['numeric results of ARMExpandImm_C / ThumbExpandImm_C / Shift_C (kept as uninterpreted '
                     'symbols; only their argument wiring is compared)']
    run.assumptions = ['the reference tables /verif/spec/enc_*.json are an audited transcription of the ARM ARM '
                       'encoding diagrams (generated once from the tree, read against the manual, deviations repaired '
                       'or corrected by hand)',
                       'fetch_instruction supplies 32-bit Thumb words only for first halfwords 11101/11110/11111 (rule C04-I)']
    return run.finish(
        'Translation validation of the %s decode layer: every path of the decoder functions is enumerated with a '
        'ROBDD over the instruction bits (exact partition of all words), every from_bitarray is interpreted in a '
        'bit-vector table domain, and regions / operand wiring / UNDEFINED-UNPREDICTABLE sets are compared with the '
        'reference tables by BDD identity (semantic, not textual). Exhaustive over all instruction words and all '
        'values of the state atoms the decode reads (IT bits, APSR.C, ARCH 4..7).' % '/'.join(roots),
        './check %s --tier %s' % (prop, tier))
