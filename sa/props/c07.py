from .decode_check import main_for


def main(repo_path, tier, seed, replay=None):
    return main_for('C07', ['T16', 'T32'], repo_path, tier, seed)
