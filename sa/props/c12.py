"""C12 - system instructions.

  C12-M   CPSRWriteByInstr / SPSRWriteByInstr: final CPSR / SPSR as a function of (value,
          bytemask, is_excp_return, current state) equals the reference model for all inputs;
          derived implications checked explicitly (A/I/F/M change only when privileged; J, T,
          IT change only on exception return; an illegal mode number is never installed).
  C12-B   BadMode(): 32-row table.
  C12-R   exception-return template: every return instruction reads its new PC before calling
          cpsr_write_by_instr(<SPSR or loaded word>, 0b1111, True) and ends with
          branch_write_pc(new_pc); privilege/Hyp tests dominate all effects.
  C12-S   MSR / CPS / SETEND / MRS shapes (right writer, is_excp_return False, CPS only under a
          privilege test and only A/I/F/M bits, SETEND writes only E, MRS masks).
  C12-H   hint instructions: effect frame within {event register, wait flags, hyp trap, hooks}.
  C12-C   coprocessor gating: no coprocessor hook is reachable unless dominated by a true
          coproc_accepted(cp, instr); CoprocAccepted decision table for cp not in {14, 15}.
"""
import ast

from .. import refmodel, reftables
from ..binding import Binding
from ..bitdom import Int, V, Value
from ..effects import Effects
from ..flow import Walker, guard_has, fmt, term_has, subterms
from ..machine import Machine, compare_final, describe_witness
from ..refmodel import MODES, P
from ..report import Run, AnalysisError
from ..srcmodel import Repo, norm_stmt
from .. import spec as specmod
from .c05 import effect_events

MODE_BANK = {'fiq': 0b10001, 'irq': 0b10010, 'svc': 0b10011, 'mon': 0b10110, 'abt': 0b10111, 'hyp': 0b11010,
             'und': 0b11011}


def ref_cpsr_write(rm, value, mask, excret):
    m = rm
    cp = m.cpsr()
    B = m.B
    priv = m.NOT(m.mode_is(cp, 'usr'))
    nmfi = m.vbit('sctlr', 27)
    sec = m.is_secure(cp)
    scr = m.view('scr')
    virt = m.cfg('have_virt_ext')
    out = cp
    m3, m2, m1, m0 = mask.bits[3], mask.bits[2], mask.bits[1], mask.bits[0]

    def cp_field(out, hi, lo, cond):
        return m.ite(cond, m.setf(out, hi, lo, m.fld(value, hi, lo)), out)
    out = cp_field(out, 31, 27, m3)
    out = cp_field(out, 26, 24, m.AND(m3, excret))
    out = cp_field(out, 19, 16, m2)
    out = cp_field(out, 15, 10, m.AND(m1, excret))
    out = cp_field(out, 9, 9, m1)
    out = cp_field(out, 8, 8, m.AND(m1, priv, m.OR(sec, scr.bits[5], virt)))
    out = cp_field(out, 7, 7, m.AND(m0, priv))
    out = cp_field(out, 6, 6, m.AND(m0, priv, m.OR(m.NOT(nmfi), m.NOT(value.bits[6])), m.OR(sec, scr.bits[4], virt)))
    out = cp_field(out, 5, 5, m.AND(m0, excret))
    vm = m.fld(value, 4, 0)
    nsacr = m.view('nsacr')
    is_hyp = m.mode_is(cp, 'hyp')
    unpred = m.OR(m.bad_mode(vm),
                  m.AND(m.NOT(sec), m.eq(vm, MODES['mon'])),
                  m.AND(m.NOT(sec), m.eq(vm, MODES['fiq']), nsacr.bits[19]),
                  m.AND(m.NOT(scr.bits[0]), m.eq(vm, MODES['hyp'])),
                  m.AND(m.NOT(sec), m.NOT(is_hyp), m.eq(vm, MODES['hyp'])),
                  m.AND(is_hyp, m.NOT(m.eq(vm, MODES['hyp'])), m.NOT(excret)))
    out = cp_field(out, 4, 0, m.AND(m0, priv, m.NOT(unpred)))
    return out, priv, unpred


def check_cpsr_write_as(run, repo, rule):
    """Re-evaluation of the CPSRWriteByInstr equality under another property's rule id."""
    tmp = Run('tmp')
    check_cpsr_write(tmp, repo)
    for f in tmp.findings:
        run.violation(rule, f.file, f.func, f.construct, f.message, f.detail)
    run.instance(rule, 'cpsr_write_by_instr (IT restore only on exception return)', obligations=8, ok=not tmp.findings,
                 sample={'function': 'Registers.cpsr_write_by_instr'})


def check_cpsr_write(run, repo):
    m = Machine(repo)
    rm = refmodel.M(m)
    B = m.B
    value = m.sym('ARG.value', 32)
    mask = m.sym('ARG.bytemask', 4)
    exc = m.sym('ARG.excret', 1)
    res, fi = m.run('Registers', 'cpsr_write_by_instr', [value, mask, exc])
    ref, priv, unpred = ref_cpsr_write(rm, value, mask, exc.bits[0])
    dom = B.AND(rm.valid_state(), B.var('ARCH[2]'))
    key = P + 'cpsr.value'
    ok, nob, keys = compare_final(run, 'C12-M', fi, m, res, {key: ref}, {key: rm.cpsr()}, dom,
                                  label='CPSRWriteByInstr', words=('ARG.value', 'ARG.bytemask', 'ARG.excret'))
    # explicit implications on the tree's own result (independent of the reference model's details)
    tv = res.heap.get(key)
    final = m.it.as_int(tv, dom, 'final cpsr') if tv is not None else rm.cpsr()
    fb = m.it.ext(final, 32)
    ib = m.it.ext(rm.cpsr(), 32)
    impl = [('A/I/F/M bits change only in a privileged mode', [8, 7, 6, 4, 3, 2, 1, 0], priv),
            ('J, T and IT bits change only on exception return', [24, 5, 26, 25, 15, 14, 13, 12, 11, 10], exc.bits[0]),
            ('bits of a byte change only when its mask bit is set', [31, 30, 29, 28, 27, 26, 25, 24], mask.bits[3]),
            ('bits of a byte change only when its mask bit is set', [19, 18, 17, 16], mask.bits[2]),
            ('bits of a byte change only when its mask bit is set', [15, 14, 13, 12, 11, 10, 9, 8], mask.bits[1]),
            ('bits of a byte change only when its mask bit is set', [7, 6, 5, 4, 3, 2, 1, 0], mask.bits[0]),
            ('reserved bits 23:20 never change', [23, 22, 21, 20], 0)]
    for text, bits, allowed in impl:
        for k in bits:
            bad = B.AND(dom, B.AND(B.XOR(fb[k], ib[k]), B.NOT(allowed)))
            if bad != 0:
                ok = False
                w = describe_witness(B, B.pick(bad), ('ARG.value', 'ARG.bytemask', 'ARG.excret'))
                run.violation('C12-M', fi.relpath, fi.qualname, 'CPSR bit %d guard' % k,
                              'CPSRWriteByInstr violates "%s": bit %d can change, e.g. %s' % (text, k, w), {'witness': w})
                break
    # an illegal mode is never installed
    fm = Int(fb[0:5])
    bad = B.AND(dom, B.AND(rm.bad_mode(fm), B.NOT(rm.bad_mode(Int(ib[0:5])))))
    if bad != 0:
        ok = False
        run.violation('C12-M', fi.relpath, fi.qualname, 'illegal mode', 'CPSRWriteByInstr can install a reserved or '
                      'unimplemented mode number, e.g. %s' % describe_witness(B, B.pick(bad), ('ARG.value',)))
    run.instance('C12-M', 'cpsr_write_by_instr', obligations=nob + 32 + 1, ok=ok,
                 sample={'function': fi.qualname, 'inputs': 'value[31:0] x bytemask[3:0] x is_excp_return x CPSR x SCR x '
                         'SCTLR.NMFI x NSACR.RFR x extensions', 'bdd_nodes': B.size()})


def check_spsr_write(run, repo):
    m = Machine(repo)
    rm = refmodel.M(m)
    B = m.B
    value = m.sym('ARG.value', 32)
    mask = m.sym('ARG.bytemask', 4)
    res, fi = m.run('Registers', 'spsr_write_by_instr', [value, mask])
    cp = rm.cpsr()
    dom = B.AND(B.AND(rm.valid_state(), B.var('ARCH[2]')),
                B.NOT(B.OR(rm.mode_is(cp, 'usr'), rm.mode_is(cp, 'sys'))))
    fin, ini = {}, {}
    for bank, mode in MODE_BANK.items():
        old = rm.reg('spsr_' + bank)
        new = old
        new = rm.ite(mask.bits[3], rm.setf(new, 31, 24, rm.fld(value, 31, 24)), new)
        new = rm.ite(mask.bits[2], rm.setf(new, 19, 16, rm.fld(value, 19, 16)), new)
        new = rm.ite(mask.bits[1], rm.setf(new, 15, 8, rm.fld(value, 15, 8)), new)
        new = rm.ite(mask.bits[0], rm.setf(new, 7, 5, rm.fld(value, 7, 5)), new)
        new = rm.ite(B.AND(mask.bits[0], B.NOT(rm.bad_mode(rm.fld(value, 4, 0)))),
                     rm.setf(new, 4, 0, rm.fld(value, 4, 0)), new)
        k = P + 'spsr_' + bank
        fin[k] = rm.ite(rm.eq(rm.fld(cp, 4, 0), mode), new, old)
        ini[k] = old
    ok, nob, keys = compare_final(run, 'C12-M', fi, m, res, fin, ini, dom, label='SPSRWriteByInstr',
                                  words=('ARG.value', 'ARG.bytemask'))
    run.instance('C12-M', 'spsr_write_by_instr', obligations=nob, ok=ok,
                 sample={'function': fi.qualname, 'banks': sorted(MODE_BANK)})


def check_bad_mode(run, repo):
    m = Machine(repo)
    rm = refmodel.M(m)
    B = m.B
    mode = m.sym('ARG.mode', 5)
    res, fi = m.run('Registers', 'bad_mode', [mode])
    got = m.it.truth(res.value, B.var('ARCH[2]'))
    want = rm.bad_mode(mode)
    d = B.AND(B.var('ARCH[2]'), B.XOR(got, want))
    run.instance('C12-B', 'bad_mode', obligations=32, ok=(d == 0), sample={'function': fi.qualname, 'rows': 32})
    if d != 0:
        w = describe_witness(B, B.pick(d), ('ARG.mode',))
        run.violation('C12-B', fi.relpath, fi.qualname, 'bad mode table',
                      'BadMode() differs from the architecture, e.g. %s' % w, {'witness': w})


# ---------------------------------------------------------------------------
# structural rules on the opcodes (M3)
# ---------------------------------------------------------------------------
RETURN_ENCODINGS = ['SubsPcLrArmA1', 'SubsPcLrArmA2', 'SubsPcLrThumbT1', 'LdmExceptionReturnA1', 'RfeA1', 'RfeT1', 'RfeT2',
                    'EretA1', 'EretT1']
HINT_ENCODINGS = ['NopA1', 'NopT1', 'NopT2', 'YieldA1', 'YieldT1', 'YieldT2', 'WfeA1', 'WfeT1', 'WfeT2', 'WfiA1', 'WfiT1',
                  'WfiT2', 'SevA1', 'SevT1', 'SevT2']
COPROC_HOOK_PREFIX = 'coproc_'


def walk(repo, eff, ci):
    return Walker(repo, eff).walk(ci.methods['execute'], ci)


def is_priv_test(t, pol):
    """Guard establishing the instruction is not running in User (or User/System) mode."""
    if t[0] == 'rcall' and t[1] == 'current_mode_is_not_user':
        return pol is True
    if t[0] == 'rcall' and t[1] == 'current_mode_is_user_or_system':
        return pol is False
    return False


def guards_priv(guards):
    """True when the conjunction of the guards cannot hold in User mode: the guard formula is evaluated as a boolean
    function with the mode predicates fixed to their User-mode values and every other atom free (all assignments tried)."""
    atoms = []

    def ev(t, val):
        k = t[0]
        if k == 'not':
            return not ev(t[1], val)
        if k in ('and', 'or'):
            rs = [ev(x, val) for x in t[1]]
            return all(rs) if k == 'and' else any(rs)
        if k == 'const':
            return bool(t[1])
        if k == 'rcall' and t[1] == 'current_mode_is_not_user':
            return False
        if k == 'rcall' and t[1] == 'current_mode_is_user_or_system':
            return True
        if k == 'rcall' and t[1] == 'current_mode_is_hyp':
            return False
        if k == 'cmp' and t[1] in ('Eq', 'NotEq') and t[2] in (('flag', 'm'), ('sys', 'cpsr.m')) and t[3][0] == 'const':
            r = t[3][1] == 0b10000
            return r if t[1] == 'Eq' else not r
        key = repr(t)
        if key not in val:
            if key not in atoms:
                atoms.append(key)
            return False
        return val[key]
    formula = [(term, pol) for term, pol, _ in guards]

    def holds(val):
        return all(ev(term, val) == pol for term, pol in formula)
    for term, _ in formula:
        ev(term, {})          # collects the atoms (no short-circuit)
    names = list(atoms)
    if len(names) > 12:
        return _has_priv_syntactic(guards)
    for mask in range(1 << len(names)):
        val = {n: bool((mask >> i) & 1) for i, n in enumerate(names)}
        if holds(val):
            return False      # reachable in User mode
    return True


def _has_priv_syntactic(guards):
    for term, pol, _ in guards:
        if _has_priv(term, pol):
            return True
    return False


def _has_priv(term, pol):
    if is_priv_test(term, pol):
        return True
    if term[0] == 'not':
        return _has_priv(term[1], not pol)
    if term[0] == 'and' and pol:
        return any(_has_priv(t, True) for t in term[1])
    if term[0] == 'or' and not pol:
        return any(_has_priv(t, False) for t in term[1])
    return False


def check_returns(run, repo, eff, bind):
    classes = bind.abstract_classes_of(RETURN_ENCODINGS)
    if len(classes) < 5:
        raise AnalysisError('exception-return opcodes: only %d abstract classes bound' % len(classes))
    for name, ci in sorted(classes.items()):
        tr = walk(repo, eff, ci)
        fn = name + '.execute'
        ok = True
        writes = tr.of('CpsrWriteByInstr')
        branches = [e for e in tr.of('Branch') if e.d['kind'] == 'branch']
        good_w = [e for e in writes if e.d['mask'] == ('const', 0b1111) and e.d['excret'] == ('const', True)]
        if not good_w:
            ok = False
            run.violation('C12-R', ci.relpath, fn, 'cpsr restore',
                          '%s never calls cpsr_write_by_instr(<SPSR or loaded word>, 0b1111, True): the exception return '
                          'branches without restoring CPSR from the SPSR' % name)
        if not branches:
            ok = False
            run.violation('C12-R', ci.relpath, fn, 'return branch', '%s has no branch_write_pc(new_pc)' % name)
        for w in good_w:
            v = w.d['value']
            src_ok = (v == ('spsr',)) or term_has(v, lambda t: t[0] == 'mem')
            if not src_ok:
                ok = False
                run.violation('C12-R', ci.relpath, fn, 'cpsr source',
                              '%s restores CPSR from %s, expected the SPSR or the loaded word' % (name, fmt(v)))
            for b in branches:
                if b.idx < w.idx and not _exclusive(b, w):
                    ok = False
                    run.violation('C12-R', ci.relpath, fn, 'order',
                                  '%s branches before CPSR is restored' % name)
                # the branch target must have been read before the CPSR write: every register / memory read inside
                # the target term comes from a LocalAssign / MemRead event that precedes the write
                for ev in tr.events:
                    if ev.kind == 'MemRead' and ev.idx > w.idx and term_has(b.d['target'], lambda t, s=ev.d['seq']: t[0] == 'mem' and t[4] == s):
                        ok = False
                        run.violation('C12-R', ci.relpath, fn, 'new pc read late',
                                      '%s reads the return address from memory after CPSR (and the mode) was changed' % name)
            # every register write-back that uses the *current* mode's bank happens before the mode can change
            for ev in tr.of('RegWrite'):
                if ev.idx > w.idx and not _exclusive(ev, w):
                    ok = False
                    run.violation('C12-R', ci.relpath, fn, 'write-back after cpsr restore',
                                  '%s writes register %s after restoring CPSR: the write lands in the bank of the '
                                  'restored mode' % (name, fmt(ev.d['idx'])))
        # privilege / hyp checks dominate all effects
        for ev in effect_events(tr):
            if ev.kind == 'Raise':
                continue
            if not guards_priv(ev.guards):
                ok = False
                run.violation('C12-R', ci.relpath, fn, 'unprivileged path',
                              '%s: effect `%s` is reachable without the User/System-mode test (UNPREDICTABLE in User mode '
                              'must not change state)' % (name, ev.text()))
                break
        run.instance('C12-R', name, obligations=4, ok=ok,
                     sample={'class': name, 'cpsr_writes': len(writes), 'branches': len(branches)})


def _exclusive(a, b):
    from ..flow import exclusive
    return exclusive(a, b)


def check_shapes(run, repo, eff, bind):
    # MSR system forms: spsr writer under write_spsr, cpsr writer with excret False otherwise
    for enc in ('MsrRegisterSystemA1', 'MsrImmediateSystemA1', 'MsrRegisterSystemT1'):
        ci = bind.abstract_of_encoding(enc)
        if ci is None:
            raise AnalysisError('encoding %s not bound' % enc)
        tr = walk(repo, eff, ci)
        ok = True
        fn = ci.name + '.execute'
        for e in tr.of('CpsrWriteByInstr'):
            if e.d['excret'] != ('const', False):
                ok = False
                run.violation('C12-S', ci.relpath, fn, 'msr excret', 'MSR calls cpsr_write_by_instr with is_excp_return=%s '
                              '(must be False: execution-state bits change only on exception return)' % fmt(e.d['excret']))
            if e.d['mask'] != ('field', 'mask'):
                ok = False
                run.violation('C12-S', ci.relpath, fn, 'msr mask', 'MSR does not pass its decoded byte mask')
            if not guard_has(e.guards, lambda t: t == ('field', 'write_spsr'), False):
                ok = False
                run.violation('C12-S', ci.relpath, fn, 'msr target', 'CPSR written although write_spsr may be set')
        for e in tr.of('SpsrWriteByInstr'):
            if not guard_has(e.guards, lambda t: t == ('field', 'write_spsr'), True):
                ok = False
                run.violation('C12-S', ci.relpath, fn, 'msr target', 'SPSR written although write_spsr is not set')
        others = [e for e in effect_events(tr) if e.kind not in ('CpsrWriteByInstr', 'SpsrWriteByInstr')]
        if others:
            ok = False
            run.violation('C12-S', ci.relpath, fn, 'msr frame', 'MSR (system) has effects besides the PSR writers: %s' %
                          [e.kind for e in others])
        if not tr.of('CpsrWriteByInstr') or not tr.of('SpsrWriteByInstr'):
            ok = False
            run.violation('C12-S', ci.relpath, fn, 'msr writers', 'MSR (system) must reach both PSR writers')
        run.instance('C12-S', ci.name, obligations=4, ok=ok, sample={'class': ci.name})
    # application-level MSR: only N,Z,C,V,Q,GE flag writes
    for enc in ('MsrRegisterApplicationA1', 'MsrImmediateApplicationA1', 'MsrRegisterApplicationT1'):
        ci = bind.abstract_of_encoding(enc)
        tr = walk(repo, eff, ci)
        bad = [e for e in effect_events(tr) if not (e.kind == 'FlagWrite' and e.d['flag'] in ('n', 'z', 'c', 'v', 'q', 'ge'))]
        run.instance('C12-S', ci.name, ok=not bad, sample={'class': ci.name})
        if bad:
            run.violation('C12-S', ci.relpath, ci.name + '.execute', 'msr application frame',
                          'application-level MSR writes more than APSR.{N,Z,C,V,Q,GE}: %s `%s`' % (bad[0].kind, bad[0].text()))
    # CPS: everything under a privilege test; value built from CPSR by touching only bits 8,7,6 and 4:0
    for enc in ('CpsArmA1', 'CpsThumbT1', 'CpsThumbT2'):
        ci = bind.abstract_of_encoding(enc)
        tr = walk(repo, eff, ci)
        ok = True
        fn = ci.name + '.execute'
        for e in effect_events(tr):
            if not guards_priv(e.guards):
                ok = False
                run.violation('C12-S', ci.relpath, fn, 'cps privilege', 'CPS effect `%s` is not dominated by '
                              'current_mode_is_not_user()' % e.text())
        for e in tr.of('CpsrWriteByInstr'):
            if e.d['excret'] != ('const', False):
                ok = False
                run.violation('C12-S', ci.relpath, fn, 'cps excret', 'CPS passes is_excp_return=%s' % fmt(e.d['excret']))
            for s in subterms(e.d['value']):
                if s[0] == 'call' and s[1] == 'set_bit_at':
                    k = s[2][1]
                    if k not in (('const', 8), ('const', 7), ('const', 6)):
                        ok = False
                        run.violation('C12-S', ci.relpath, fn, 'cps bits', 'CPS changes CPSR bit %s (only A, I, F '
                                      'are architecturally affected)' % fmt(k))
                if s[0] == 'call' and s[1] == 'set_substring':
                    if (s[2][1], s[2][2]) != (('const', 4), ('const', 0)):
                        ok = False
                        run.violation('C12-S', ci.relpath, fn, 'cps bits', 'CPS changes CPSR bits %s:%s' % (
                            fmt(s[2][1]), fmt(s[2][2])))
        other = [e for e in effect_events(tr) if e.kind != 'CpsrWriteByInstr']
        if other:
            ok = False
            run.violation('C12-S', ci.relpath, fn, 'cps frame', 'CPS has effects besides cpsr_write_by_instr: %s' %
                          [e.kind for e in other])
        run.instance('C12-S', ci.name, obligations=3, ok=ok, sample={'class': ci.name})
    # SETEND writes only E
    ci = bind.abstract_of_encoding('SetendA1')
    tr = walk(repo, eff, ci)
    bad = [e for e in effect_events(tr) if not (e.kind == 'FlagWrite' and e.d['flag'] == 'e')]
    run.instance('C12-S', ci.name, ok=not bad, sample={'class': ci.name})
    if bad or not tr.of('FlagWrite'):
        run.violation('C12-S', ci.relpath, ci.name + '.execute', 'setend frame', 'SETEND must write exactly CPSR.E')
    # MRS: value read; system form masks
    ci = bind.abstract_of_encoding('MrsSystemA1')
    tr = walk(repo, eff, ci)
    ok = True
    consts = set()
    for e in tr.of('RegWrite'):
        for s in subterms(e.d['value']):
            if s[0] == 'op' and s[1] == 'BitAnd':
                for x in (s[2], s[3]):
                    if x[0] == 'const':
                        consts.add(x[1])
    if 0xF8FF03DF not in consts:
        ok = False
        run.violation('C12-S', ci.relpath, ci.name + '.execute', 'mrs mask',
                      'MRS (system) must expose CPSR AND 0xF8FF03DF (execution-state bits masked); masks found: %s' %
                      [hex(c) for c in sorted(consts)])
    bad = [e for e in effect_events(tr) if e.kind != 'RegWrite']
    if bad:
        ok = False
        run.violation('C12-S', ci.relpath, ci.name + '.execute', 'mrs frame', 'MRS has effects besides writing Rd')
    run.instance('C12-S', ci.name, obligations=2, ok=ok, sample={'class': ci.name})
    # MRS with R == 0 executed in a privileged mode must expose the mode/mask bits
    ci = bind.abstract_of_encoding('MrsApplicationA1')
    tr = walk(repo, eff, ci)
    ok = True
    vals = [e.d['value'] for e in tr.of('RegWrite')]
    full = any(term_has(v, lambda t: t == ('const', 0xF8FF03DF)) for v in vals)
    privtest = any(guards_priv(e.guards) or term_has(e.d['value'], lambda t: t[0] == 'rcall' and t[1] in (
        'current_mode_is_not_user',)) for e in tr.of('RegWrite'))
    if not (full and privtest):
        ok = False
        run.violation('C12-S', ci.relpath, ci.name + '.execute', 'mrs privileged view',
                      'MRS Rd, CPSR (R == 0) always returns the APSR view (CPSR AND 0xF80F0000): in a privileged mode the '
                      'architecture returns CPSR AND 0xF8FF03DF, so the mode and interrupt-mask bits read as 0')
    run.instance('C12-S', ci.name, obligations=1, ok=ok, sample={'class': ci.name})


def check_hints(run, repo, eff, bind):
    classes = bind.abstract_classes_of(HINT_ENCODINGS)
    allowed_writes = {'registers.event_register', 'is_wait_for_event', 'is_wait_for_interrupt'}
    for name, ci in sorted(classes.items()):
        tr = walk(repo, eff, ci)
        ok = True
        for e in effect_events(tr):
            if e.kind == 'TakeException' and e.d['which'] == 'take_hyp_trap_exception':
                continue
            if e.kind == 'ProcCall':
                s = e.d.get('summary')
                if e.d['method'] == 'write_hsr':
                    continue
                if s is not None and s.writes <= allowed_writes and not s.raises:
                    continue
                if s is not None and s.is_hook:
                    continue
            ok = False
            run.violation('C12-H', ci.relpath, name + '.execute', 'hint frame',
                          'hint instruction %s has an effect outside {event register, wait flags, hyp trap, hook}: %s `%s`'
                          % (name, e.kind, e.text()))
        run.instance('C12-H', name, ok=ok, sample={'class': name})
        if name in ('Wfe', 'Wfi'):
            check_wait_table(run, ci, tr, name)
    run.floor('hint opcodes', len(classes), 5)


def check_wait_table(run, ci, tr, name):
    """WFE: if EventRegistered() then ClearEventRegister() else (trap to Hyp under HCR.TWE | WaitForEvent());
    WFI: trap under HCR.TWI | WaitForInterrupt().  Decision table over the three outcomes, from guards and arm exclusivity."""
    from ..flow import exclusive
    ok = True
    fn = name + '.execute'

    def bad(construct, msg):
        nonlocal ok
        ok = False
        run.violation('C12-H', ci.relpath, fn, construct, msg)
    calls = {m: [e for e in tr.events if e.kind == 'ProcCall' and e.d['method'] == m] for m in
             ('clear_event_register', 'wait_for_event', 'wait_for_interrupt', 'write_hsr')}
    traps = [e for e in tr.events if e.kind == 'TakeException']
    is_ev = lambda t: t[0] == 'pcall' and t[1] == 'event_registered'
    trapbit = 'twe' if name == 'Wfe' else 'twi'
    wait = calls['wait_for_event' if name == 'Wfe' else 'wait_for_interrupt']
    other_wait = calls['wait_for_interrupt' if name == 'Wfe' else 'wait_for_event']
    if len(wait) != 1 or other_wait:
        bad('wait call', '%s must enter exactly its own wait state on the non-trapping path' % name.upper())
    if len(traps) != 1 or len(calls['write_hsr']) != 1:
        bad('hyp trap', '%s has exactly one Hyp-trap path (write_hsr + take_hyp_trap_exception)' % name.upper())
    else:
        a = calls['write_hsr'][0].d['args']
        if a != [('const', 1), ('const', 1 if name == 'Wfe' else 0)]:
            bad('hyp trap syndrome', 'HSR must be written with EC 0b000001 and ISS bit 0 = %d for %s' % (1 if name == 'Wfe' else 0, name.upper()))

        def is_trap_cond(t):
            if t[0] != 'and':
                return False
            parts = [repr(x) for x in t[1]]
            need = ["('call', 'have_virt_ext', ())", "('not', ('rcall', 'is_secure', ()))", "('not', ('rcall', 'current_mode_is_hyp', ()))"]
            return all(n in parts for n in need) and any('hcr' in p_ and trapbit in p_ for p_ in parts) and len(parts) == 4
        if not guard_has(traps[0].guards, is_trap_cond, True):
            bad('hyp trap condition', 'the trap is taken exactly under HaveVirtExt() && !IsSecure() && !CurrentModeIsHyp() && HCR.%s' % trapbit.upper())
        for w in wait:
            if not guard_has(w.guards, is_trap_cond, False):
                bad('wait vs trap', 'the wait state is entered only when the trap condition is false')
    if name == 'Wfe':
        clr = calls['clear_event_register']
        if len(clr) != 1 or not guard_has(clr[0].guards, is_ev, True):
            bad('event clear', 'WFE clears the event register exactly when an event is registered')
        for e in wait + traps + calls['write_hsr']:
            if not guard_has(e.guards, is_ev, False):
                bad('wait with a pending event', 'WFE waits / traps only when no event is registered')
            for c in clr:
                if not exclusive(e, c):
                    bad('clear and wait on one path', 'WFE with a pending event consumes it and must NOT also wait: the clear and the wait '
                        '(or trap) are alternatives, here both can happen in one execution')
    run.instance('C12-H', name + ' decision table', obligations=5, ok=ok, sample={'class': name})


def check_coproc(run, repo, eff):
    n = 0
    for ci in repo.abstract_opcode_classes():
        ex = ci.methods.get('execute')
        if ex is None:
            continue
        tr = Walker(repo, eff).walk(ex, ci)
        hooks = [e for e in tr.of('ProcCall') if e.d['method'].startswith(COPROC_HOOK_PREFIX)
                 and e.d['method'] != 'coproc_accepted']
        if not hooks:
            continue
        n += 1
        ok = True

        def accepted(t):
            return t[0] == 'pcall' and t[1] == 'coproc_accepted'
        for e in hooks:
            if not guard_has(e.guards, accepted, True):
                ok = False
                run.violation('C12-C', ci.relpath, ci.name + '.execute', 'ungated %s' % e.d['method'],
                              'coprocessor hook %s is reachable without a passed coproc_accepted() test' % e.d['method'])
        acc = [e for e in tr.of('ProcCall') if e.d['method'] == 'coproc_accepted']
        for e in acc:
            a = e.d['args']
            if len(a) != 2 or a[0] != ('field', 'cp') or not (a[1][0] == 'pcall' and a[1][1] == 'this_instr'):
                ok = False
                run.violation('C12-C', ci.relpath, ci.name + '.execute', 'coproc_accepted arguments',
                              'coproc_accepted must be asked about (self.cp, this_instr()); got (%s)' % ', '.join(
                                  fmt(x) for x in a))
        # the rejected arm raises the coprocessor exception (Undefined)
        gen = [e for e in tr.of('ProcCall') if e.d['method'] == 'generate_coprocessor_exception']
        if not gen or any(not guard_has(e.guards, accepted, False) for e in gen):
            ok = False
            run.violation('C12-C', ci.relpath, ci.name + '.execute', 'rejected arm',
                          'the rejected arm must call generate_coprocessor_exception()')
        run.instance('C12-C', ci.name, obligations=len(hooks) + 2, ok=ok, sample={'class': ci.name, 'hooks': len(hooks)})
    run.floor('coprocessor opcodes', n, 8)


def check_coproc_accepted_table(run, repo):
    """CoprocAccepted for cp not in {10,11,14,15}: NSACR / CPACR / HCPTR decision table."""
    hits = []

    def stub(it, args, st, node):
        return None
    m = Machine(repo, stubs={'cpx_instr_decode': 'event', 'write_hsr': 'event', 'take_hyp_trap_exception': 'event'})
    rm = refmodel.M(m)
    B = m.B
    cp = m.sym('ARG.cp', 4)
    instr = m.sym('ARG.instr', 32)
    it = m.it
    dom = B.all_and([B.var('ARCH[2]'), rm.valid_state(),
                     B.NOT(B.all_or(it.i_eq(cp, it.const(v)) for v in (10, 11, 14, 15)))])
    res, fi = m.run('ArmV6', 'coproc_accepted', [cp, instr], cond=dom)
    # outcome regions
    undef = 0
    for o in res.it.outcomes:
        if o.kind == 'raise' and o.payload == 'UndefinedInstructionException':
            undef = B.OR(undef, o.cond)
    decode_reached = 0
    trap = 0
    for name, cond, args, node, heap in m.pol.events:
        if name == 'cpx_instr_decode':
            decode_reached = B.OR(decode_reached, cond)
        if name == 'take_hyp_trap_exception':
            trap = B.OR(trap, cond)
    # reference
    cpsr = rm.cpsr()
    sec, virt = rm.cfg('have_security_ext'), rm.cfg('have_virt_ext')
    nsacr, cpacr, hcptr = rm.view('nsacr'), rm.view('cpacr'), rm.view('hcptr')

    def bit_n(reg, off=0, scale=1):
        r = 0
        for n in range(14):
            sel = it.i_eq(cp, it.const(n))
            r = B.OR(r, B.AND(sel, reg.bits[off + scale * n]))
        return r
    ns_ok = bit_n(nsacr)
    c_lo, c_hi = bit_n(cpacr, 0, 2), bit_n(cpacr, 1, 2)
    tcp = bit_n(hcptr)
    is_hyp = rm.mode_is(cpsr, 'hyp')
    priv = B.NOT(rm.mode_is(cpsr, 'usr'))
    secure = rm.is_secure(cpsr)
    u1 = B.all_and([sec, B.NOT(secure), B.NOT(ns_ok)])
    chk = B.OR(B.NOT(virt), B.NOT(is_hyp))
    u2 = B.AND(chk, B.AND(B.NOT(c_hi), B.NOT(c_lo)))
    u3 = B.AND(chk, B.all_and([B.NOT(c_hi), c_lo, B.NOT(priv)]))
    pre = B.NOT(B.all_or([u1, u2, u3]))
    trapc = B.all_and([pre, sec, virt, B.NOT(secure), tcp])
    u4 = B.AND(trapc, is_hyp)
    ref_undef = B.AND(dom, B.all_or([u1, u2, u3, u4]))
    ref_trap = B.AND(dom, B.AND(trapc, B.NOT(is_hyp)))
    ok = True
    for label, t, r in (('UNDEFINED (denied)', undef, ref_undef), ('Hyp trap', trap, ref_trap)):
        d = B.AND(dom, B.XOR(B.AND(t, dom), r))
        if d != 0:
            ok = False
            w = describe_witness(B, B.pick(d), ('ARG.cp',))
            run.violation('C12-C', fi.relpath, fi.qualname, 'coproc_accepted %s' % label,
                          'CoprocAccepted: the set of states with outcome "%s" differs from the architecture '
                          '(NSACR/CPACR/HCPTR rules), e.g. %s' % (label, w), {'witness': w})
    # the decode hook is only reached when not denied
    d = B.AND(decode_reached, ref_undef)
    if d != 0:
        ok = False
        run.violation('C12-C', fi.relpath, fi.qualname, 'coproc_accepted decode after denial',
                      'the coprocessor decode hook is reached in a state where access is denied')
    run.instance('C12-C', 'coproc_accepted table', obligations=3, ok=ok,
                 sample={'function': fi.qualname, 'atoms': 'cp x NSACR.cpN x CPACR.cpN x HCPTR.TCPn x mode x security x extensions'})


def main(repo_path, tier, seed, replay=None):
    run = Run('C12', tier, level='other', seed=seed)
    repo = Repo(repo_path)
    eff = Effects(repo)
    bind = Binding(repo)
    check_cpsr_write(run, repo)
    check_spsr_write(run, repo)
    check_bad_mode(run, repo)
    check_returns(run, repo, eff, bind)
    check_shapes(run, repo, eff, bind)
    check_hints(run, repo, eff, bind)
    check_coproc(run, repo, eff)
    check_coproc_accepted_table(run, repo)
    # positive control: drop `privileged and` from the I-bit guard (in memory)
    fi = repo.method('Registers', 'cpsr_write_by_instr')
    src = fi.module.source
    fired = False
    what = ''
    seg = ast.get_source_segment(src, fi.node)
    tree = ast.parse('class _X:\n    ' + seg)
    done = [False]

    class Tr(ast.NodeTransformer):
        def visit_If(self, node):
            self.generic_visit(node)
            if not done[0] and isinstance(node.test, ast.Name) and node.test.id == 'privileged':
                done[0] = True
                node.test = ast.Constant(True)
            return node
    Tr().visit(tree)
    if done[0]:
        new_seg = ast.unparse(tree.body[0].body[0])
        new_seg = '\n'.join(('    ' + l) if i else l for i, l in enumerate(new_seg.split('\n')))
        mrepo = Repo(repo_path, overrides={fi.module.relpath: src.replace(seg, new_seg, 1)})
        tmp = Run('C12')
        check_cpsr_write(tmp, mrepo)
        fired = bool(tmp.findings)
        what = 'cpsr_write_by_instr: first `if privileged:` made unconditional'
    run.control('C12-M privilege guard dropped', fired, what)
    run.exhaustive = True
    run.undecided = ['the entry-then-return round trip over histories (composition of C11-T with the return template)',
                     'timing / wake-up semantics of WFE and WFI']
    run.assumptions = ['sa/refmodel.py + the tables in this module transcribe CPSRWriteByInstr, SPSRWriteByInstr, BadMode, '
                       'CoprocAccepted (ARM ARM B1.3.3, B1.11)']
    return run.finish(
        'C12: (M) the PSR writers are interpreted in the bit-vector table domain and proved equal to the reference model '
        'for every value x byte mask x exception-return flag x state (BDD equality), with the privilege / execution-state '
        'implications checked separately; (R,S,H,C) structural rules over the execute() bodies of the return, MSR/CPS/'
        'SETEND/MRS, hint and coprocessor opcodes (ordering, dominance, frames, constant arguments); CoprocAccepted as a '
        'decision table. Not decided: the entry/return round trip as a history property.',
        './check C12 --tier %s' % tier)
