"""C11 - exception entry.

  C11-T  entry tables: for each take_*_exception (and the routes through enter_hyp_mode /
         enter_monitor_mode) the final value of every written location (CPSR bits, the
         target mode's SPSR and LR / ELR_hyp, SCR.NS, PC) as a function of the initial state
         equals the reference model of the architecture pseudocode, for every PC, CPSR,
         SCR/HCR/SCTLR/HSCTLR/VBAR/MVBAR/HVBAR value and extension configuration.  Routing
         predicates, save-before-overwrite ordering, masks, IT/J/T/E and vector selection are
         all part of this equality.
  C11-V  ExcVectorBase decision table.
  C11-X  TakeReset final state.
  C11-D  dispatch: the except-clauses of emulate_cycle map each architectural exception class
         to its entry function, and every armulator exception class raised anywhere is caught.
"""
import ast

from .. import refmodel
from ..bitdom import Int, V, Value
from ..effects import Effects
from ..machine import Machine
from ..report import Run, AnalysisError
from ..srcmodel import Repo, norm_stmt
from .. import spec as specmod
from .decode_check import mutate_source

P = refmodel.P

DISPATCH = {
    'SVCException': 'take_svc_exception',
    'SMCException': 'take_smc_exception',
    'DataAbortException': 'take_data_abort_exception',
    'HypTrapException': 'take_hyp_trap_exception',
    'UndefinedInstructionException': 'take_undef_instr_exception',
    'EndOfInstruction': None,
}


def describe(B, a):
    """Readable rendering of a witness assignment (only a few interesting atoms)."""
    out = {}
    cp = 0
    for v, b in a.items():
        n = B.names[v]
        if n.startswith(P + 'cpsr.value['):
            cp |= b << int(n[len(P + 'cpsr.value['):-1])
        elif n.startswith('CFG.') or n.startswith('MOCK.') or n.startswith('DABT.'):
            out[n] = b
    out['CPSR'] = hex(cp)
    return out


def compare_entry(run, repo, method, rule='C11-T', extra_domain=None):
    m = Machine(repo)
    rm = refmodel.M(m)
    args = []
    if method == 'take_data_abort_exception':
        args = [('obj', 'dabort', 'DataAbortException')]
    res, fi = m.run('Registers', method, args)
    e = refmodel.ENTRY_MODELS[method](rm)
    B = m.B
    dom = B.AND(rm.valid_state(), B.var('ARCH[2]'))
    if method == 'take_smc_exception':
        dom = B.AND(dom, rm.cfg('have_security_ext'))
    if method == 'take_hyp_trap_exception':
        dom = B.AND(dom, B.AND(rm.cfg('have_virt_ext'), rm.cfg('have_security_ext')))
    if extra_domain is not None:
        dom = B.AND(dom, extra_domain(rm))
    if B.AND(dom, B.NOT(res.returned)) != 0:
        run.violation(rule, fi.relpath, fi.qualname, 'termination',
                      'exception entry does not complete for some valid state (raises or falls into a host error)')
    from .. import bookkeeping
    IGNORE_PREFIX = bookkeeping.ignore_prefixes(repo, P)      # per-instruction flags of the cycle driver
    keys = sorted(set(res.heap) | set(e.final))
    nob = 0
    ok_all = True
    for key in keys:
        if key.startswith(IGNORE_PREFIX):
            continue
        nob += 1
        tv = res.heap.get(key)
        if key in e.final:
            rv = V(e.final[key])
            init = V(e.init[key])
        else:
            init = res.initial(key)
            rv = init
        if tv is None:
            tv = init
        d = dom
        for k, c in e.unknown:
            if k == key:
                d = B.AND(d, B.NOT(c))
        r = specmod.diff_values(m.it, d, tv, rv, key.replace(P, ''))
        if r is not None:
            ok_all = False
            a = B.pick(r[1])
            run.violation(rule, fi.relpath, fi.qualname, 'final ' + key.replace(P, ''),
                          '%s leaves %s different from the architecture: %s; e.g. in state %s' % (
                              method, key.replace(P, ''), r[0], describe(B, a)), {'witness': describe(B, a)})
    for o in res.it.outcomes:
        if o.kind in ('hosterror', 'unbound', 'assert_fail') and B.AND(o.cond, dom) != 0:
            ok_all = False
            run.violation(rule, o.func.relpath, o.func.qualname, norm_stmt(o.node, 100),
                          'host error reachable during exception entry: %s %s' % (o.kind, o.payload))
    run.instance(rule, method, obligations=nob, ok=ok_all,
                 sample={'function': fi.qualname, 'locations_compared': [k.replace(P, '') for k in keys
                                                                           if not k.startswith(IGNORE_PREFIX)],
                         'bdd_nodes': B.size()})
    return ok_all


def check_vector_base(run, repo):
    m = Machine(repo)
    rm = refmodel.M(m)
    res, fi = m.run('Registers', 'exc_vector_base')
    r = specmod.diff_values(m.it, m.B.var('ARCH[2]'), res.value, V(rm.exc_vector_base()), 'vector base')
    run.instance('C11-V', 'exc_vector_base', obligations=3, ok=r is None,
                 sample={'function': fi.qualname, 'table': ['SCTLR.V -> 0xFFFF0000', 'security ext -> VBAR', 'else 0']})
    if r is not None:
        run.violation('C11-V', fi.relpath, fi.qualname, 'vector base table',
                      'ExcVectorBase() differs from the architecture: %s' % r[0])
    if res.heap:
        run.violation('C11-V', fi.relpath, fi.qualname, 'vector base purity', 'ExcVectorBase() writes state')


def check_reset(run, repo):
    m = Machine(repo)
    rm = refmodel.M(m)
    B = m.B
    res, fi = m.run('ArmV6', 'take_reset')
    # reference: mode svc, SCR.NS:=0 if security ext, control registers reset (VBAR), A/I/F set, IT/J cleared,
    # T/E from SCTLR, PC := reset vector with bit 0 cleared
    cp = rm.cpsr()
    cp = rm.setf(cp, 4, 0, rm.c(0b10011, 5))
    cp = rm.setb(cp, 7, 1)
    cp = rm.setb(cp, 6, 1)
    cp = rm.setb(cp, 8, 1)
    cp = rm.setf(cp, 26, 25, rm.c(0, 2))
    cp = rm.setf(cp, 15, 10, rm.c(0, 6))
    cp = rm.setb(cp, 24, 0)
    cp = rm.setb(cp, 5, rm.vbit('sctlr', 30))
    cp = rm.setb(cp, 9, rm.vbit('sctlr', 25))
    ok = True
    tv = res.heap.get(P + 'cpsr.value')
    r = specmod.diff_values(m.it, B.var('ARCH[2]'), tv if tv is not None else V(rm.cpsr()), V(cp), 'cpsr')
    if r is not None:
        ok = False
        run.violation('C11-X', fi.relpath, fi.qualname, 'final cpsr.value', 'TakeReset leaves CPSR different from the '
                      'architecture: %s' % r[0])
    # PC := (IMPLEMENTATION DEFINED reset vector | ExcVectorBase() evaluated after the control registers were
    # reset) with bit 0 cleared
    vbar_reset = m.sym('RESET.VBAR', 32)
    base = rm.ite(rm.vbit('sctlr', 13), rm.c(0xFFFF0000, 32),
                  rm.ite(rm.cfg('have_security_ext'), vbar_reset, rm.c(0, 32)))
    vec = rm.ite(rm.cfg('has_imp_def_reset_vector'), m.sym('CFG.impdef_reset_vector', 32), base)
    vec = rm.setb(vec, 0, 0)
    pcv = res.heap.get(P + '_R[RName.PC]')
    if pcv is None:
        ok = False
        run.violation('C11-X', fi.relpath, fi.qualname, 'final PC', 'TakeReset does not branch')
    else:
        r = specmod.diff_values(m.it, B.var('ARCH[2]'), pcv, V(vec), 'PC')
        if r is not None:
            ok = False
            run.violation('C11-X', fi.relpath, fi.qualname, 'final PC',
                          'TakeReset branches to a different address than the architecture (reset vector computed '
                          'from the control registers *after* their reset, bit 0 cleared): %s' % r[0])
    scr = res.heap.get(P + 'scr.value')
    want = rm.ite(rm.cfg('have_security_ext'), rm.setb(rm.view('scr'), 0, 0), rm.view('scr'))
    r = specmod.diff_values(m.it, B.var('ARCH[2]'), scr if scr is not None else V(rm.view('scr')), V(want), 'scr')
    if r is not None:
        ok = False
        run.violation('C11-X', fi.relpath, fi.qualname, 'final scr.value', 'TakeReset: SCR.NS handling differs: %s' % r[0])
    run.instance('C11-X', 'take_reset', obligations=3, ok=ok, sample={'function': fi.qualname})


def check_dispatch(run, repo):
    fi = repo.method('ArmV6', 'emulate_cycle')
    tries = [n for n in ast.walk(fi.node) if isinstance(n, ast.Try)]
    if len(tries) != 1:
        raise AnalysisError('emulate_cycle: expected exactly one try statement, found %d' % len(tries))
    t = tries[0]
    seen = {}
    ok = True
    for h in t.handlers:
        names = []
        if h.type is None:
            names = ['BaseException']
        elif isinstance(h.type, ast.Tuple):
            names = [ast.unparse(x) for x in h.type.elts]
        else:
            names = [ast.unparse(h.type)]
        calls = [ast.unparse(c.func) for c in ast.walk(ast.Module(body=h.body, type_ignores=[])) if isinstance(c, ast.Call)]
        for n in names:
            seen[n] = calls
    for exc, entry in DISPATCH.items():
        calls = seen.get(exc)
        good = calls is not None and ((entry is None and not calls) or
                                      (entry is not None and calls == ['self.registers.' + entry]))
        run.instance('C11-D', exc, ok=good, sample={'exception': exc, 'handler': entry or 'pass'})
        if not good:
            ok = False
            run.violation('C11-D', fi.relpath, fi.qualname, 'except %s' % exc,
                          'emulate_cycle must handle %s by %s; found %s' % (
                              exc, ('self.registers.%s(...)' % entry) if entry else 'doing nothing', calls))
    for n in seen:
        if n not in DISPATCH:
            ok = False
            run.violation('C11-D', fi.relpath, fi.qualname, 'except %s' % n,
                          'emulate_cycle catches %s, which is not an architectural exception class (a host error '
                          'would be swallowed or mis-routed)' % n)
    # every armulator exception class raised anywhere in the package is in the map
    exc_mod = repo.module('armulator.armv6.arm_exceptions')
    known = set(exc_mod.classes)
    raised = set()
    for mod in repo.modules.values():
        for node in ast.walk(mod.tree):
            if isinstance(node, ast.Raise) and node.exc is not None:
                nm = ast.unparse(node.exc.func) if isinstance(node.exc, ast.Call) else ast.unparse(node.exc)
                if nm in known:
                    raised.add(nm)
    for nm in sorted(raised):
        if nm not in DISPATCH:
            ok = False
            run.violation('C11-D', fi.relpath, fi.qualname, 'raise %s' % nm,
                          'exception class %s is raised in the package but emulate_cycle has no handler for it' % nm)
    return ok


def main(repo_path, tier, seed, replay=None):
    run = Run('C11', tier, level='other', seed=seed)
    repo = Repo(repo_path)
    n = 0
    for method in sorted(refmodel.ENTRY_MODELS):
        compare_entry(run, repo, method)
        n += 1
    run.floor('exception entry functions', n, 7)
    check_vector_base(run, repo)
    check_reset(run, repo)
    check_dispatch(run, repo)
    # positive control: swap two statements / change a constant in take_svc_exception (in memory)
    fi = repo.method('Registers', 'take_svc_exception')
    fired = False
    what = ''
    src = fi.module.source
    for old, new in (('vect_offset = 8\n        take_to_hyp', 'vect_offset = 12\n        take_to_hyp'),):
        if old in src:
            mrepo = Repo(repo_path, overrides={fi.module.relpath: src.replace(old, new, 1)})
            tmp = Run('C11')
            compare_entry(tmp, mrepo, 'take_svc_exception')
            fired = bool(tmp.findings)
            what = 'take_svc_exception: vector offset 8 -> 12'
    if not what:
        # generic fallback: flip the first integer constant assigned in the function
        seg = ast.get_source_segment(src, fi.node)
        tree = ast.parse('class _X:\n    ' + seg.replace('\n', '\n'))
        consts = [n_ for n_ in ast.walk(tree) if isinstance(n_, ast.Constant) and isinstance(n_.value, int)
                  and not isinstance(n_.value, bool) and n_.value > 1]
        if consts:
            consts[0].value ^= 4
            new_seg = ast.unparse(tree.body[0].body[0])
            new_seg = '\n'.join(('    ' + l) if i else l for i, l in enumerate(new_seg.split('\n')))
            mrepo = Repo(repo_path, overrides={fi.module.relpath: src.replace(seg, new_seg, 1)})
            tmp = Run('C11')
            try:
                compare_entry(tmp, mrepo, 'take_svc_exception')
                fired = bool(tmp.findings)
            except AnalysisError:
                fired = True
            what = 'take_svc_exception: first constant changed'
    run.control('C11-T entry constant changed', fired, what)
    run.exhaustive = True
    run.undecided = ['asynchronous delivery of IRQ/FIQ (no caller in the tree)',
                     'that the mock predicates is_external_abort / is_async_abort / debug_exception model hardware '
                     '(they are free atoms here)',
                     'HSR syndrome contents (write_hsr) beyond the exception class routing']
    run.assumptions = ['reference model sa/refmodel.py transcribes ARM ARM B1.9 exception entry pseudocode',
                       'register field positions used by the reference model are those of the architecture (cross-checked by C17-V)',
                       'the current mode is a legal mode for the configured extensions (else the architecture is UNPREDICTABLE)']
    return run.finish(
        'Each exception-entry function is interpreted once in the bit-vector table domain with all machine state '
        'symbolic; the final CPSR, SPSR/LR (ELR_hyp) of the target mode, SCR.NS and PC are compared bit for bit with a '
        'reference model of the architecture pseudocode for all states at once (BDD equality). This decides mode, '
        'saved state, return address, masks, IT/J/T/E, vector and routing for every source mode, PC, CPSR and '
        'configuration; it does not decide asynchronous delivery or HSR contents.',
        './check C11 --tier %s' % tier)
