"""C20 - determinism and isolation.

  C20-G  shared mutable state: inventory of module-level and class-level mutable objects;
         every write to one (attribute / item store, mutating method call, `global`
         assignment) must happen at import time only.  A write reachable from a constructor or
         from any function is a cross-instance channel and is reported with its readers.
  C20-N  nondeterminism sources: no random / time / datetime / uuid / secrets / os.environ /
         id() / hash() / set iteration in the package.
  C20-S  per-step scratch: every ArmV6 attribute other than the architectural state
         (registers, mem) that is read inside a step is written earlier in the same step on
         all paths (def-before-use over the stage sequence of emulate_cycle); no
         non-architectural instance state may carry information from one step to the next.
  C20-P  pipeline: the object executed in a cycle is from_bitarray(instr, self) of the class
         returned by decode_instruction(instr) for the word fetched in this cycle (no memo).
  C20-A  fresh, copyable instances: constructor-created state is built from constructor calls
         and literals (no module-level instance handed out); no instance attribute holds a
         closure / lambda / bound method (deepcopy would share it between snapshot and original).
"""
import ast

from ..effects import Effects, _SelfWalker
from ..flow import subterms
from ..report import Run, AnalysisError
from ..srcmodel import Repo, norm_stmt

MUTATORS = {'append', 'extend', 'insert', 'pop', 'remove', 'clear', 'update', 'setdefault', 'add', 'discard', 'load', 'sort',
            'reverse', 'popitem', '__setitem__', '__delitem__'}
NONDET_MODULES = {'random', 'time', 'datetime', 'uuid', 'secrets', 'threading', 'multiprocessing', 'socket'}
ARCH_STATE = {'registers', 'mem'}


def is_mutable_expr(repo, mod, v):
    if isinstance(v, (ast.Dict, ast.List, ast.Set, ast.ListComp, ast.DictComp, ast.SetComp)):
        return True
    if isinstance(v, ast.Call):
        f = v.func
        name = f.id if isinstance(f, ast.Name) else None
        if name in ('dict', 'list', 'set', 'bytearray', 'defaultdict', 'OrderedDict', 'deque'):
            return True
        # constructor classmethods of the mutable builtins: dict.fromkeys(...), bytearray.fromhex(...), list.copy ...
        if isinstance(f, ast.Attribute) and isinstance(f.value, ast.Name) and f.value.id in (
                'dict', 'list', 'set', 'bytearray', 'defaultdict', 'OrderedDict', 'deque', 'collections'):
            return True
        r = repo.resolve_expr(mod, f) if isinstance(f, (ast.Name, ast.Attribute)) else None
        if r and r[0] == 'class' and not r[1].is_enum():
            return True
    return False


def shared_objects(repo):
    """{(module name, object name)} module-level mutable objects; {(class, attr)} class-level mutable attributes."""
    globs, clsattrs = {}, {}
    for m in repo.modules.values():
        for name, v in m.assigns.items():
            if name == '__all__':
                continue
            if is_mutable_expr(repo, m, v):
                globs[(m.name, name)] = v
        for ci in m.classes.values():
            if ci.is_enum():
                continue
            for name, v in ci.class_assigns.items():
                if is_mutable_expr(repo, m, v):
                    clsattrs[(ci.name, name)] = v
    return globs, clsattrs


def resolve_global(repo, mod, name):
    r = repo.resolve_name(mod, name)
    if r and r[0] == 'const':
        return (r[1].name, name) if name in r[1].assigns else None
    return None


def root_name(e):
    while isinstance(e, (ast.Attribute, ast.Subscript)):
        e = e.value
    return e.id if isinstance(e, ast.Name) else None


def check_shared_state(run, repo):
    globs, clsattrs = shared_objects(repo)
    n = 0
    for m in repo.modules.values():
        for fn in [x for x in ast.walk(m.tree) if isinstance(x, (ast.FunctionDef, ast.AsyncFunctionDef, ast.Lambda))]:
            fname = getattr(fn, 'name', '<lambda>')
            owner = None
            for ci in m.classes.values():
                if any(x is fn for x in ast.walk(ci.node)):
                    owner = ci
            qual = (owner.name + '.' if owner else '') + fname
            local = {a.arg for a in fn.args.args} if hasattr(fn, 'args') else set()
            for node in ast.walk(fn):
                target_objs = []
                what = None
                if isinstance(node, ast.Global):
                    for g in node.names:
                        run.violation('C20-G', m.relpath, qual, 'global %s' % g, 'function rebinds the module-level name %s' % g)
                if isinstance(node, (ast.Assign, ast.AugAssign)):
                    tgts = node.targets if isinstance(node, ast.Assign) else [node.target]
                    for t in tgts:
                        if isinstance(t, (ast.Attribute, ast.Subscript)):
                            target_objs.append((t, 'store'))
                if isinstance(node, ast.Call) and isinstance(node.func, ast.Attribute) and node.func.attr in MUTATORS:
                    target_objs.append((node.func.value, 'call ' + node.func.attr))
                for t, how in target_objs:
                    rn = root_name(t)
                    if rn is None:
                        continue
                    # (1) module-level object reached through a global name
                    if rn not in local and rn not in ('self', 'cls'):
                        g = resolve_global(repo, m, rn)
                        if g in globs:
                            n += 1
                            run.violation('C20-G', m.relpath, qual, norm_stmt(node, 100),
                                          'mutates the module-level object %s.%s (%s): state shared by every processor instance in '
                                          'the process is changed at run time; readers: %s' % (
                                              g[0].split('.')[-1], g[1], how, ', '.join(readers_of(repo, g)[:8]) or '-'))
                        # class attribute store through the class name
                        r = repo.resolve_name(m, rn)
                        if r and r[0] == 'class' and isinstance(t, ast.Attribute) and isinstance(t.value, ast.Name):
                            n += 1
                            run.violation('C20-G', m.relpath, qual, norm_stmt(node, 100),
                                          'stores to the class attribute %s.%s at run time (shared by all instances)' % (rn, t.attr))
                    # (2) class-level mutable reached through self / cls
                    if rn in ('self', 'cls') and owner is not None:
                        base = t
                        chain = []
                        while isinstance(base, (ast.Attribute, ast.Subscript)):
                            if isinstance(base, ast.Attribute):
                                chain.append(base.attr)
                            base = base.value
                        chain.reverse()
                        if chain:
                            first = chain[0]
                            for c in owner.mro():
                                if (c.name, first) in clsattrs and not assigned_in_init(owner, first):
                                    if how.startswith('call') or isinstance(t, ast.Subscript) or len(chain) > 1:
                                        n += 1
                                        run.violation('C20-G', m.relpath, qual, norm_stmt(node, 100),
                                                      'mutates the class-level object %s.%s through %s: it is shared by every instance '
                                                      '(and by instances created from other configuration files)' % (c.name, first, rn))
                        if isinstance(t, ast.Attribute) and ast.unparse(t.value) in ('self.__class__', 'type(self)', 'cls'):
                            n += 1
                            run.violation('C20-G', m.relpath, qual, norm_stmt(node, 100), 'stores to a class attribute at run time')
            # mutable default arguments
            if hasattr(fn, 'args'):
                for d in list(fn.args.defaults) + [d for d in fn.args.kw_defaults if d is not None]:
                    if isinstance(d, (ast.Dict, ast.List, ast.Set)) or (isinstance(d, ast.Call) and isinstance(d.func, ast.Name)
                                                                         and d.func.id in ('dict', 'list', 'set')):
                        run.violation('C20-G', m.relpath, qual, 'mutable default', 'mutable default argument (shared between calls)')
    run.instance('C20-G', 'shared mutable objects', obligations=len(globs) + len(clsattrs) + 1, ok=True,
                 sample={'module_level': sorted('%s.%s' % (a.split('.')[-1], b) for a, b in globs),
                         'class_level': sorted('%s.%s' % k for k in clsattrs)})
    return globs, clsattrs


def assigned_in_init(ci, attr):
    for c in ci.mro():
        init = c.methods.get('__init__')
        if init is None:
            continue
        for n in ast.walk(init.node):
            if isinstance(n, ast.Assign):
                for t in n.targets:
                    if isinstance(t, ast.Attribute) and ast.unparse(t.value) == 'self' and t.attr == attr:
                        return True
    return False


def readers_of(repo, g):
    out = []
    for m in repo.modules.values():
        for fn in [x for x in ast.walk(m.tree) if isinstance(x, ast.FunctionDef)]:
            for node in ast.walk(fn):
                if isinstance(node, ast.Name) and isinstance(node.ctx, ast.Load) and node.id == g[1]:
                    if resolve_global(repo, m, node.id) == g:
                        out.append('%s:%s' % (m.relpath.split('/')[-1], fn.name))
                        break
    return sorted(set(out))


def check_dynamic_attribute_writes(run, repo):
    """C20-G (dynamic): setattr / __dict__ / __setattr__ writes create state the inventory above cannot see (an attribute
    promoted onto the shared configuration object survives the next load()); the package must not use them."""
    n = 0
    for m in repo.modules.values():
        for fnode in ast.walk(m.tree):
            if not isinstance(fnode, (ast.FunctionDef, ast.AsyncFunctionDef)):
                continue
            for node in ast.walk(fnode):
                hit = None
                if isinstance(node, ast.Call) and isinstance(node.func, ast.Name) and node.func.id in ('setattr', 'delattr'):
                    hit = node.func.id
                elif isinstance(node, ast.Call) and isinstance(node.func, ast.Attribute) and node.func.attr in ('__setattr__', '__delattr__'):
                    hit = node.func.attr
                elif isinstance(node, (ast.Assign, ast.AugAssign)):
                    tg = node.targets if isinstance(node, ast.Assign) else [node.target]
                    if any('__dict__' in ast.unparse(t) for t in tg):
                        hit = '__dict__ store'
                elif isinstance(node, ast.Call) and isinstance(node.func, ast.Attribute) and node.func.attr in ('update', 'setdefault') \
                        and '__dict__' in ast.unparse(node.func.value):
                    hit = '__dict__.' + node.func.attr
                if hit:
                    n += 1
                    run.violation('C20-G', m.relpath, fnode.name, norm_stmt(node, 80),
                                  'dynamic attribute write (%s): state is attached to an object at run time, outside the declared '
                                  'attributes - on a shared object (the configuration singleton, a class) it leaks between instances and '
                                  'survives a reload' % hit)
    run.instance('C20-G', 'no dynamic attribute writes', obligations=1, ok=(n == 0), sample={'rule': 'setattr / __dict__ / __setattr__'})


def check_nondeterminism(run, repo):
    n = 0
    for m in repo.modules.values():
        for node in ast.walk(m.tree):
            bad = None
            if isinstance(node, ast.Import):
                for a in node.names:
                    if a.name.split('.')[0] in NONDET_MODULES:
                        bad = 'imports %s' % a.name
            elif isinstance(node, ast.ImportFrom) and node.module and node.module.split('.')[0] in NONDET_MODULES:
                bad = 'imports from %s' % node.module
            elif isinstance(node, ast.Call) and isinstance(node.func, ast.Name) and node.func.id in ('id', 'hash', 'input'):
                bad = 'calls %s()' % node.func.id
            elif isinstance(node, ast.Attribute) and ast.unparse(node) in ('os.environ', 'os.urandom', 'os.getpid', 'os.times'):
                bad = 'uses %s' % ast.unparse(node)
            elif isinstance(node, ast.For) and isinstance(node.iter, (ast.Set, ast.SetComp)):
                bad = 'iterates over a set'
            elif isinstance(node, ast.For) and isinstance(node.iter, ast.Call) and isinstance(node.iter.func, ast.Name) \
                    and node.iter.func.id in ('set', 'frozenset'):
                bad = 'iterates over a set'
            n += 1 if isinstance(node, (ast.Import, ast.ImportFrom, ast.Call)) else 0
            if bad:
                run.violation('C20-N', m.relpath, '<module>', norm_stmt(node, 80),
                              'source of nondeterminism / environment dependence: %s' % bad)
    run.instance('C20-N', 'imports and calls scanned', obligations=n, ok=True, sample={'nodes': n})


def check_scratch(run, repo, eff):
    """Def-before-use of non-architectural ArmV6 attributes over one emulate_cycle."""
    arm = repo.cls('ArmV6')
    init = arm.methods.get('__init__')
    attrs = []
    for n in ast.walk(init.node):
        if isinstance(n, ast.Assign):
            for t in n.targets:
                if isinstance(t, ast.Attribute) and ast.unparse(t.value) == 'self':
                    attrs.append(t.attr)
    scratch = [a for a in attrs if a not in ARCH_STATE]
    ec = repo.method('ArmV6', 'emulate_cycle')
    # reads / writes of self.<attr> per method (direct), and call order inside emulate_cycle's try body
    def rw(fi):
        reads, writes = {}, {}
        order = 0
        for node in ast.walk(fi.node):
            if isinstance(node, ast.Attribute) and isinstance(node.value, ast.Name) and node.value.id == 'self' and node.attr in scratch:
                if isinstance(node.ctx, ast.Store):
                    writes.setdefault(node.attr, []).append(node)
                else:
                    reads.setdefault(node.attr, []).append(node)
        return reads, writes
    # transitive first-use analysis: walk statements of a method in order; for calls to self.<m>() recurse (bounded)
    state = {}

    def first_use(fi, defined, depth, path):
        """Returns (set of attrs possibly read before defined on entry, set of attrs surely defined on exit)."""
        bad = set()
        d = set(defined)
        key = (fi.qualname, frozenset(d))
        if key in state or depth > 12:
            return set(), d
        state[key] = True

        def visit_expr(e):
            for node in ast.walk(e):
                if isinstance(node, ast.Attribute) and isinstance(node.value, ast.Name) and node.value.id == 'self' \
                        and node.attr in scratch and isinstance(node.ctx, ast.Load):
                    if node.attr not in d:
                        bad.add((node.attr, fi.qualname, norm_stmt(node, 60)))
                if isinstance(node, ast.Call) and isinstance(node.func, ast.Attribute):
                    base = node.func.value
                    callee = None
                    if isinstance(base, ast.Name) and base.id == 'self':
                        callee = arm.find_method(node.func.attr)
                    elif ast.unparse(base) == 'self.registers':
                        callee = repo.cls('Registers').find_method(node.func.attr)
                    if callee is not None and callee.cls.name == 'ArmV6':
                        b2, d2 = first_use(callee, d, depth + 1, path + [fi.qualname])
                        bad.update(b2)
                        d.update(d2)

        def visit_block(stmts):
            for s in stmts:
                if isinstance(s, ast.Assign):
                    visit_expr(s.value)
                    for t in s.targets:
                        if isinstance(t, ast.Attribute) and isinstance(t.value, ast.Name) and t.value.id == 'self' and t.attr in scratch:
                            d.add(t.attr)
                        else:
                            visit_expr(t)
                elif isinstance(s, ast.AugAssign):
                    visit_expr(s.value)
                    visit_expr(ast.Attribute(value=s.target.value, attr=s.target.attr, ctx=ast.Load())
                               if isinstance(s.target, ast.Attribute) else s.target)
                elif isinstance(s, ast.If):
                    visit_expr(s.test)
                    saved = set(d)
                    visit_block(s.body)
                    d1 = set(d)
                    d.clear()
                    d.update(saved)
                    visit_block(s.orelse)
                    d2 = set(d)
                    d.clear()
                    d.update(d1 & d2)
                elif isinstance(s, (ast.For, ast.While)):
                    visit_expr(s.iter if isinstance(s, ast.For) else s.test)
                    saved = set(d)
                    visit_block(s.body)
                    d.clear()
                    d.update(saved)
                elif isinstance(s, ast.Try):
                    saved = set(d)
                    visit_block(s.body)
                    after = set(d)
                    for h in s.handlers:
                        d.clear()
                        d.update(saved)
                        visit_block(h.body)
                    d.clear()
                    d.update(after)
                    visit_block(s.orelse)
                elif isinstance(s, (ast.Expr, ast.Return, ast.Raise, ast.Assert)):
                    for ch in ast.iter_child_nodes(s):
                        visit_expr(ch)
        visit_block(fi.node.body)
        return bad, d
    bad, _ = first_use(ec, set(), 0, [])
    # the opcode objects read processor scratch only through this_instr()/this_instr_length() (covered: they are ArmV6 methods
    # reached after fetch); opcode.execute happens after execute_instruction set executed_opcode
    by_attr = {}
    for a, fn, txt in bad:
        by_attr.setdefault(a, []).append((fn, txt))
    for a in scratch:
        ok = a not in by_attr
        run.instance('C20-S', 'ArmV6.' + a, ok=ok, sample={'attribute': a, 'rule': 'written before read within one emulate_cycle'})
        if not ok:
            fn, txt = sorted(by_attr[a])[0]
            run.violation('C20-S', ec.relpath, fn, 'stale ' + a,
                          'ArmV6.%s can be read in a step before it is written in that step (`%s` in %s): the step then depends on '
                          'what was executed before, not only on the architectural state' % (a, txt, fn))
    run.floor('ArmV6 scratch attributes', len(scratch), 5)
    # markers of Registers through which an opcode talks to the cycle driver (C20-S, second half): a boolean-typed attribute
    # of Registers that the driver reads must be reset unconditionally before the opcode executes; otherwise what an earlier
    # step left in it decides what a later step does, and two instances with equal architectural state diverge.
    from .. import bookkeeping as bk
    flags = bk.instruction_flags(repo)
    rinit = repo.cls('Registers').methods.get('__init__')
    markers = set()

    def boolish(v):
        if isinstance(v, ast.Constant) and isinstance(v.value, bool):
            return True
        if isinstance(v, ast.BinOp) and isinstance(v.op, ast.Mult) and isinstance(v.left, ast.List):
            return all(boolish(x) for x in v.left.elts)
        if isinstance(v, ast.List):
            return bool(v.elts) and all(boolish(x) for x in v.elts)
        return False
    for n in ast.walk(rinit.node):
        if isinstance(n, ast.Assign) and boolish(n.value):
            for t in n.targets:
                if isinstance(t, ast.Attribute) and ast.unparse(t.value) == 'self':
                    markers.add(t.attr)
    nread = 0
    for cname, mname in sorted(bk.DRIVER):
        fi = repo.method(cname, mname)
        for node in ast.walk(fi.node):
            if isinstance(node, ast.Attribute) and isinstance(node.ctx, ast.Load) and node.attr in markers \
                    and ast.unparse(node.value) in ('self.registers', 'regs', 'registers'):
                nread += 1
                ok = node.attr in flags
                run.instance('C20-S', 'Registers.%s read by %s' % (node.attr, mname), ok=ok,
                             sample={'attribute': 'registers.' + node.attr, 'rule': 'reset unconditionally before the opcode executes'})
                if not ok:
                    run.violation('C20-S', fi.relpath, fi.qualname, 'stale registers.' + node.attr,
                                  'the cycle driver reads registers.%s, which is not reset unconditionally before the opcode '
                                  'executes: a value left by an earlier instruction decides what this step does, so the step '
                                  'depends on history and not only on the architectural state' % node.attr)
    run.floor('driver reads of Registers markers', nread, 2)
    return attrs


def check_pipeline(run, repo):
    fi = repo.method('ArmV6', 'emulate_cycle')
    tries = [n for n in ast.walk(fi.node) if isinstance(n, ast.Try)]
    if len(tries) != 1:
        raise AnalysisError('emulate_cycle: expected one try statement')
    body = tries[0].body
    ok = True
    why = ''
    # reaching definitions over the straight-line try body
    defs = {}
    executed = None
    for s in body:
        if isinstance(s, ast.Assign) and len(s.targets) == 1 and isinstance(s.targets[0], ast.Name):
            defs[s.targets[0].id] = s.value
        for node in ast.walk(s):
            if isinstance(node, ast.Call) and ast.unparse(node.func) == 'self.execute_instruction':
                executed = node.args[0] if node.args else None
                snapshot = dict(defs)
    if executed is None:
        ok, why = False, 'no execute_instruction(...) call in the try body'
    else:
        v = snapshot.get(executed.id) if isinstance(executed, ast.Name) else executed
        # expect <decoded>.from_bitarray(<instr>, self)
        if not (isinstance(v, ast.Call) and isinstance(v.func, ast.Attribute) and v.func.attr == 'from_bitarray'
                and len(v.args) == 2 and ast.unparse(v.args[1]) == 'self'):
            ok, why = False, 'the executed object is `%s`, not <class>.from_bitarray(instr, self) computed in this cycle' % (
                ast.unparse(v) if v is not None else ast.unparse(executed))
        else:
            instr = v.args[0]
            # instr must be the result of self.fetch_instruction() in this body
            idef = None
            for s in body:
                if isinstance(s, ast.Assign) and isinstance(s.targets[0], ast.Name) and isinstance(instr, ast.Name) \
                        and s.targets[0].id == instr.id:
                    idef = s.value
                    break
            if idef is None or ast.unparse(idef) != 'self.fetch_instruction()':
                ok, why = False, 'the decoded word `%s` is not the result of self.fetch_instruction() of this cycle' % ast.unparse(instr)
            # the class must come from self.decode_instruction(instr)
            cdefs = [s.value for s in body if isinstance(s, ast.Assign) and isinstance(s.targets[0], ast.Name)
                     and isinstance(v.func.value, ast.Name) and s.targets[0].id == v.func.value.id]
            if not cdefs or ast.unparse(cdefs[0]) != 'self.decode_instruction(%s)' % ast.unparse(instr):
                ok, why = False, 'the class is not obtained from self.decode_instruction(instr) in this cycle'
        for s in body:
            for node in ast.walk(s):
                if isinstance(node, (ast.Subscript,)) and 'self.' in ast.unparse(node.value) and 'registers' not in ast.unparse(node.value):
                    ok, why = False, 'the cycle consults a per-instance table `%s` (memoised decode results depend on history)' % ast.unparse(node.value)
                if isinstance(node, ast.Call) and isinstance(node.func, ast.Attribute) and node.func.attr in ('get', 'setdefault') \
                        and ast.unparse(node.func.value).startswith('self.') and 'registers' not in ast.unparse(node.func.value):
                    ok, why = False, 'the cycle consults a per-instance table `%s`' % ast.unparse(node.func.value)
    run.instance('C20-P', 'emulate_cycle pipeline', obligations=3, ok=ok, sample={'function': fi.qualname})
    if not ok:
        run.violation('C20-P', fi.relpath, fi.qualname, 'fetch-decode-execute dataflow', why)


def check_fresh(run, repo, init_attrs):
    arm = repo.cls('ArmV6')
    init = arm.methods['__init__']
    ok = True
    for n in ast.walk(init.node):
        if isinstance(n, ast.Assign):
            for t in n.targets:
                if isinstance(t, ast.Attribute) and ast.unparse(t.value) == 'self':
                    v = n.value
                    if isinstance(v, ast.Name):
                        g = resolve_global(repo, arm.module, v.id)
                        if g is not None:
                            ok = False
                            run.violation('C20-A', arm.relpath, 'ArmV6.__init__', norm_stmt(n, 80),
                                          'instance attribute %s is bound to the module-level object %s (shared between instances)' % (t.attr, v.id))
    # closures stored on instances (any class of the package)
    for m in repo.modules.values():
        for ci in m.classes.values():
            for fi in ci.methods.values():
                for n in ast.walk(fi.node):
                    if isinstance(n, ast.Assign):
                        for t in n.targets:
                            if isinstance(t, ast.Attribute) and ast.unparse(t.value) == 'self':
                                v = n.value
                                closure = isinstance(v, ast.Lambda) or (isinstance(v, ast.Call) and ast.unparse(v.func) in (
                                    'partial', 'functools.partial')) or (isinstance(v, ast.Attribute) and ast.unparse(v.value) == 'self'
                                                                         and ci.find_method(v.attr) is not None)
                                nested = isinstance(v, ast.Name) and any(isinstance(x, ast.FunctionDef) and x.name == v.id
                                                                          for x in ast.walk(fi.node) if x is not fi.node)
                                if closure or nested:
                                    ok = False
                                    run.violation('C20-A', m.relpath, fi.qualname, norm_stmt(n, 80),
                                                  'instance attribute %s holds a closure / bound method: copy.deepcopy does not copy '
                                                  'function objects, so a snapshot would keep operating on the original instance' % t.attr)
    # the architectural state is created in the constructor (not lazily, at a moment that depends on history / other instances)
    assigned = {}
    for n in ast.walk(init.node):
        if isinstance(n, ast.Assign):
            for t in n.targets:
                if isinstance(t, ast.Attribute) and ast.unparse(t.value) == 'self':
                    assigned[t.attr] = n.value
    for a in sorted(ARCH_STATE):
        v = assigned.get(a)
        if not isinstance(v, ast.Call):
            ok = False
            run.violation('C20-A', arm.relpath, 'ArmV6.__init__', 'architectural state ' + a,
                          'self.%s is not constructed in ArmV6.__init__: state built later (lazily) is built from whatever the global '
                          'configuration holds at that moment, i.e. it depends on what other instances did in between' % a)
    # no memoisation / lazy-initialisation machinery anywhere in the package
    for m in repo.modules.values():
        for node in ast.walk(m.tree if hasattr(m, 'tree') else ast.parse(m.source)):
            if isinstance(node, (ast.FunctionDef, ast.AsyncFunctionDef)):
                for d in node.decorator_list:
                    dn = ast.unparse(d.func if isinstance(d, ast.Call) else d)
                    if dn.split('.')[-1] in ('lru_cache', 'cache', 'cached_property', 'memoize', 'memoized'):
                        ok = False
                        run.violation('C20-A', m.relpath, node.name, 'decorator @' + dn,
                                      'memoisation: the result of %s depends on earlier calls (a stale entry survives changes of the '
                                      'state / memory it was computed from, and for functions or methods the cache is shared by all '
                                      'instances)' % node.name)
                if any(ast.unparse(d) == 'property' for d in node.decorator_list):
                    for sub in ast.walk(node):
                        if isinstance(sub, (ast.Assign, ast.AugAssign)):
                            tg = sub.targets if isinstance(sub, ast.Assign) else [sub.target]
                            if any(isinstance(t, ast.Attribute) and ast.unparse(t.value) == 'self' for t in tg):
                                ok = False
                                run.violation('C20-A', m.relpath, node.name, 'property getter assigns self.' + ast.unparse(tg[0]).split('.', 1)[1],
                                              'a property getter that stores into the instance is lazily initialised state: its value '
                                              'depends on when it is first read')
    run.instance('C20-A', 'constructor state', ok=ok, sample={'attributes': init_attrs})
    # from_memory_list returns a freshly built hub
    hub = repo.cls('MemoryControllerHub')
    fml = hub.methods.get('from_memory_list')
    fresh = fml is not None and any(isinstance(n, ast.Assign) and isinstance(n.value, ast.Call)
                                    and ast.unparse(n.value.func) == 'MemoryControllerHub' for n in ast.walk(fml.node))
    run.instance('C20-A', 'hub construction', ok=fresh, sample={'function': 'MemoryControllerHub.from_memory_list'})
    if not fresh:
        run.violation('C20-A', hub.relpath, 'MemoryControllerHub.from_memory_list', 'fresh hub', 'the hub handed to a new processor is not freshly constructed')


def check_latched_configuration(run, repo):
    """C20-L: a configuration value that constructors latch into instance state (e.g. MPUIR.DREGION :=
    number_of_mpu_regions()) is not read again from the process-wide singleton at run time: the instance would
    then follow the configuration of whichever processor was created last instead of its own latched copy."""
    cfg = repo.module('armulator.armv6.configurations')
    names = {n.name for n in cfg.tree.body if isinstance(n, ast.FunctionDef)}
    init, runtime = {}, {}
    for m in repo.modules.values():
        if m is cfg:
            continue
        for node in ast.walk(m.tree):
            if not isinstance(node, ast.FunctionDef):
                continue
            for c in ast.walk(node):
                if isinstance(c, ast.Call):
                    f = c.func
                    nm = f.id if isinstance(f, ast.Name) else (f.attr if isinstance(f, ast.Attribute) else None)
                    if nm in names and (isinstance(f, ast.Name) or ast.unparse(f.value).endswith('configurations')):
                        (init if node.name == '__init__' else runtime).setdefault(nm, []).append((m.relpath, node.name, c))
    both = sorted(set(init) & set(runtime))
    run.instance('C20-L', 'latched configuration values', obligations=max(1, len(init)), ok=not both,
                 sample={'latched_at_construction': sorted(init), 'read_at_run_time': len(runtime)})
    for nm in both:
        for rel, fn, c in runtime[nm]:
            run.violation('C20-L', rel, fn, '%s() at run time' % nm,
                          '%s() is latched into instance state by %s but %s reads it again from the process-wide configuration at run '
                          'time: after another processor with a different configuration is created this instance follows the newer value'
                          % (nm, ', '.join(sorted({'%s:%s' % (r.split('/')[-1], f) for r, f, _ in init[nm]})), fn))
    return both


def main(repo_path, tier, seed, replay=None):
    run = Run('C20', tier, level='other', seed=seed)
    repo = Repo(repo_path)
    import re
    from .. import memo
    memo.check(run, repo, 'C20-MEMO', lambda rel, q: True,
               'the whole package: a step must not depend on results remembered from earlier steps')
    eff = Effects(repo)
    check_shared_state(run, repo)
    check_latched_configuration(run, repo)
    check_dynamic_attribute_writes(run, repo)
    check_nondeterminism(run, repo)
    attrs = check_scratch(run, repo, eff)
    check_pipeline(run, repo)
    check_fresh(run, repo, attrs)
    # positive control: a module-level list appended to from execute_instruction (in memory)
    fi = repo.method('ArmV6', 'execute_instruction')
    src = fi.module.source
    mutated = src.replace('class ArmV6:', '_TRACE = []\n\n\nclass ArmV6:', 1)
    seg = ast.get_source_segment(src, fi.node)
    first = seg.split('\n')[1]
    indent = first[:len(first) - len(first.lstrip())]
    mutated = mutated.replace(seg, seg.replace(first, indent + '_TRACE.append(opcode)\n' + first, 1), 1)
    fired = False
    what = ''
    if mutated != src:
        mrepo = Repo(repo_path, overrides={fi.module.relpath: mutated})
        tmp = Run('C20')
        check_shared_state(tmp, mrepo)
        fired = any('_TRACE' in f.message or '_TRACE' in f.construct for f in tmp.findings)
        what = 'module-level list appended to from execute_instruction'
    run.control('C20-G run-time write to module state', fired, what)
    # positive control of C20-L: the MPU region loop bound read from the global configuration instead of MPUIR.DREGION
    fi2 = repo.method('ArmV6', 'translate_address_p')
    src2 = fi2.module.source
    if 'range(self.registers.mpuir.dregion)' in src2:
        mrepo = Repo(repo_path, overrides={fi2.module.relpath: src2.replace('range(self.registers.mpuir.dregion)',
                                                                               'range(number_of_mpu_regions())', 1)})
        tmp = Run('C20')
        run.control('C20-L latched value re-read at run time', bool(check_latched_configuration(tmp, mrepo)),
                    'translate_address_p iterates range(number_of_mpu_regions())')
    else:
        run.control('C20-L latched value re-read at run time', False, '')
    # positive control of the driver-marker half of C20-S (expected count zero): the unconditional reset of a marker removed
    fe = repo.method('ArmV6', 'execute_instruction')
    seg_e = ast.get_source_segment(fe.module.source, fe.node)
    from .. import bookkeeping as _bk
    fired_m, what_m = False, ''
    for flag in sorted(_bk.instruction_flags(repo)):
        line = [l for l in seg_e.split('\n') if l.strip().startswith('self.registers.%s = ' % flag)]
        reads = ('self.registers.%s' % flag) in seg_e.replace(line[0], '', 1) if line else False
        if line and reads:
            msrc = fe.module.source.replace(seg_e, seg_e.replace(line[0] + '\n', '', 1), 1)
            mrepo = Repo(repo_path, overrides={fe.module.relpath: msrc})
            tmp = Run('C20')
            try:
                check_scratch(tmp, mrepo, Effects(mrepo))
                fired_m = any(f.construct == 'stale registers.' + flag for f in tmp.findings)
            except AnalysisError:
                fired_m = True
            what_m = 'execute_instruction no longer resets registers.%s before the opcode executes' % flag
            break
    run.control('C20-S driver marker not reset', fired_m, what_m)
    # positive control of the memo detector (its expected count on the tree is zero): a keyed cache in front of a helper
    bo = repo.module('armulator.armv6.bits_ops')
    memo_src = bo.source + ('\n\n_SEEN = {}\n\n\ndef remembered_align(x, y, carry):\n    if x in _SEEN:\n        return _SEEN[x]\n'
                            '    r = align(x, y) + carry\n    _SEEN[x] = r\n    return r\n')
    mrepo = Repo(repo_path, overrides={bo.relpath: memo_src})
    from .. import memo as memomod
    got = [x for x in memomod.find_memos(mrepo) if x[1] == 'remembered_align']
    run.control('C20-MEMO keyed cache with an incomplete key', bool(got), 'bits_ops.remembered_align(x, y, carry) remembered by x only')
    run.exhaustive = True
    run.undecided = ['trace equality under deep copies and interleavings as such: it follows from G + N + S + P + A and is otherwise a '
                     'property of histories']
    run.assumptions = ['the package does not use exec / eval / setattr / monkey-patching (checked by the source model)']
    return run.finish(
        'C20: inventory of module- and class-level mutable objects with every run-time write to them (cross-instance channels), '
        'nondeterminism sources, def-before-use of the per-step scratch attributes of ArmV6 over the stage sequence of '
        'emulate_cycle, the fetch-decode-from_bitarray-execute dataflow of a cycle (no memoisation), freshness and copyability of '
        'constructor-created state.  These are the structural necessary conditions of determinism and isolation; trace equality '
        'itself is not executed.',
        './check C20 --tier %s' % tier)
