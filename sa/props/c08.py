"""C08 - IT blocks (mechanism conformance).

  C08-A   ITAdvance(): final CPSR equals the reference (IT[2:0]==000 -> IT:=0, else IT[4:0] :=
          IT[3:0]:0 with IT[7:5] kept), nothing else changes.  Placement: execute_instruction
          tests in_it_block() *before* executing the opcode and calls it_advance exactly once
          after it on that path and never on the other.
  C08-F   flag suppression: every 16-bit encoding the reference table gives
          setflags = !InITBlock() has exactly that wiring in the tree.
  C08-I   the IT instruction writes ITSTATE := firstcond:mask and nothing else.
  C08-P   in_it_block / last_in_it_block predicates as tables over ITSTATE.
  C08-E   every exception entry clears ITSTATE after saving it in the SPSR (SVC/SMC save the
          advanced state) - the C11-T equalities re-evaluated under this property;
          exception return restores ITSTATE only under is_excp_return (C12-M re-evaluated).
  C08-R   the ITSTATE installed by an exception return is not advanced: the it_advance() call of
          execute_instruction is suppressed by a per-instruction marker (sa/bookkeeping.py) that
          CPSRWriteByInstr sets exactly when is_excp_return holds, that the driver resets before the
          opcode executes, and that nothing else writes or reads.
"""
import ast

from .. import decode, refmodel, spec
from ..bdd import BDD
from ..binding import Binding
from ..bitdom import Int, V, Value
from ..effects import Effects
from ..flow import Walker, guard_has, fmt
from ..machine import Machine, compare_final
from ..refmodel import P
from ..report import Run, AnalysisError
from ..srcmodel import Repo
from . import c11, c12, decode_check


def check_advance(run, repo):
    m = Machine(repo)
    rm = refmodel.M(m)
    res, fi = m.run('Registers', 'it_advance')
    key = P + 'cpsr.value'
    ok, nob, keys = compare_final(run, 'C08-A', fi, m, res, {key: rm.it_advance(rm.cpsr())}, {key: rm.cpsr()},
                                  m.B.var('ARCH[2]'), label='ITAdvance')
    run.instance('C08-A', 'it_advance', obligations=256, ok=ok,
                 sample={'function': fi.qualname, 'table': 'all 256 ITSTATE values x rest of CPSR'})


def check_predicates(run, repo):
    m = Machine(repo)
    rm = refmodel.M(m)
    B = m.B
    cp = rm.cpsr()
    it = Int([cp.bits[25], cp.bits[26]] + list(cp.bits[10:16]))
    low = Int(it.bits[0:4])
    for meth, want in (('in_it_block', m.it.i_truth(low)), ('last_in_it_block', m.it.i_eq(low, m.it.const(0b1000)))):
        res, fi = m.run('ArmV6', meth)
        got = m.it.truth(res.value, B.var('ARCH[2]'))
        d = B.AND(B.var('ARCH[2]'), B.XOR(got, want))
        run.instance('C08-P', meth, obligations=16, ok=(d == 0 and not res.heap), sample={'function': fi.qualname})
        if d != 0:
            run.violation('C08-P', fi.relpath, fi.qualname, 'IT predicate', '%s() is not the architectural predicate over '
                          'ITSTATE[3:0]' % meth)
        if res.heap:
            run.violation('C08-P', fi.relpath, fi.qualname, 'IT predicate purity', '%s() writes state' % meth)


def check_placement(run, repo, eff):
    fi = repo.method('ArmV6', 'execute_instruction')
    from ..effects import _SelfWalker
    tr = _SelfWalker(repo, 'ArmV6', []).walk(fi, repo.cls('ArmV6'))
    execs = [e for e in tr.events if e.kind == 'ObjCall' and e.d['method'] == 'execute']
    advs = tr.of('ItAdvance')

    def in_it(t):
        return t[0] == 'pcall' and t[1] == 'in_it_block'
    ok = True
    if not execs:
        raise AnalysisError('execute_instruction: no opcode.execute(...) call found')
    # the in_it_block() test must be evaluated before any execute
    tests = [e for e in tr.of('ProcCall') if e.d['method'] == 'in_it_block']
    if not tests or min(t.idx for t in tests) > min(e.idx for e in execs):
        ok = False
        run.violation('C08-A', fi.relpath, fi.qualname, 'in_it_block evaluated late',
                      'in_it_block() must be evaluated before the opcode executes (an IT instruction must not advance its '
                      'own freshly written state; the last instruction of a block must still advance)')
    for e in execs:
        if guard_has(e.guards, in_it, True):
            after = [a for a in advs if a.idx > e.idx and guard_has(a.guards, in_it, True)]
            before = [a for a in advs if a.idx < e.idx and guard_has(a.guards, in_it, True)]
            if len(after) != 1 or before:
                ok = False
                run.violation('C08-A', fi.relpath, fi.qualname, 'advance placement',
                              'inside an IT block it_advance() must be called exactly once, after opcode.execute() '
                              '(found %d after, %d before)' % (len(after), len(before)))
        elif guard_has(e.guards, in_it, False):
            pass
        else:
            # unconditional execute: the advance must then be guarded by a test evaluated before it
            after = [a for a in advs if a.idx > e.idx]
            if len(after) != 1 or not guard_has(after[0].guards, in_it, True):
                ok = False
                run.violation('C08-A', fi.relpath, fi.qualname, 'advance placement',
                              'it_advance() must follow opcode.execute() exactly once under the in_it_block() value '
                              'sampled before execution')
    for a in advs:
        if guard_has(a.guards, in_it, False) or not guard_has(a.guards, in_it, True):
            ok = False
            run.violation('C08-A', fi.relpath, fi.qualname, 'advance outside block',
                          'it_advance() is reachable when the instruction was not in an IT block')
    for a in advs:
        if guard_has(a.guards, lambda t: t[0] == 'finally', True):
            ok = False
            run.violation('C08-A', fi.relpath, fi.qualname, 'advance in a finally clause',
                          'it_advance() runs even when the instruction raises: an instruction that takes an exception inside an IT block '
                          'must leave ITSTATE to the exception entry (the saved SPSR would hold an IT state advanced once too often)')
    if any(l for a in advs for l in a.loops):
        ok = False
        run.violation('C08-A', fi.relpath, fi.qualname, 'advance in loop', 'it_advance() inside a loop')
    run.instance('C08-A', 'execute_instruction placement', obligations=3, ok=ok,
                 sample={'function': fi.qualname, 'execute_calls': len(execs), 'advance_calls': len(advs)})
    # no other caller of it_advance except SVC / SMC entry
    callers = []
    for (cls, name), s in eff.direct.items():
        if ('Registers', 'it_advance') in s.calls:
            callers.append('%s.%s' % (cls, name))
    want = {'ArmV6.execute_instruction', 'Registers.take_svc_exception', 'Registers.take_smc_exception'}
    extra = set(callers) - want
    run.instance('C08-A', 'it_advance callers', ok=not extra, sample={'callers': sorted(callers)})
    for c in sorted(extra):
        run.violation('C08-A', 'armulator/armv6', c, 'extra it_advance caller',
                      '%s calls it_advance(); the IT state must advance once per executed instruction only '
                      '(plus the SVC/SMC entry pre-operation)' % c)
    # opcodes must not call it_advance themselves
    for ci in repo.abstract_opcode_classes():
        ex = ci.methods.get('execute')
        if ex is None:
            continue
        tr2 = Walker(repo, eff).walk(ex, ci)
        if tr2.of('ItAdvance'):
            run.violation('C08-A', ci.relpath, ci.name + '.execute', 'opcode advances IT',
                          '%s advances the IT state itself (it would advance twice)' % ci.name)


def _marker_guard(g):
    """(flag name, required truthiness) of a guard `not registers.X` / `registers.X` else-arm, or None."""
    t, pol = g[0], g[1]
    if t[0] == 'not' and t[1][0] == 'sys':
        return t[1][1], (not pol)
    if t[0] == 'sys':
        return t[1], pol
    return None


def _conditionally_reset(tr, attr):
    """every store to registers.<attr> in the driver is guarded (none is unconditional)"""
    ws = [e for e in tr.events if e.kind == 'SysWrite' and e.d['path'] == attr]
    return bool(ws) and all(e.guards for e in ws)


def check_return_not_advanced(run, repo):
    """C08-R (see module docstring)."""
    from .. import bookkeeping as bk
    from ..effects import _SelfWalker
    fi = repo.method('ArmV6', 'execute_instruction')
    tr = _SelfWalker(repo, 'ArmV6', []).walk(fi, repo.cls('ArmV6'))
    flags = bk.instruction_flags(repo)

    def in_it(t):
        return t[0] == 'pcall' and t[1] == 'in_it_block'
    ok = True
    markers = set()
    advs = tr.of('ItAdvance')
    def conjuncts(g):
        # `if a and b:` taken, or `if not (a or b):` ... : one guard entry, several facts
        t, pol = g[0], g[1]
        if pol and t[0] == 'and':
            for x in t[1]:
                yield from conjuncts((x, True, g[2]))
        elif not pol and t[0] == 'or':
            for x in t[1]:
                yield from conjuncts((x, False, g[2]))
        else:
            yield g
    for a in advs:
        mine = []
        for g in [c for g0 in a.guards for c in conjuncts(g0)]:
            if in_it(g[0]) or g[0][0] == 'finally':
                continue
            mg = _marker_guard(g)
            if mg is not None and mg[0] not in flags and _conditionally_reset(tr, mg[0]):
                ok = False
                run.violation('C08-R', fi.relpath, fi.qualname, 'stale marker ' + mg[0],
                              'it_advance() is suppressed by registers.%s, which execute_instruction resets only on some paths '
                              '(not unconditionally before the opcode executes): set by an exception return executed outside an '
                              'IT block it survives, and the first instruction of a later IT block is then not followed by '
                              'ITAdvance()' % mg[0])
                mine.append(None)
                continue
            if mg is None or mg[0] not in flags:
                raise AnalysisError('execute_instruction: it_advance() is guarded by `%s`, which is neither in_it_block() nor a '
                                    'per-instruction marker reset before the opcode executes' % fmt(g[0]))
            if mg[1] is not flags[mg[0]]:
                ok = False
                run.violation('C08-R', fi.relpath, fi.qualname, 'advance under the marker',
                              'it_advance() runs when registers.%s differs from its reset value: it then runs only after exception '
                              'returns instead of after every other instruction' % mg[0])
                continue
            mine.append(mg[0])
        if not mine:
            ok = False
            run.violation('C08-R', fi.relpath, fi.qualname, 'restored ITSTATE advanced',
                          'it_advance() runs after every instruction executed inside an IT block, also after an exception return '
                          '(SUBS PC,LR / RFE / LDM^ / ERET as the last instruction of an IT block) that has just installed the '
                          'ITSTATE of the interrupted code from the SPSR: the restored IT state is advanced once too often, so '
                          '"returning restores it" fails for a return into the middle of an IT block')
        markers.update(m for m in mine if m is not None)
    fw = repo.method('Registers', 'cpsr_write_by_instr')
    params = [a.arg for a in fw.node.args.args if a.arg != 'self']
    if len(params) < 3:
        raise AnalysisError('cpsr_write_by_instr: expected (value, bytemask, is_excp_return)')
    exc = params[2]
    tw = _SelfWalker(repo, 'Registers', []).walk(fw, repo.cls('Registers'))
    for m in sorted(markers):
        sets = [e for e in tw.events if e.kind in ('ProcStore', 'SysWrite') and e.d['path'] == m]
        good = [e for e in sets if e.d['value'][0] == 'const' and bool(e.d['value'][1]) is not flags[m] and
                len(e.guards) == 1 and e.guards[0][0] == ('name', exc) and e.guards[0][1] is True]
        if not good or len(good) != len(sets):
            ok = False
            run.violation('C08-R', fw.relpath, fw.qualname, 'marker ' + m,
                          'CPSRWriteByInstr must set registers.%s exactly when %s holds (found %d store(s), %d of that form): '
                          'otherwise the advance is suppressed for MSR/CPS too, or not suppressed for an exception return'
                          % (m, exc, len(sets), len(good)))
        readers, writers = bk.accesses(repo, m)
        extra_w = writers - {('Registers', '__init__'), ('ArmV6', 'execute_instruction'), ('Registers', 'cpsr_write_by_instr')}
        extra_r = readers - {('ArmV6', 'execute_instruction')}
        for c, f in sorted(extra_w):
            ok = False
            run.violation('C08-R', 'armulator/armv6', '%s.%s' % (c, f), 'marker writer',
                          '%s.%s writes registers.%s; only the cycle driver (reset) and CPSRWriteByInstr (exception return) may'
                          % (c, f, m))
        for c, f in sorted(extra_r):
            ok = False
            run.violation('C08-R', 'armulator/armv6', '%s.%s' % (c, f), 'marker reader',
                          '%s.%s reads registers.%s: a per-instruction bookkeeping flag is not architectural state' % (c, f, m))
    run.instance('C08-R', 'exception return does not advance the restored ITSTATE', obligations=3, ok=ok,
                 sample={'function': fi.qualname, 'advance_calls': len(advs), 'markers': sorted(markers),
                         'per_instruction_flags': sorted(flags)})
    if not advs:
        raise AnalysisError('execute_instruction: no it_advance() call found')


def check_flag_suppression(run, repo):
    B = BDD()
    sp = spec.load('enc_t16.json')
    nb = 16
    rm = decode.build(repo, 'T16', B)
    n = 0
    cp = 'processor.registers.cpsr.value[%d]'
    it_in = B.all_or(B.var(cp % k) for k in (25, 26, 10, 11))   # ITSTATE[3:0] != 0
    for name, e in sorted(sp['encodings'].items()):
        kw = e['kwargs'].get('setflags')
        if kw is None:
            continue
        ref = spec.value_from_json(B, kw, nb)
        p = ref.single()
        if not isinstance(p, Int) or len(p.bits) != 1 or p.bits[0] != B.NOT(it_in):
            continue
        n += 1
        em = rm.encodings.get(name)
        ok = False
        if em is not None and 'setflags' in em.kwargs:
            r = spec.diff_values(em.interp, em.accept, em.kwargs['setflags'], ref, 'setflags')
            ok = r is None
        run.instance('C08-F', name, ok=ok, sample={'encoding': name, 'setflags': '!InITBlock()'})
        if not ok:
            run.violation('C08-F', em.file if em else 'armulator/armv6/opcodes/concrete', name + '.from_bitarray',
                          'kwarg setflags', '16-bit encoding %s must not set flags inside an IT block: '
                          'setflags = !InITBlock() in the reference table' % name)
    run.floor('16-bit encodings with setflags = !InITBlock()', n, 23)


def check_it_instruction(run, repo, eff, bind):
    ci = bind.abstract_of_encoding('ItT1')
    if ci is None:
        raise AnalysisError('encoding ItT1 not bound')
    tr = Walker(repo, eff).walk(ci.methods['execute'], ci)
    from .c05 import effect_events
    effs = effect_events(tr)
    want = ('call', 'chain', (('field', 'firstcond'), ('field', 'mask'), ('const', 4)))
    ok = len(effs) == 1 and effs[0].kind == 'FlagWrite' and effs[0].d['flag'] == 'it' and effs[0].d['value'] == want
    run.instance('C08-I', ci.name, ok=ok, sample={'class': ci.name, 'write': 'CPSR.IT = firstcond:mask'})
    if not ok:
        run.violation('C08-I', ci.relpath, ci.name + '.execute', 'IT write',
                      'the IT instruction must write exactly ITSTATE := firstcond:mask; found %s' % [
                          (e.kind, fmt(e.d.get('value', ('const', None)))) for e in effs])


def main(repo_path, tier, seed, replay=None):
    run = Run('C08', tier, level='other', seed=seed)
    repo = Repo(repo_path)
    eff = Effects(repo)
    bind = Binding(repo)
    check_advance(run, repo)
    check_predicates(run, repo)
    check_placement(run, repo, eff)
    check_return_not_advanced(run, repo)
    check_flag_suppression(run, repo)
    check_it_instruction(run, repo, eff, bind)
    for method in sorted(refmodel.ENTRY_MODELS):
        c11.compare_entry(run, repo, method, rule='C08-E')
    c12.check_cpsr_write_as(run, repo, 'C08-E')
    # positive control: remove the it_advance() call from execute_instruction (in memory)
    fi = repo.method('ArmV6', 'execute_instruction')
    src = fi.module.source
    old = 'self.registers.it_advance()\n'
    fired = False
    what = ''
    seg = ast.get_source_segment(src, fi.node)
    if old in seg:
        new_seg = seg.replace(old, 'pass\n', 1)
        mrepo = Repo(repo_path, overrides={fi.module.relpath: src.replace(seg, new_seg, 1)})
        tmp = Run('C08')
        check_placement(tmp, mrepo, Effects(mrepo))
        fired = bool(tmp.findings)
        what = 'it_advance() call removed from execute_instruction'
    else:
        # fallback: the rule must at least see one advance call today
        fired = False
    run.control('C08-A advance call removed', fired, what)
    run.exhaustive = True
    run.undecided = ['the emergent statement "exactly the next 1-4 instructions run under the prescribed condition" over all '
                     '(firstcond, mask, NZCV) and programs: it follows from A + C05-T2 + I but is a property of traces']
    run.assumptions = ['sa/refmodel.py ITAdvance and exception-entry models; spec/enc_t16.json setflags wiring']
    return run.finish(
        'C08 mechanism conformance: ITAdvance as an exact table, in_it_block/last_in_it_block predicates, placement of '
        'the advance in execute_instruction (structured walk), the IT instruction\'s write, the !InITBlock() wiring of '
        'setflags for all sixteen-bit data-processing encodings, IT cleared after the SPSR save on every exception entry and '
        'restored only on exception return (re-evaluation of the C11-T / C12-M equalities).',
        './check C08 --tier %s' % tier)
