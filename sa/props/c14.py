"""C14 - PMSA protection.

  C14-R  region matching and priority: TranslateAddressP interpreted with three symbolic MPU
         regions (enable, size 2^2..2^32, base, eight subregion-disable bits, AP/XN/TEX/C/B/S),
         a symbolic DRegion count 0..3, address, privilege, direction, SCTLR.{M,BR,V,AFE}:
         the states that take a Background abort, the states that take a Permission abort and
         the attributes handed to DefaultTEXDecode equal the reference (highest-numbered
         enabled matching region wins; subregions only for sizes >= 256 bytes; background
         region for privileged accesses when SCTLR.BR).
  C14-L  loop shape: the region loop is ascending over range(mpuir.dregion) with no break /
         return / continue, so the statement for 3 regions extends to any count.
  C14-A  CheckPermission AP table (ap x privileged x write -> abort) incl. AFE.
  C14-D  abort bookkeeping (PMSA arm of data_abort): raises on every path; DFAR := address,
         DFSR[11] := write, DFSR[10,3:0] := EncodePMSAFSR(type); EncodePMSAFSR table.
  C14-M  MPU off: flat map, no permission check.
"""
import ast

from .. import refmodel, spec as specmod, reftables
from ..bitdom import Int, V, Value, Tup, UF, NONE, Outcome
from ..machine import Machine, describe_witness
from ..report import Run, AnalysisError
from ..srcmodel import Repo

P = refmodel.P
NREG = 3

PMSA_FSR = {'ALIGNMENT': 0b00001, 'PERMISSION': 0b01101, 'BACKGROUND': 0b00000, 'SYNC_EXTERNAL': 0b01000,
            'SYNC_PARITY': 0b11001, 'ASYNC_PARITY': 0b11000, 'ASYNC_EXTERNAL': 0b10110, 'SYNC_WATCHPOINT': 0b00010,
            'ASYNC_WATCHPOINT': 0b00010, 'LOCKDOWN': 0b10100, 'COPROC': 0b11010}


class H:
    def __init__(self, repo, stubs_extra=None):
        self.aborts = []
        self.tex = []
        self.defattrs = []
        stubs = {'data_abort': self.data_abort, 'default_tex_decode': self.tex_decode,
                 'default_memory_attributes': self.def_attrs}
        stubs.update(stubs_extra or {})
        self.m = Machine(repo, stubs=stubs)
        self.rm = refmodel.M(self.m)
        self.B = self.m.B
        self.it = self.m.it

    def data_abort(self, it, args, st, node):
        self.aborts.append((st.cond, args))
        it.outcomes.append(Outcome('raise', st.cond, 'DataAbortException', node, st.copy(), it.cur_func))
        st.cond = 0
        return V(NONE)

    def tex_decode(self, it, args, st, node):
        self.tex.append((st.cond, args))
        return V(('obj', 'memattrs:tex%d' % len(self.tex), 'MemoryAttributes'))

    def def_attrs(self, it, args, st, node):
        self.defattrs.append((st.cond, args))
        return V(('obj', 'memattrs:def%d' % len(self.defattrs), 'MemoryAttributes'))


def patch_attrs(h):
    pol = h.m.pol
    base = pol.attr

    def attr(it, obj, a, st, _b=base):
        if obj[0] == 'obj' and obj[2] == 'MemoryAttributes' and obj[1].startswith('memattrs:'):
            if a == 'type':
                B = h.B
                v0, v1 = B.var(obj[1] + '.t0'), B.var(obj[1] + '.t1')
                return Value([(B.AND(B.NOT(v0), B.NOT(v1)), ('enum', 'MemType', 'NORMAL')),
                              (B.AND(v0, B.NOT(v1)), ('enum', 'MemType', 'DEVICE')),
                              (v1, ('enum', 'MemType', 'STRONGLY_ORDERED'))])
            return V(pol.sym(obj[1] + '.' + a, 2))
        return _b(it, obj, a, st)
    pol.attr = attr


def interleaved_vars(h):
    """Allocate va / base bits interleaved so that the region comparisons stay small."""
    B = h.B
    # selectors (region size / enable / subregion bits, region count, control bits) above the data bits
    for r in range(NREG):
        for k in range(8):
            B.var_index('processor.registers.drsrs[%d].value[%d]' % (r, k))
    for k in range(32):
        B.var_index('processor.registers.mpuir.value[%d]' % k)
        B.var_index('processor.registers.sctlr.value[%d]' % k)
    for k in reversed(range(32)):
        B.var_index('ARG.va[%d]' % k)
        for r in range(NREG):
            B.var_index('processor.registers.drbars[%d][%d]' % (r, k))
    # subregion-disable bits below the address bits that select them
    for r in range(NREG):
        for k in range(8, 32):
            B.var_index('processor.registers.drsrs[%d].value[%d]' % (r, k))


def check_regions(run, repo, nreg=1, fixed_lsbits=None):
    global NREG
    NREG = nreg
    h = H(repo)
    patch_attrs(h)
    interleaved_vars(h)
    B, it, rm, m = h.B, h.it, h.rm, h.m
    va = m.sym('ARG.va', 32)
    priv = m.sym('ARG.ispriv', 1)
    wr = m.sym('ARG.iswrite', 1)
    wasal = m.sym('ARG.wasaligned', 1)
    # DRegion restricted to 0..3 (two symbolic bits): the loop-shape rule C14-L extends the result to any count
    mp = m.view('mpuir')
    mpv = Int([mp.bits[i] if i in (8, 9) else (mp.bits[i] if i < 8 or i > 15 else 0) for i in range(32)])
    heap = {P + 'mpuir.value': V(mpv)}
    m.it.key_info[P + 'mpuir.value'] = (('obj', 'processor.registers.mpuir', 'MPUIR'), 'value')
    dreg0 = Int([mp.bits[8], mp.bits[9]])
    lim = B.NOT(it.i_lt(it.const(NREG), dreg0))          # DRegion <= NREG
    if fixed_lsbits:
        # combination logic (priority, overwrite, background) is judged with the region sizes fixed; the match
        # predicate itself is judged for every size with one region (compositional: the loop body is uniform, C14-L)
        for r, ls in enumerate(fixed_lsbits):
            rs = m.sym('processor.registers.drsrs[%d].value' % r, 32)
            lim = B.AND(lim, it.i_eq(Int(rs.bits[1:6]), it.const(ls - 1)))
            # make the size field constant in the initial state so that the interpretation itself specialises
            fixed = list(rs.bits)
            for k in range(5):
                fixed[1 + k] = ((ls - 1) >> k) & 1
            key = 'processor.registers.drsrs[%d].value' % r
            heap[key] = V(Int(fixed))
            m.it.key_info[key] = (('obj', 'processor.registers.drsrs[%d]' % r, 'DRSR'), 'value')
    res, fi = m.run('ArmV6', 'translate_address_p', [va, priv, wr, wasal], heap=heap, cond=lim)
    fn = fi.qualname
    sctlr = rm.view('sctlr')
    M, BR, Vb, AFE = sctlr.bits[0], sctlr.bits[17], sctlr.bits[13], sctlr.bits[29]
    dreg = Int([mp.bits[8], mp.bits[9]])
    # ---- reference ---------------------------------------------------------------------
    found = 0
    ap = it.const(0)
    tex = it.const(0)
    sbit = 0
    valid = 1
    for r in range(NREG):
        rsr = m.sym('processor.registers.drsrs[%d].value' % r, 32)
        hv = heap.get('processor.registers.drsrs[%d].value' % r)
        if hv is not None:
            rsr = hv.single()      # size field specialised (same value the tree is interpreted with)
        bar = m.sym('processor.registers.drbars[%d]' % r, 32)
        acr = m.sym('processor.registers.dracrs[%d].value' % r, 32)
        active = it.i_lt(it.const(r), dreg)
        en = rsr.bits[0]
        rsize = Int(rsr.bits[1:6])
        match = 0
        ok_r = 1
        for ls in range(1, 33):
            sel = it.i_eq(rsize, it.const(ls - 1))
            if sel == 0:
                continue
            if ls < 2:
                ok_r = B.AND(ok_r, B.NOT(sel))       # UNPREDICTABLE: excluded from the domain
                continue
            if ls > 2:
                ok_r = B.AND(ok_r, B.IMP(sel, it.i_eq(Int(bar.bits[2:ls]), it.const(0))))
            eq = 1 if ls == 32 else it.i_eq(Int(va.bits[ls:32]), Int(bar.bits[ls:32]))
            if ls >= 8:
                sub = Int(va.bits[ls - 3:ls])
                sd = 0
                for k in range(8):
                    sd = B.OR(sd, B.AND(it.i_eq(sub, it.const(k)), rsr.bits[8 + k]))
                hit = B.AND(eq, B.NOT(sd))
            else:
                hit = eq
            match = B.OR(match, B.AND(sel, hit))
        valid = B.AND(valid, B.IMP(B.AND(active, en), ok_r))
        win = B.all_and([active, en, match])
        found = B.OR(found, win)
        ap = it.i_ite(win, Int(acr.bits[8:11]), ap)
        tex = it.i_ite(win, Int([acr.bits[0], acr.bits[1], acr.bits[3], acr.bits[4], acr.bits[5]]), tex)
        sbit = B.ite(win, acr.bits[2], sbit)
    bg_abort = B.all_and([M, B.NOT(found), B.OR(B.NOT(BR), B.NOT(priv.bits[0]))])
    bg_ok = B.all_and([M, B.NOT(found), BR, priv.bits[0]])
    ap_eff = it.i_ite(bg_ok, it.const(0b011), ap)
    ap_eff = Int(it.ext(ap_eff, 3))
    ap_eff = Int([B.OR(ap_eff.bits[0], AFE), ap_eff.bits[1], ap_eff.bits[2]])
    p, w = priv.bits[0], wr.bits[0]
    rows = {0b000: 1, 0b001: B.NOT(p), 0b010: B.AND(B.NOT(p), w), 0b011: 0, 0b101: B.OR(B.NOT(p), w), 0b110: w}
    perm = 0
    unpred_ap = B.OR(it.i_eq(ap_eff, it.const(0b100)), B.AND(it.i_eq(ap_eff, it.const(0b111)), B.NOT(B.var('CFG.memarch_is_vmsa'))))
    for k, a in rows.items():
        perm = B.OR(perm, B.AND(it.i_eq(ap_eff, it.const(k)), a))
    perm = B.OR(perm, B.AND(B.AND(it.i_eq(ap_eff, it.const(0b111)), B.var('CFG.memarch_is_vmsa')), w))
    perm_abort = B.all_and([M, B.NOT(bg_abort), perm])
    dom = B.all_and([B.var('ARCH[2]'), lim, valid, B.NOT(B.AND(M, B.AND(B.NOT(bg_abort), unpred_ap)))])
    # ---- compare ---------------------------------------------------------------------------
    ok = True

    def outcome(kind):
        r = 0
        for c, a in h.aborts:
            d = a[5].single()
            if d == ('enum', 'DAbort', kind):
                r = B.OR(r, c)
        return r
    for label, got, want in (('Background abort', outcome('BACKGROUND'), bg_abort),
                             ('Permission abort', outcome('PERMISSION'), perm_abort)):
        d = B.AND(dom, B.XOR(B.AND(got, dom), B.AND(want, dom)))
        if d != 0:
            ok = False
            w_ = describe_witness(B, B.pick(d), ('ARG.va', 'ARG.ispriv', 'ARG.iswrite'))
            a = B.pick(d)
            extra = {B.names[v]: b for v, b in a.items() if 'drsrs' in B.names[v] or 'dracrs' in B.names[v] or 'mpuir' in B.names[v]
                     or 'sctlr' in B.names[v]}
            run.violation('C14-R', fi.relpath, fn, label,
                          'the set of (regions, address, privilege, direction, SCTLR) states that take a %s differs from the '
                          'architecture (tree %s where the reference %s); e.g. %s' % (
                              label, 'aborts' if B.AND(d, got) != 0 else 'does not abort',
                              'does not' if B.AND(d, got) != 0 else 'aborts', w_), {'witness': w_, 'mpu': extra})
    other = [a[5].single() for c, a in h.aborts if a[5].single() not in (('enum', 'DAbort', 'BACKGROUND'), ('enum', 'DAbort', 'PERMISSION'))]
    if other:
        ok = False
        run.violation('C14-R', fi.relpath, fn, 'abort kinds', 'unexpected abort type(s) %s' % other)
    for c, a in h.aborts:
        cc = B.AND(c, dom)
        if cc == 0:
            continue
        r = specmod.diff_values(it, cc, a[0], V(va), 'fault address')
        if r is not None:
            ok = False
            run.violation('C14-D', fi.relpath, fn, 'abort address', 'the abort is reported for a different address than the access')
        r = specmod.diff_values(it, cc, a[4], V(wr), 'iswrite')
        if r is not None:
            ok = False
            run.violation('C14-D', fi.relpath, fn, 'abort direction', 'the abort is reported with the wrong read/write flag')
    # attributes of the winning region
    texc = B.all_or(c for c, a in h.tex)
    d = B.AND(dom, B.XOR(B.AND(texc, dom), B.AND(dom, B.AND(M, found))))
    if d != 0:
        ok = False
        run.violation('C14-R', fi.relpath, fn, 'region attributes', 'DefaultTEXDecode is not applied exactly when a region matches')
    for c, a in h.tex:
        cc = B.AND(B.AND(c, dom), found)
        if cc == 0:
            continue
        r = specmod.diff_values(it, cc, a[0], V(tex), 'texcb')
        if r is not None:
            ok = False
            run.violation('C14-R', fi.relpath, fn, 'winning region attributes',
                          'TEX:C:B of the access is not that of the highest-numbered enabled matching region: %s' % r[0])
        r = specmod.diff_values(it, cc, a[1], V(Int([sbit])), 's')
        if r is not None:
            ok = False
            run.violation('C14-R', fi.relpath, fn, 'winning region S bit', 'S bit not from the winning region')
    # MPU off: no abort, flat map
    off = B.AND(dom, B.NOT(M))
    if B.AND(off, B.all_or(c for c, a in h.aborts)) != 0:
        ok = False
        run.violation('C14-M', fi.relpath, fn, 'MPU off', 'an access aborts although the MPU is disabled')
    # physical address = va on all completing paths
    for c, v, s in res.rets:
        p_ = v.single()
        if isinstance(p_, tuple) and p_[0] == 'obj':
            # find the FullAddress object stored in .paddress
            pa_obj = s.heap.get(p_[1] + '.paddress')
            if pa_obj is not None and pa_obj.single() is not None:
                pa = s.heap.get(pa_obj.single()[1] + '.physicaladdress')
                if pa is not None:
                    r = specmod.diff_values(it, B.AND(c, dom), pa, V(va), 'physical address')
                    if r is not None:
                        ok = False
                        run.violation('C14-M', fi.relpath, fn, 'flat map', 'PMSA physical address is not the virtual address')
    run.instance('C14-R', 'translate_address_p (%d region%s%s)' % (NREG, 's' if NREG > 1 else '', (', sizes 2^%s' % (fixed_lsbits,)) if fixed_lsbits else ', every size'), obligations=8, ok=ok,
                 sample={'function': fn, 'regions': NREG, 'bdd_nodes': B.size(),
                         'atoms': 'va x ispriv x iswrite x DRegion(0..3) x 3 x (DRSR, DRBAR, DRACR) x SCTLR.{M,BR,AFE}'})


def check_loop_shape(run, repo):
    fi = repo.method('ArmV6', 'translate_address_p')
    loops = [n for n in ast.walk(fi.node) if isinstance(n, (ast.For, ast.While))]
    ok = True
    why = ''
    if len(loops) != 1 or not isinstance(loops[0], ast.For):
        ok, why = False, 'expected exactly one for-loop over the regions'
    else:
        lp = loops[0]
        if ast.unparse(lp.iter) != 'range(self.registers.mpuir.dregion)':
            ok, why = False, 'the loop iterates over `%s`, not ascending over range(MPUIR.DRegion)' % ast.unparse(lp.iter)
        for n in ast.walk(lp):
            if isinstance(n, (ast.Break, ast.Continue, ast.Return)):
                ok, why = False, 'the loop contains `%s`: an earlier region could then win over a later one' % type(n).__name__.lower()
        if lp.orelse:
            ok, why = False, 'for/else'
        var = ast.unparse(lp.target)
        # every region register is indexed by the loop variable only
        for n in ast.walk(lp):
            if isinstance(n, ast.Subscript) and ast.unparse(n.value).startswith('self.registers.dr') and ast.unparse(n.slice) != var:
                ok, why = False, 'region registers indexed by `%s`' % ast.unparse(n.slice)
    run.instance('C14-L', 'region loop', ok=ok, sample={'function': fi.qualname})
    if not ok:
        run.violation('C14-L', fi.relpath, fi.qualname, 'region loop shape', why)


def check_abort_bookkeeping(run, repo):
    ci = repo.cls('DAbort')
    members = ci.enum_members()
    nok = 0
    for dt in members:
        m = Machine(repo, stubs={'tlb_lookup_came_from_cache_maintenance': 'event'})
        rm = refmodel.M(m)
        B, it = m.B, m.it
        va = m.sym('ARG.vaddress', 32)
        wr = m.sym('ARG.iswrite', 1)
        args = [va, m.sym('ARG.ipa', 40), m.sym('ARG.domain', 4), m.sym('ARG.level', 2), wr, ('enum', 'DAbort', dt),
                it.const(0), it.const(0), it.const(0), it.const(0), it.const(0)]
        dom = B.AND(B.var('ARCH[2]'), B.NOT(B.var('CFG.memarch_is_vmsa')))
        res, fi = m.run('ArmV6', 'data_abort', args, cond=dom)
        ok = True
        if res.returned != 0:
            ok = False
            run.violation('C14-D', fi.relpath, fi.qualname, 'noreturn', 'data_abort can return normally: the faulting access would '
                          'continue and transfer data')
        raised = [o for o in res.it.outcomes if o.kind == 'raise']
        cov = B.all_or(o.cond for o in raised if o.payload == 'DataAbortException')
        if B.AND(dom, B.NOT(cov)) != 0:
            ok = False
            run.violation('C14-D', fi.relpath, fi.qualname, 'raise', 'data_abort does not raise DataAbortException on every path (%s)' % dt)
        # final state at the raise points
        for o in raised:
            st = o.state
            dfar = st.heap.get(P + 'dfar')
            dfsr = st.heap.get(P + 'dfsr.value')
            cc = B.AND(o.cond, dom)
            if cc == 0:
                continue
            async_ = dt in ('ASYNC_PARITY', 'ASYNC_EXTERNAL', 'ASYNC_WATCHPOINT')
            if dt == 'SYNC_WATCHPOINT' or async_ or dt == 'SYNC_PARITY':
                pass    # DFAR UNKNOWN / implementation defined
            else:
                if dfar is None or specmod.diff_values(it, cc, dfar, V(va), 'dfar') is not None:
                    ok = False
                    run.violation('C14-D', fi.relpath, fi.qualname, 'DFAR (%s)' % dt, 'DFAR is not set to the faulting address')
            if dfsr is None:
                ok = False
                run.violation('C14-D', fi.relpath, fi.qualname, 'DFSR (%s)' % dt, 'DFSR is not written')
                continue
            old = rm.view('dfsr')
            fs = PMSA_FSR.get(dt, 0)
            want = list(it.ext(old, 32))
            for k in range(14):
                want[k] = 0
            want[10] = (fs >> 4) & 1
            for k in range(4):
                want[k] = (fs >> k) & 1
            if dt in ('ASYNC_EXTERNAL', 'SYNC_EXTERNAL'):
                want[12] = m.sym('CFG.dfsr_string_12', 1).bits[0]
            if dt not in ('SYNC_WATCHPOINT', 'ASYNC_WATCHPOINT'):
                want[11] = wr.bits[0]
            r = specmod.diff_values(it, cc, dfsr, V(Int(want)), 'dfsr')
            if r is not None:
                ok = False
                run.violation('C14-D', fi.relpath, fi.qualname, 'DFSR (%s)' % dt,
                              'DFSR after a %s abort differs from the architecture (FS=%s, WnR=write, ExT): %s' % (dt, bin(fs), r[0]))
        nok += 1
        run.instance('C14-D', 'data_abort PMSA %s' % dt, obligations=3, ok=ok, sample={'dtype': dt, 'fs': bin(PMSA_FSR.get(dt, 0))})
    run.floor('abort types', nok, 18)


def main(repo_path, tier, seed, replay=None):
    run = Run('C14', tier, level='other', seed=seed)
    repo = Repo(repo_path)
    import re
    from .. import memo
    memo.check(run, repo, 'C14-MEMO', lambda rel, q: re.search(r'(translate_address|check_permission|mpu|default_memory|alignment_fault|data_abort|mem_a_with_priv)', q) is not None,
               'PMSA address translation, permission checking and abort reporting')
    check_regions(run, repo, 1)
    check_regions(run, repo, 3, fixed_lsbits=(16, 12, 8))
    if tier == 'thorough':
        check_regions(run, repo, 3, fixed_lsbits=(12, 12, 12))
        check_regions(run, repo, 3, fixed_lsbits=(8, 20, 32))
        check_regions(run, repo, 2, fixed_lsbits=(5, 9))
    check_loop_shape(run, repo)
    check_abort_bookkeeping(run, repo)
    # D (continued): the Data Abort entry itself - LR_abt = faulting instruction + 8, SPSR_abt = the interrupted CPSR, mode, masks,
    # vector - is the data-abort row of the exception-entry table (C11-T re-evaluated here)
    from . import c11
    before = len(run.findings)
    c11.compare_entry(run, repo, 'take_data_abort_exception', rule='C14-D')
    run.instance('C14-D', 'take_data_abort_exception entry table', obligations=6, ok=len(run.findings) == before,
                 sample={'function': 'Registers.take_data_abort_exception'})
    # O: a faulting access performs no base-register write-back (the C02-O / C03-O ordering rule)
    from . import c02
    before = len(run.findings)
    n = c02.check_abort_ordering(run, repo, 'C14-O')
    run.instance('C14-O', 'no base write-back before a memory access', obligations=n, ok=len(run.findings) == before,
                 sample={'load/store classes': n})
    run.floor('load/store classes under the ordering rule', n, 67)
    # positive control: break added to the region loop (in memory) must be flagged by C14-L
    fi = repo.method('ArmV6', 'translate_address_p')
    src = fi.module.source
    fired = False
    what = ''
    tree = ast.parse(src)
    for node in ast.walk(tree):
        if isinstance(node, ast.FunctionDef) and node.name == 'translate_address_p':
            for sub in ast.walk(node):
                if isinstance(sub, ast.For):
                    sub.body.append(ast.Break())
                    what = '`break` appended to the region loop body'
                    break
    if what:
        ast.fix_missing_locations(tree)
        mrepo = Repo(repo_path, overrides={fi.module.relpath: ast.unparse(tree)})
        tmp = Run('C14')
        check_loop_shape(tmp, mrepo)
        fired = bool(tmp.findings)
    run.control('C14-L break in region loop', fired, what)
    run.exhaustive = True
    run.undecided = ['the match predicate is decided for every size / base / subregion mask with one region, the combination '
                     'logic (priority, overwrite, background) with three regions of fixed sizes; arbitrary sizes in several '
                     'regions at once and more than three regions follow compositionally from the loop-shape rule (uniform '
                     'body indexed by the loop variable, ascending, no early exit), they are not enumerated',
                     'memory attribute decoding (DefaultTEXDecode) beyond its arguments']
    run.assumptions = ['reference: TranslateAddressP / CheckPermission / DataAbort / EncodePMSAFSR (ARM ARM B5, DESIGN.md A.6)',
                       'UNPREDICTABLE region programming (size field 0, misaligned base, AP=100/111) excluded from the domain']
    return run.finish(
        'PMSA: TranslateAddressP is interpreted with three fully symbolic regions, a symbolic region count, address, privilege, '
        'direction and SCTLR bits; the Background- and Permission-abort state sets and the winning region\'s attributes are '
        'compared with a reference model (BDD equality over ~330 variables, address and base bits interleaved). The loop-shape '
        'rule extends this to any region count. The PMSA arm of DataAbort is checked for every abort type (noreturn, DFAR, DFSR '
        'fields, EncodePMSAFSR). LR_abt / SPSR_abt are C11-T; the no-write-back clause is the event-order rule C14-O over all 67 load/store classes.',
        './check C14 --tier %s' % tier)
