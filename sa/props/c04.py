"""C04 - control flow: PC advance, PC reads, branch targets, link values, interworking.

  C04-I  PC advance mechanism: in emulate_cycle the call that resets changed_registers
         (execute_instruction) precedes increment_pc_if_needed; the only writer of
         changed_registers[15] = True is branch_to; the only writers of the PC slot are
         branch_to and increment_pc; the increment is this_instr_length() // 8 of the length
         fixed by the fetch (16 iff Thumb and hw1[15:11] not in {11101,11110,11111} - C13-F).
  C04-R  PC read: Registers.get(15) is address + 8 in ARM state, + 4 otherwise, modulo 2^32
         (exact table); the raw PC accessor pc_store_value() is used only by the fetch /
         formatting infrastructure - every PC value an instruction *observes or stores* goes
         through get_pc() / get(15).
  C04-W  *_write_pc tables: BranchWritePC / BXWritePC / ALUWritePC / LoadWritePC as exact
         decision tables over (instruction set, arch version, address) against the reference:
         final PC, selected instruction set; derived: the PC is always halfword aligned in
         Thumb state and word aligned in ARM state; branch_to is called only from the four
         *_write_pc, exception entry, reset and NullCheckIfThumbEE.
  C04-B  branch templates: B, BL/BLX (immediate), BLX (register), BX, CBZ/CBNZ, TBB/TBH as
         normalised effect terms (target, link value incl. bit 0 from Thumb, Align(PC,4) for
         ARM targets, select_instr_set before the branch, the right *_write_pc).
  C04-O  offset assembly (sign extension, scale, bit order of imm8/imm11/imm24/S:J1:J2:...):
         the reference wiring of C06/C07 restricted to the branch encodings.
  C04-X  widths of targets and link values (C10-W on the branch classes).
"""
import ast

from .. import refmodel, spec as specmod, decode
from ..bdd import BDD
from ..binding import Binding
from ..bitdom import Int, V, Value
from ..effects import Effects, _SelfWalker
from ..fields import FieldRanges
from ..flow import split_writes, stale_reads, Walker, guard_has, fmt, exclusive
from ..machine import Machine, compare_final, describe_witness
from ..ranges import FuncAnalyzer
from ..refmodel import P
from ..report import Run, AnalysisError
from ..srcmodel import Repo, norm_stmt
from . import c10, decode_check
from .c01 import norm
from .c05 import effect_events, is_condition_passed

BRANCH_ENCODINGS = ['BA1', 'BT1', 'BT2', 'BT3', 'BT4', 'BlBlxImmediateA1', 'BlBlxImmediateA2', 'BlBlxImmediateT1',
                    'BlBlxImmediateT2', 'BlxRegisterA1', 'BlxRegisterT1', 'BxA1', 'BxT1', 'BxjA1', 'BxjT1', 'CbzT1', 'TbbTbhT1']
PC = ('pc',)


def c(v):
    return ('const', v)


def check_advance(run, repo, eff):
    fi = repo.method('ArmV6', 'emulate_cycle')
    tr = _SelfWalker(repo, 'ArmV6', []).walk(fi, repo.cls('ArmV6'))
    ex = [e for e in tr.events if e.kind == 'ProcCall' and e.d['method'] == 'execute_instruction']
    inc = [e for e in tr.events if e.kind == 'ProcCall' and e.d['method'] == 'increment_pc_if_needed']
    ok = True
    if len(ex) != 1 or len(inc) != 1 or ex[0].idx > inc[0].idx or exclusive(ex[0], inc[0]):
        ok = False
        run.violation('C04-I', fi.relpath, fi.qualname, 'execute before increment',
                      'emulate_cycle must call execute_instruction (which resets the changed-register flags) and then '
                      'increment_pc_if_needed, once each, on the same path')
    # execute_instruction resets changed_registers before executing
    ei = repo.method('ArmV6', 'execute_instruction')
    tr2 = _SelfWalker(repo, 'ArmV6', []).walk(ei, repo.cls('ArmV6'))
    resets = [e for e in tr2.events if e.kind == 'SysWrite' and e.d['path'] == 'changed_registers']
    execs = [e for e in tr2.events if e.kind == 'ObjCall' and e.d['method'] == 'execute']
    if not resets or not execs or min(e.idx for e in resets) > min(e.idx for e in execs) or any(e.guards for e in resets):
        ok = False
        run.violation('C04-I', ei.relpath, ei.qualname, 'changed flags reset',
                      'execute_instruction must reset registers.changed_registers unconditionally before executing the opcode '
                      '(a stale PC-changed flag would suppress the PC advance of the next instruction)')
    # increment_pc_if_needed: advance iff PC not changed, by this_instr_length() // 8
    ip = repo.method('ArmV6', 'increment_pc_if_needed')
    src = ast.unparse(ip.node)
    want_guard = 'if not self.registers.changed_registers[15]:'
    want_call = 'self.registers.increment_pc(self.this_instr_length() // 8)'
    tr3 = _SelfWalker(repo, 'ArmV6', []).walk(ip, repo.cls('ArmV6'))
    calls = [e for e in tr3.events if e.kind == 'ProcCall' and e.d['method'] == 'increment_pc']
    good = len(calls) == 1 and calls[0].d['args'] == [('op', 'FloorDiv', ('pcall', 'this_instr_length', ()), c(8))] and \
        guard_has(calls[0].guards, lambda t: t == ('index', ('sys', 'changed_registers'), c(15)) or
                  t == ('proj', ('sys', 'changed_registers'), 15), False)
    if not good:
        ok = False
        run.violation('C04-I', ip.relpath, ip.qualname, 'increment rule',
                      'the PC must advance by this_instr_length() // 8 exactly when the instruction did not write the PC '
                      '(changed_registers[15] false)')
    # writers of changed_registers[15] and of the PC slot
    regs = repo.cls('Registers')
    for name, m in regs.methods.items():
        for node in ast.walk(m.node):
            if isinstance(node, ast.Assign):
                for t in node.targets:
                    s = ast.unparse(t)
                    if s == 'self._R[RName.PC]' and name not in ('branch_to', 'increment_pc'):
                        ok = False
                        run.violation('C04-I', regs.relpath, m.qualname, 'PC slot writer', 'writes the PC slot; only branch_to and '
                                      'increment_pc may')
                    if s == 'self.changed_registers[15]' and name != 'branch_to':
                        ok = False
                        run.violation('C04-I', regs.relpath, m.qualname, 'PC-changed flag writer', 'sets changed_registers[15]; only '
                                      'branch_to may')
    bt = regs.methods.get('branch_to')
    if bt is None or 'self.changed_registers[15] = True' not in ast.unparse(bt.node) or 'self._R[RName.PC] = address' not in ast.unparse(bt.node):
        ok = False
        run.violation('C04-I', regs.relpath, 'Registers.branch_to', 'branch_to shape', 'branch_to must set the PC-changed flag and '
                      'store the address')
    # this_instr_length returns the fetched length
    til = repo.method('ArmV6', 'this_instr_length')
    if 'return self.opcode_len' not in ast.unparse(til.node):
        ok = False
        run.violation('C04-I', til.relpath, til.qualname, 'instruction length', 'this_instr_length must return the fetched length')
    run.instance('C04-I', 'PC advance mechanism', obligations=6, ok=ok, sample={'functions': ['emulate_cycle', 'execute_instruction',
                                                                                                  'increment_pc_if_needed', 'branch_to']})
    # increment_pc itself: PC := PC + length mod 2^32
    m = Machine(repo)
    rm = refmodel.M(m)
    ln = m.sym('ARG.len', 3)
    res, fi2 = m.run('Registers', 'increment_pc', [ln])
    key = P + '_R[RName.PC]'
    okk, nob, keys = compare_final(run, 'C04-I', fi2, m, res, {key: rm.add32(rm.R('PC'), ln)}, {key: rm.R('PC')},
                                   m.B.var('ARCH[2]'), label='increment_pc')
    run.instance('C04-I', 'increment_pc', obligations=1, ok=okk, sample={'function': fi2.qualname})


def check_pc_read(run, repo):
    m = Machine(repo)
    rm = refmodel.M(m)
    res, fi = m.run('Registers', 'get', [m.it.const(15)])
    dom = m.B.AND(m.B.var('ARCH[2]'), rm.valid_state())
    r = specmod.diff_values(m.it, dom, res.value, V(rm.pc_value()), 'R15')
    run.instance('C04-R', 'get(15)', obligations=2, ok=(r is None and not res.heap), sample={'function': fi.qualname,
                                                                                            'table': 'ARM +8, otherwise +4, mod 2^32'})
    if r is not None:
        run.violation('C04-R', fi.relpath, fi.qualname, 'PC read offset',
                      'reading R15 must give the instruction address + 8 in ARM state and + 4 otherwise (mod 2^32): %s' % r[0])
    # raw accessor ownership
    allowed = {'fetch_instruction', 'format_registers', 'pc_store_value'}
    n = 0
    for mod in repo.modules.values():
        for fn in [x for x in ast.walk(mod.tree) if isinstance(x, ast.FunctionDef)]:
            for node in ast.walk(fn):
                if isinstance(node, ast.Call) and isinstance(node.func, ast.Attribute) and node.func.attr == 'pc_store_value':
                    n += 1
                    ok = fn.name in allowed
                    cls = None
                    for ci in mod.classes.values():
                        if any(x is fn for x in ast.walk(ci.node)):
                            cls = ci.name
                    run.instance('C04-R', '%s.%s pc_store_value' % (cls, fn.name), ok=ok, sample={'caller': '%s.%s' % (cls, fn.name)})
                    if not ok:
                        run.violation('C04-R', mod.relpath, '%s.%s' % (cls, fn.name), 'raw PC read',
                                      '%s reads the raw instruction address through pc_store_value(); the value an instruction '
                                      'observes or stores for the PC is address + 8 (ARM) / + 4 (Thumb), i.e. get_pc()' % (cls or fn.name))
    for mod in repo.modules.values():
        if mod.name.endswith('registers'):
            continue
        for node in ast.walk(mod.tree):
            if isinstance(node, ast.Attribute) and node.attr == '_R':
                run.violation('C04-R', mod.relpath, '<module>', norm_stmt(node, 60), 'raw register file access outside Registers')


def ref_write_pc(rm, kind, addr):
    """Reference final (PC, CPSR) of the four *_write_pc functions; returns (final dict, init dict, unknown cond)."""
    m = rm
    B = m.B
    it = m.it
    cp = m.cpsr()
    J, T = cp.bits[24], cp.bits[5]
    arm = B.AND(B.NOT(J), B.NOT(T))
    thumb = B.AND(B.NOT(J), T)
    jaz = B.AND(J, B.NOT(T))
    tee = B.AND(J, T)
    arch = m.m.sym('ARCH', 3)
    ge = lambda k: B.NOT(it.i_lt(arch, it.const(k)))
    a = list(it.ext(addr, 32))
    w_arm = Int([0, 0] + a[2:])
    w_thumb = Int([0] + a[1:])
    jacc = m.cfg('jazelle_accepts_execution')

    def branch_write():
        pc = it.i_ite(arm, w_arm, it.i_ite(jaz, it.i_ite(jacc, Int(a), w_arm), w_thumb))
        unk = B.all_and([arm, B.NOT(ge(6)), B.OR(a[0], a[1])])
        return pc, cp, unk, 1

    def bx_write():
        # ThumbEE: bit0 must be 1; else by bit 0 / bit 1
        to_thumb = a[0]
        to_arm = B.AND(B.NOT(a[0]), B.NOT(a[1]))
        unk = B.OR(B.AND(tee, B.NOT(a[0])), B.AND(B.NOT(tee), B.AND(B.NOT(a[0]), a[1])))
        pc = it.i_ite(tee, w_thumb, it.i_ite(to_thumb, w_thumb, Int(a)))
        ncp = cp
        # select_instr_set(Thumb): J=0,T=1 ; (ARM): J=0,T=0 (UNPREDICTABLE from ThumbEE - not reachable here: tee handled above)
        t_cp = m.setb(m.setb(cp, 24, 0), 5, 1)
        a_cp = m.setb(m.setb(cp, 24, 0), 5, 0)
        ncp = it.i_ite(tee, cp, it.i_ite(to_thumb, t_cp, a_cp))
        return pc, ncp, unk, 1
    if kind == 'branch_write_pc':
        pc, ncp, unk, dom = branch_write()
    elif kind == 'bx_write_pc':
        pc, ncp, unk, dom = bx_write()
    else:
        sel = ge(5) if kind == 'load_write_pc' else B.AND(ge(7), arm)
        p1, c1, u1, _ = bx_write()
        p2, c2, u2, _ = branch_write()
        pc = it.i_ite(sel, p1, p2)
        ncp = it.i_ite(sel, c1, c2)
        unk = B.ite(sel, u1, u2)
    return pc, ncp, unk


def check_write_pc(run, repo):
    for kind in ('branch_write_pc', 'bx_write_pc', 'alu_write_pc', 'load_write_pc'):
        m = Machine(repo)
        rm = refmodel.M(m)
        B = m.B
        addr = m.sym('ARG.address', 32)
        res, fi = m.run('ArmV6', kind, [addr])
        pc, ncp, unk = ref_write_pc(rm, kind, addr)
        dom = B.all_and([B.var('ARCH[2]'), rm.valid_state(), B.NOT(unk)])
        kpc, kcp = P + '_R[RName.PC]', P + 'cpsr.value'
        ok, nob, keys = compare_final(run, 'C04-W', fi, m, res, {kpc: pc, kcp: ncp}, {kpc: rm.R('PC'), kcp: rm.cpsr()}, dom,
                                      ignore_prefix=(P + 'changed_registers',), label=kind, words=('ARG.address',))
        # derived alignment invariant on the tree's own result
        fpc = res.heap.get(kpc)
        fcp = res.heap.get(kcp, V(rm.cpsr()))
        if fpc is not None:
            pcv = m.it.as_int(fpc, dom, 'pc')
            cpv = m.it.as_int(fcp, dom, 'cpsr')
            b = m.it.ext(pcv, 32)
            cb = m.it.ext(cpv, 32)
            written = B.AND(dom, res.returned)
            jz = B.AND(cb[24], B.NOT(cb[5]))
            bad0 = B.all_and([written, b[0], B.NOT(jz)])
            arm_after = B.AND(B.NOT(cb[24]), B.NOT(cb[5]))
            bad1 = B.all_and([written, arm_after, b[1]])
            # exclude paths that did not branch at all (unpredictable prints): PC unchanged there
            if bad0 != 0 and specmod.diff_values(m.it, bad0, fpc, V(rm.R('PC')), 'x') is not None:
                ok = False
                run.violation('C04-W', fi.relpath, fi.qualname, 'halfword alignment', '%s can leave bit 0 of the PC set' % kind)
            if bad1 != 0 and specmod.diff_values(m.it, bad1, fpc, V(rm.R('PC')), 'x') is not None:
                ok = False
                run.violation('C04-W', fi.relpath, fi.qualname, 'word alignment', '%s can leave the PC not word aligned in ARM state' % kind)
        run.instance('C04-W', kind, obligations=nob + 2, ok=ok,
                     sample={'function': fi.qualname, 'inputs': 'address[31:0] x instruction set x ARCH 4..7 x jazelle'})
    # who may call branch_to
    eff = Effects(repo)
    allowed = {('ArmV6', 'branch_write_pc'), ('ArmV6', 'bx_write_pc'), ('ArmV6', 'take_reset'), ('Registers', 'enter_hyp_mode'),
               ('Registers', 'enter_monitor_mode')} | {('Registers', n) for n in refmodel.ENTRY_MODELS}
    for key, s in eff.direct.items():
        if ('Registers', 'branch_to') in s.calls and key not in allowed:
            fi = repo.cls(key[0]).find_method(key[1])
            run.violation('C04-W', fi.relpath, '%s.%s' % key, 'branch_to caller',
                          '%s.%s calls branch_to directly; PC writes must go through BranchWritePC / BXWritePC (alignment and '
                          'interworking rules) or exception entry' % key)
    for ci in repo.abstract_opcode_classes():
        ex = ci.methods.get('execute')
        if ex is None:
            continue
        tr = Walker(repo, eff).walk(ex, ci)
        if tr.of('BranchTo'):
            run.violation('C04-W', ci.relpath, ci.name + '.execute', 'branch_to in opcode', '%s calls branch_to directly' % ci.name)


# ---------------------------------------------------------------------------
# branch templates
# ---------------------------------------------------------------------------
def add32(a, b):
    return ('call', 'add', (a, b, c(32)))


def sub32(a, b):
    return ('call', 'sub', (a, b, c(32)))


def is_arm_state(t):
    return t == ('cmp', 'Eq', ('rcall', 'current_instr_set', ()), ('enum', 'InstrSet', 'ARM'))


def check_templates(run, repo, eff, bind):
    classes = bind.abstract_classes_of(BRANCH_ENCODINGS)
    if len(classes) < 7:
        raise AnalysisError('branch opcodes: only %d classes bound' % len(classes))

    def T(name):
        ci = None
        for enc in BRANCH_ENCODINGS:
            a = bind.abstract_of_encoding(enc)
            if a is not None and enc.startswith(name):
                ci = a
                break
        if ci is None:
            raise AnalysisError('branch encoding %s* not bound' % name)
        return ci, Walker(repo, eff).walk(ci.methods['execute'], ci)

    def viol(ci, construct, msg):
        run.violation('C04-B', ci.relpath, ci.name + '.execute', construct, msg)

    # ---- B ----
    ci, tr = T('BA1')
    br = tr.of('Branch')
    ok = len(br) == 1 and br[0].d['kind'] == 'branch' and norm(br[0].d['target']) == add32(PC, ('field', 'imm32')) \
        and len(effect_events(tr)) == 1
    run.instance('C04-B', ci.name, ok=ok, sample={'class': ci.name, 'template': 'BranchWritePC(PC + imm32)'})
    if not ok:
        viol(ci, 'B template', 'B must be exactly BranchWritePC(PC + imm32 mod 2^32); found %s' % [(e.kind, fmt(e.d.get('target', c(0)))) for e in effect_events(tr)])
    # ---- BL / BLX immediate ----
    ci, tr = T('BlBlxImmediate')
    ok = True
    lrs = split_writes([e for e in tr.of('RegWrite') if e.d['idx'] == c(14)])
    arm_lr = [e for e in lrs if guard_has(e.guards, is_arm_state, True)]
    th_lr = [e for e in lrs if guard_has(e.guards, is_arm_state, False)]
    if len(arm_lr) != 1 or norm(arm_lr[0].d['value']) != sub32(PC, c(4)):
        ok = False
        viol(ci, 'LR (ARM)', 'BL/BLX from ARM state must set LR = PC - 4')
    if len(th_lr) != 1 or norm(th_lr[0].d['value']) not in (('op', 'BitOr', c(1), PC), ('op', 'BitOr', PC, c(1)),
                                                             ('call', 'set_bit_at', (PC, c(0), c(1)))):
        ok = False
        viol(ci, 'LR (Thumb)', 'BL/BLX from Thumb state must set LR = PC with bit 0 set')
    br = tr.of('Branch')
    sel = tr.of('SelectISet')
    tgt_arm = ('cmp', 'Eq', ('field', 'target_instr_set'), ('enum', 'InstrSet', 'ARM'))
    want = ('ite', tgt_arm, add32(('call', 'align', (PC, c(4))), ('field', 'imm32')), add32(PC, ('field', 'imm32')))
    want_phi = ('phi', tgt_arm, want[2], want[3])
    if len(br) != 1 or br[0].d['kind'] != 'branch' or norm(br[0].d['target']) not in (want, want_phi):
        ok = False
        viol(ci, 'target', 'BL/BLX target must be Align(PC,4) + imm32 for an ARM target and PC + imm32 for a Thumb target, through '
             'BranchWritePC; found %s' % ([fmt(e.d['target'])[:140] for e in br]))
    if len(sel) != 1 or sel[0].d['iset'] != ('field', 'target_instr_set') or (br and sel[0].idx > br[0].idx):
        ok = False
        viol(ci, 'instruction set', 'SelectInstrSet(targetInstrSet) must precede the branch (the target is aligned by the rules of '
             'the *new* instruction set)')
    if len(effect_events(tr)) != 4:
        ok = False
        viol(ci, 'frame', 'BL/BLX has effects besides LR, instruction set and PC')
    run.instance('C04-B', ci.name, obligations=5, ok=ok, sample={'class': ci.name})
    # ---- BLX register ----
    ci, tr = T('BlxRegister')
    ok = True
    lrs = split_writes([e for e in tr.of('RegWrite') if e.d['idx'] == c(14)])
    arm_lr = [e for e in lrs if guard_has(e.guards, is_arm_state, True)]
    th_lr = [e for e in lrs if guard_has(e.guards, is_arm_state, False)]
    if len(arm_lr) != 1 or norm(arm_lr[0].d['value']) != sub32(PC, c(4)):
        ok = False
        viol(ci, 'LR (ARM)', 'BLX (register) from ARM state must set LR = PC - 4 (mod 2^32)')
    t_ok = len(th_lr) == 1 and norm(th_lr[0].d['value']) in (
        ('call', 'set_bit_at', (sub32(PC, c(2)), c(0), c(1))), ('op', 'BitOr', c(1), sub32(PC, c(2))), ('op', 'BitOr', sub32(PC, c(2)), c(1)))
    if not t_ok:
        ok = False
        viol(ci, 'LR (Thumb)', 'BLX (register) from Thumb state must set LR = (PC - 2) with bit 0 set')
    br = tr.of('Branch')
    if len(br) != 1 or br[0].d['kind'] != 'bx' or norm(br[0].d['target']) != ('reg', ('field', 'm')):
        ok = False
        viol(ci, 'target', 'BLX (register) must be BXWritePC(R[m])')
    # the target is read before LR is written (Rm == LR)
    run.instance('C04-B', ci.name, obligations=3, ok=ok, sample={'class': ci.name})
    # ---- BX ----
    ci, tr = T('BxA1')
    br = tr.of('Branch')
    ok = len(br) == 1 and br[0].d['kind'] == 'bx' and norm(br[0].d['target']) == ('reg', ('field', 'm')) and len(effect_events(tr)) == 1
    run.instance('C04-B', ci.name, ok=ok, sample={'class': ci.name})
    if not ok:
        viol(ci, 'BX template', 'BX must be exactly BXWritePC(R[m])')
    # ---- CBZ ----
    ci, tr = T('CbzT1')
    br = tr.of('Branch')
    ok = len(br) == 1 and br[0].d['kind'] == 'branch' and norm(br[0].d['target']) == add32(PC, ('field', 'imm32')) and len(effect_events(tr)) == 1
    if ok:
        g = br[0].guards
        want_g = ('op', 'BitXor', ('field', 'nonzero'), ('builtin', 'int', (('cmp', 'Eq', ('reg', ('field', 'n')), c(0)),)))
        alt = ('op', 'BitXor', ('field', 'nonzero'), ('cmp', 'Eq', ('reg', ('field', 'n')), c(0)))
        ok = len(g) == 1 and g[0][1] is True and g[0][0] in (want_g, alt)
    run.instance('C04-B', ci.name, ok=ok, sample={'class': ci.name, 'template': 'if nonzero xor (R[n] == 0): BranchWritePC(PC + imm32)'})
    if not ok:
        viol(ci, 'CBZ template', 'CBZ/CBNZ must branch to PC + imm32 exactly when nonzero XOR (R[n] == 0)')
    # ---- TBB/TBH ----
    ci, tr = T('TbbTbh')
    ok = True
    rd = tr.of('MemRead')
    br = tr.of('Branch')
    rn, rmm = ('reg', ('field', 'n')), ('reg', ('field', 'm'))
    h = [e for e in rd if guard_has(e.guards, lambda t: t == ('field', 'is_tbh'), True)]
    b = [e for e in rd if guard_has(e.guards, lambda t: t == ('field', 'is_tbh'), False)]
    if len(h) != 1 or h[0].d['size'] != c(2) or norm(h[0].d['addr']) != add32(rn, ('call', 'lsl', (rmm, c(32), c(1)))):
        ok = False
        viol(ci, 'TBH entry', 'TBH must read a halfword at R[n] + LSL(R[m], 1)')
    if len(b) != 1 or b[0].d['size'] != c(1) or norm(b[0].d['addr']) != add32(rn, rmm):
        ok = False
        viol(ci, 'TBB entry', 'TBB must read a byte at R[n] + R[m]')
    if len(br) != 1 or br[0].d['kind'] != 'branch':
        ok = False
        viol(ci, 'branch', 'TBB/TBH must end in one BranchWritePC')
    else:
        t = norm(br[0].d['target'])
        good = t[0] == 'call' and t[1] == 'add' and t[2][0] == PC and t[2][1][0] == 'op' and t[2][1][1] == 'Mult' and c(2) in t[2][1][2:]
        if not good:
            ok = False
            viol(ci, 'target', 'TBB/TBH target must be PC + 2 * entry; found %s' % fmt(br[0].d['target'])[:120])
    run.instance('C04-B', ci.name, obligations=3, ok=ok, sample={'class': ci.name})
    # every branch class: guard + frame (no flags)
    for name, ci in sorted(classes.items()):
        tr = Walker(repo, eff).walk(ci.methods['execute'], ci)
        for e in effect_events(tr):
            if e.kind == 'FlagWrite':
                viol(ci, 'flag write', 'a branch instruction writes CPSR.%s' % e.d['flag'])
        for e, w in stale_reads(tr)[:1]:
            viol(ci, 'read of R[%s] after write of R[%s]' % (fmt(e.d['idx']), fmt(w.d['idx'])),
                 'the operand register is read after R[%s] was written (`%s`): when the two coincide (e.g. BLX lr) the branch uses the '
                 'new value' % (fmt(w.d['idx']), w.text()[:60]))


def check_offsets(run, repo, bind):
    """C04-O: the reference wiring of imm32 for the branch encodings (C06/C07 rule A2 restricted)."""
    sub = Run('tmp')
    B = BDD()
    encs = set(BRANCH_ENCODINGS)
    for root in ('ARM', 'T16', 'T32'):
        only = {bind.enc2cls[e] for e in encs if bind.enc_root.get(e) == root and e in bind.enc2cls}
        decode_check.check_root(sub, repo, root, B, 'C04', only=only, quiet=True)
    n = 0
    for f in sub.findings:
        if f.func.split('.')[0] in {bind.enc2cls.get(e) for e in encs} and f.rule.endswith(('-A2', '-A3')):
            n += 1
            run.violation('C04-O', f.file, f.func, f.construct, f.message, f.detail)
    run.instance('C04-O', 'branch offset wiring', obligations=len(encs), ok=(n == 0),
                 sample={'encodings': sorted(encs)[:8], 'rule': 'imm32 = SignExtend(...) wiring equals spec/enc_*.json'})


def main(repo_path, tier, seed, replay=None):
    run = Run('C04', tier, level='other', seed=seed)
    repo = Repo(repo_path)
    eff = Effects(repo)
    bind = Binding(repo)
    check_advance(run, repo, eff)
    check_pc_read(run, repo)
    check_write_pc(run, repo)
    check_templates(run, repo, eff, bind)
    check_offsets(run, repo, bind)
    fa = FuncAnalyzer(repo)
    fr = FieldRanges(repo, fa)
    names = set(bind.abstract_classes_of(BRANCH_ENCODINGS))
    sub = Run('tmp')
    c10.check_widths(sub, repo, eff, fr, fa, rule='C04-X', select=None)
    for f in sub.findings:
        if f.func.split('.')[0] in names or f.func.split(' ')[0] in ('ArmV6.branch_write_pc', 'ArmV6.bx_write_pc', 'ArmV6.alu_write_pc',
                                                                    'ArmV6.load_write_pc', 'Registers.branch_to', 'Registers.increment_pc'):
            run.violation('C04-X', f.file, f.func, f.construct, f.message, f.detail)
    run.instance('C04-X', 'branch target / link widths', obligations=len(names), ok=True, sample={'classes': sorted(names)})
    # positive control: BL link value without bit 0 from Thumb (in memory)
    ci = bind.abstract_of_encoding('BlBlxImmediateT1')
    fired = False
    what = ''
    if ci is not None and 'processor.registers.get_pc() | 0b1' in ci.module.source:
        mrepo = Repo(repo_path, overrides={ci.module.relpath: ci.module.source.replace('processor.registers.get_pc() | 0b1',
                                                                                       'processor.registers.get_pc()', 1)})
        tmp = Run('C04')
        check_templates(tmp, mrepo, eff, Binding(mrepo))
        fired = bool(tmp.findings)
        what = 'BL from Thumb: LR without bit 0'
    run.control('C04-B link value without Thumb bit', fired, what)
    run.exhaustive = True
    run.undecided = ['alignment of exception vectors when VBAR / HVBAR / MVBAR hold non-reserved low bits', 'traces of multi-instruction programs']
    run.assumptions = ['reference: BranchWritePC / BXWritePC / ALUWritePC / LoadWritePC / PC read (ARM ARM A2.3, DESIGN.md A.7)',
                       'offset wiring reference: spec/enc_*.json']
    return run.finish(
        'C04: the PC-advance mechanism by ordering / ownership rules; the PC read and the four PC-write functions as exact tables '
        'against the reference for every address, instruction-set state and architecture version, with the alignment invariant '
        'derived on the tree\'s own result; every branch opcode against its normalised effect template (target, link value, '
        'instruction-set selection, which PC-write function); branch-offset assembly against the reference wiring; widths.',
        './check C04 --tier %s' % tier)
