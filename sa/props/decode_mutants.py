"""Thorough tier of C06 / C07: sensitivity self-test of the decode comparison.

For every concrete encoding class of the root(s) one operand-wiring mutant (first multi-bit
``substring(instr, hi, lo)`` narrowed by one bit) and, for every decoder module, constant-flip
mutants of compared constants are built *in memory* (the tree on disk is never touched) and
the comparison is re-run on the mutated model.  A surviving mutant is reported in the evidence
(`survivors`): it is a note about the checker's sensitivity (the narrowed bit may be one the
architecture fixes, which makes the mutant equivalent), never a property violation.
"""
import os
import time

from .. import decode
from ..bdd import BDD
from ..report import Run, AnalysisError
from ..srcmodel import Repo

_CTX = {}


def _one(job):
    kind, root, target, index = job
    from . import decode_check
    repo_path, prop = _CTX['repo_path'], _CTX['prop']
    base = _CTX['base']
    if kind == 'wiring':
        ci = base.cls(target)
        m = decode_check.mutate_source(ci.module.source, 'slice_hi', index)
        if m is None:
            return job, None, ''
        relpath, only = ci.module.relpath, {target}
    else:
        dm = base.module(target)
        m = decode_check.mutate_source(dm.source, 'const_cmp', index)
        if m is None:
            return job, None, ''
        relpath, only = dm.relpath, None
    mrepo = Repo(repo_path, overrides={relpath: m[0]})
    tmp = Run(prop)
    killed = False
    try:
        decode_check.check_root(tmp, mrepo, root, BDD(), prop, only=only, quiet=True)
    except AnalysisError:
        killed = True
    if tmp.findings:
        killed = True
    return job, killed, m[1]


def selftest(run, repo_path, prop, roots):
    import multiprocessing as mp
    base = Repo(repo_path)
    _CTX.update(repo_path=repo_path, prop=prop, base=base)
    jobs = []
    for root in roots:
        part = decode.partition(base, root, BDD())
        for cname in sorted(part.classes):
            jobs.append(('wiring', root, cname, 0))
        mods = sorted({f.module.name for a in part.arms.values() for f in [a[3]] if f is not None})
        for mod in mods:
            for idx in range(3):
                jobs.append(('selection', root, mod, idx))
    t = time.time()
    n = min(16, os.cpu_count() or 1)
    with mp.get_context('fork').Pool(n) as pool:
        results = pool.map(_one, jobs, chunksize=4)
    killed = [r for r in results if r[1] is True]
    survived = [r for r in results if r[1] is False]
    built = len(killed) + len(survived)
    run.extra['selftest'] = {'mutants': built, 'killed': len(killed), 'seconds': round(time.time() - t, 1),
                             'survivors': [{'kind': j[0], 'root': j[1], 'target': j[2], 'mutation': d} for j, k, d in survived][:60]}
    run.instance('%s-selftest' % prop, 'in-memory decode mutants (%s)' % '/'.join(roots), obligations=built, ok=True, nontrivial=True,
                 sample={'mutants': built, 'killed': len(killed), 'survived': len(survived)})
    run.floor('%s self-test kill rate (percent)' % prop, int(100 * len(killed) / max(1, built)), 85)
