"""C03 - block transfers, PUSH/POP, user-bank and exception-return LDM/STM, SRS/RFE.

The 18 classes are bound through the reference encodings; the family (direction, addressing
mode, bank, stack) is read off the encoding mnemonic.  Each execute() body is reduced to its
effect trace (one bounded `for` loop with loop-carried variables) and compared with the
architecture's pseudocode shape:

  C03-L  loop shape: one loop `for i in range(15)` (ascending, step 1, no break/continue);
         every access in it is under bit_at(self.registers, i), at the loop-carried `address`,
         4 bytes; it transfers register i (user-bank forms Rmode[i, 0b10000]); `address`
         advances by exactly add(address, 4, 32) inside the bit test and nowhere else; the PC
         slot (bit 15) is handled after the loop at the then-current address (LDM:
         load_write_pc / exception return: branch_write_pc of that word; STM: stores the PC).
  C03-S  start address and written-back value, as linear forms mod 2^32 over the base
         register, K = BitCount(registers<14:0>) and P = registers<15> (P fixed by the decode
         model where the encoding fixes it), for every assignment of increment / word_higher /
         wback: IA Rn | Rn+4(K+P); IB Rn+4 | same; DA Rn-4(K+P)+4 | Rn-4(K+P); DB Rn-4(K+P)
         | same; PUSH SP-4(K+P) | same; POP SP | SP+4(K+P); user-bank: (inc ? Rn : Rn-4(K+P))
         [+4 if word_higher], no write-back; exception return: length 4K+4; SRS/RFE: +-8.
         "PUSH then POP restores SP" follows from the two rows and the shared loop shape.
  C03-B  write-back guards: only under wback; loads write back only when the base is not in
         the list (UNKNOWN otherwise); stores put UNKNOWN only for a base that is in the list,
         written back and not the lowest register.
  C03-O  no base write-back before a memory access; a load class does not read the base
         after the loop unless the base is not in the list.
  C03-F  frame, C03-G guard, C03-W widths.
Not decided: memory contents after a transfer for a concrete list (a run-time quantity); what
MemA does (C13).
"""
import ast
import itertools
import re

from ..binding import Binding
from ..effects import Effects
from ..fields import FieldRanges
from ..flow import Walker, guard_has, fmt, subterms, exclusive
from ..ranges import FuncAnalyzer
from ..report import Run, AnalysisError
from ..srcmodel import Repo
from . import c10
from .c01 import init_fields
from .c02 import norm, pe, pe_cond, live, const
from .c05 import effect_events, is_condition_passed

MN = re.compile(r'^(Ldm|Stm|Push|Pop|Srs|Rfe)(da|db|ib)?(ExceptionReturn|UserRegisters)?(Arm|Thumb)?(A\d|T\d)$')
BOOLS = ('increment', 'word_higher', 'wback', 'unaligned_allowed')
M32 = 1 << 32


class Family:
    def __init__(self, m):
        op, mode, special = m.group(1), m.group(2), m.group(3)
        self.op = op
        self.load = op in ('Ldm', 'Pop', 'Rfe')
        self.mode = {'da': 'DA', 'db': 'DB', 'ib': 'IB'}.get(mode, 'IA')
        self.special = special
        self.stack = op in ('Push', 'Pop')
        self.key = (op, self.mode, special)

    def describe(self):
        return '%s%s%s' % (self.op.upper(), '' if self.op in ('Push', 'Pop', 'Srs', 'Rfe') else self.mode,
                           ' (%s)' % self.special if self.special else '')


def bt_classes(repo, bind):
    out = {}
    for enc in bind.enc2cls:
        m = MN.match(enc)
        if not m:
            continue
        a = bind.abstract_of_encoding(enc)
        if a is None:
            continue
        out.setdefault(a.name, (a, [], set()))
        out[a.name][1].append(Family(m))
        out[a.name][2].add(enc)
    return out


# ---------------------------------------------------------------------------
# linear forms mod 2^32
# ---------------------------------------------------------------------------
REGS = ('field', 'registers')


def is_bit_test(t, lid=None):
    """bit_at(self.registers, <loop variable of range(15)>)"""
    t = norm(t)
    if t[0] == 'call' and t[1] == 'bit_at' and t[2][0] == REGS:
        v = t[2][1]
        if v[0] == 'loopvar' and v[3] == ('builtin', 'range', (const(15),)) and (lid is None or v[2] == lid):
            return True
    return False


def counter_update(upd, name, lid, step):
    """update == phi(bit_at(registers, i), carried (+) step, carried)"""
    upd = norm(upd)
    if upd[0] != 'ite' or not is_bit_test(upd[1], lid):
        return False
    car = upd[3]
    if not (car[0] == 'loopcarried' and car[1] == name and car[2] == lid):
        return False
    inc = upd[2]
    if inc == ('call', 'add', (car, const(step), const(32))):
        return 'wrapped'
    if inc in (('op', 'Add', car, const(step)), ('op', 'Add', const(step), car)):
        return 'plain'
    return False


def ladd(a, b, k=1):
    out = dict(a)
    for s, c in b.items():
        out[s] = (out.get(s, 0) + k * c) % M32
    return {s: c for s, c in out.items() if c}


def lin(t, unwrapped=None):
    """Linear form {symbol: coefficient} (key 1 = constant) of an address-like term."""
    t = norm(t)
    k = t[0]
    if k == 'const' and isinstance(t[1], int) and not isinstance(t[1], bool):
        return {1: t[1] % M32} if t[1] % M32 else {}
    if k == 'call' and t[1] in ('add', 'sub') and len(t[2]) == 3 and t[2][2] == const(32):
        return ladd(lin(t[2][0], unwrapped), lin(t[2][1], unwrapped), 1 if t[1] == 'add' else -1)
    if k == 'op' and t[1] in ('Add', 'Sub'):
        if unwrapped is not None:
            unwrapped.append(t)
        return ladd(lin(t[2], unwrapped), lin(t[3], unwrapped), 1 if t[1] == 'Add' else -1)
    if k == 'op' and t[1] == 'Mult':
        for a, b in ((t[2], t[3]), (t[3], t[2])):
            if a[0] == 'const' and isinstance(a[1], int):
                return {s: (c * a[1]) % M32 for s, c in lin(b, unwrapped).items() if (c * a[1]) % M32}
    if k == 'call' and t[1] == 'bit_count' and t[2][0] == REGS and t[2][1] == const(1) and t[2][2] in (const(16), const(32)):
        return {'K': 1, 'P': 1}
    if k == 'call' and t[1] == 'bit_count' and t[2][0] == ('call', 'lower_chunk', (REGS, const(15))) and t[2][1] == const(1) and \
            t[2][2][0] == 'const' and t[2][2][1] >= 15:
        return {'K': 1}
    if k == 'afterloop':
        name, lid, init, upd = t[1], t[2], t[3], t[4]
        if counter_update(upd, name, lid, 1):
            return ladd(lin(init, unwrapped), {'K': 1})
        if counter_update(upd, name, lid, 4):
            return ladd(lin(init, unwrapped), {'K': 4})
    return {repr(t): 1}


def show(l):
    parts = []
    for s, c in sorted(l.items(), key=lambda x: str(x[0])):
        c = c - M32 if c >= M32 // 2 else c
        name = {1: '', 'K': 'K', 'P': 'P'}.get(s, None)
        if name is None:
            name = {"('reg', ('field', 'n'))": 'Rn', "('reg', ('const', 13))": 'SP'}.get(s, 'base' if 'rmode' in s else s[:40])
        parts.append(('%+d' % c if s == 1 else ('+' if c == 1 else '-' if c == -1 else '%+d*' % c) + name))
    return ' '.join(parts) or '0'


def expected(fam, fields, asg, pval):
    """(base symbol term, start form, final form or None, wb flag) in terms of K, P."""
    kp = {'K': 4, 'P': 4}
    neg = {'K': (-4) % M32, 'P': (-4) % M32}
    if fam.op in ('Push', 'Pop'):
        base = {repr(('reg', const(13))): 1}
    elif fam.op == 'Srs':
        base = None   # Rmode[13, mode]: taken from the trace, see below
    else:
        base = {repr(('reg', ('field', 'n'))): 1}
    four = {1: 4}
    if fam.op == 'Push':
        return base, ladd(base, neg), ladd(base, neg), True
    if fam.op == 'Pop':
        return base, base, ladd(base, kp), True
    if fam.op in ('Srs', 'Rfe'):
        return base, None, None, asg.get('wback', False)
    if fam.special == 'UserRegisters':
        start = base if asg['increment'] else ladd(base, neg)
        if asg['word_higher']:
            start = ladd(start, four)
        return base, start, None, False
    if fam.special == 'ExceptionReturn':
        length = {'K': 4, 1: 4}
        start = base if asg['increment'] else ladd(base, length, -1)
        if asg['word_higher']:
            start = ladd(start, four)
        final = ladd(base, length, 1 if asg['increment'] else -1)
        return base, start, final, asg.get('wback', False)
    start = {'IA': base, 'IB': ladd(base, four), 'DA': ladd(ladd(base, neg), four), 'DB': ladd(base, neg)}[fam.mode]
    final = ladd(base, kp) if fam.mode in ('IA', 'IB') else ladd(base, neg)
    return base, start, final, asg.get('wback', False)


def subst_p(l, pval):
    """Resolve P = registers<15> when the decode model fixes it."""
    if pval is None or 'P' not in l:
        return l
    out = dict(l)
    c = out.pop('P')
    if pval:
        out[1] = (out.get(1, 0) + c) % M32
        if not out[1]:
            del out[1]
    return out


def check_class(run, repo, eff, fr, ci, fams, encs):
    fn = ci.name + '.execute'
    ok = [True]
    seen = set()

    def bad(rule, construct, msg):
        ok[0] = False
        m = re.match(r'^(.*) \[([^\]]*)\]$', construct)
        if m:
            construct, msg = m.group(1), msg + ' (fields %s)' % m.group(2)
        if (rule, construct) in seen:
            return
        seen.add((rule, construct))
        run.violation(rule, ci.relpath, fn, construct, msg)
    if len({f.key for f in fams}) != 1:
        bad('C03-S', 'family', 'the class serves encodings of different block-transfer families: %s' % sorted({f.describe() for f in fams}))
        return
    fam = fams[0]
    tr = Walker(repo, eff).walk(ci.methods['execute'], ci)
    fields = init_fields(ci)
    effs = effect_events(tr)
    looped = fam.op not in ('Srs', 'Rfe')
    user = fam.special == 'UserRegisters'
    base_idx = const(13) if fam.stack else ('field', 'n')
    # P = registers<15>
    if looped:
        p1 = fr.bit_feasible(ci.name, 'registers', 15, 1)
        p0 = fr.bit_feasible(ci.name, 'registers', 15, 0)
        pval = None if (p1 and p0) else (1 if p1 else 0)
    else:
        pval = 0
    # ---- G ----
    for e in effs:
        if not guard_has(e.guards, is_condition_passed, True):
            bad('C03-G', 'unguarded ' + e.kind, 'effect `%s` is not dominated by condition_passed()' % e.text())
    # ---- N: the call site of the ThumbEE null check ----
    if fam.op not in ('Srs', 'Rfe'):
        from . import c02 as _c02
        _c02.check_null_check_call(bad, 'C03-N', tr, encs, base_idx, fam.describe())
    # ---- F ----
    allowed_calls = {'null_check_if_thumbee'}
    for e in effs:
        k = e.kind
        if k == 'RegWrite':
            in_loop = bool(e.loops)
            if in_loop:
                if not (fam.load and not user and e.d['idx'][0] == 'loopvar'):
                    bad('C03-F', 'register write in the loop', 'R[%s] is written inside the transfer loop of a %s' % (fmt(e.d['idx']), fam.describe()))
            elif e.d['idx'] != base_idx:
                bad('C03-F', 'register write R[%s]' % fmt(e.d['idx']), 'outside the loop only the base register may be written')
        elif k == 'RmodeWrite':
            if not ((user and fam.load and e.loops) or (fam.op == 'Srs' and e.d['idx'] == const(13))):
                bad('C03-F', 'banked register write', 'Rmode[%s, %s] written by a %s' % (fmt(e.d['idx']), fmt(e.d['mode']), fam.describe()))
        elif k == 'MemRead':
            if not fam.load:
                bad('C03-F', 'memory read', 'a store-multiple reads memory')
        elif k == 'MemWrite':
            if fam.load:
                bad('C03-F', 'memory write', 'a load-multiple writes memory')
        elif k == 'Branch':
            want = 'branch' if (fam.special == 'ExceptionReturn' or fam.op == 'Rfe') else 'load'
            if not fam.load or user or e.d['kind'] != want:
                bad('C03-F', 'branch', 'PC written through %s_write_pc by a %s' % (e.d['kind'], fam.describe()))
        elif k == 'CpsrWriteByInstr':
            if not (fam.special == 'ExceptionReturn' or fam.op == 'Rfe'):
                bad('C03-F', 'CPSR write', 'only the exception-return forms restore the CPSR')
        elif k == 'Raise':
            if not any(x in e.text() for x in ('UndefinedInstructionException', 'EndOfInstruction')):
                bad('C03-F', 'raise', 'unexpected raise `%s`' % e.text()[:80])
        elif k == 'ProcCall' and e.d['recv'] == '' and e.d['method'] in allowed_calls:
            pass
        else:
            bad('C03-F', k, 'effect outside the frame of a %s: `%s`' % (fam.describe(), e.text()[:120]))
    # ---- L ----
    loops = [e for e in tr.events if e.kind == 'LoopEnter']
    exits = [e for e in tr.events if e.kind == 'LoopExit']
    lid = None
    addr_var = None
    if looped:
        if len(loops) != 1:
            bad('C03-L', 'loop count', 'expected exactly one transfer loop, found %d' % len(loops))
            run.instance('C03-L', ci.name, obligations=1, ok=False, sample={'class': ci.name})
            return
        desc = loops[0].d['loop']
        lid = desc[1]
        if desc[0] != 'for' or norm(desc[3]) != ('builtin', 'range', (const(15),)):
            bad('C03-L', 'loop range', 'the transfer loop must visit registers 0..14 in ascending order (`for i in range(15)`); found `%s`' % fmt(desc[3])[:80])
        for e in tr.events:
            if e.kind in ('Break', 'Continue') and e.loops:
                bad('C03-L', e.kind.lower(), 'the transfer loop contains a %s' % e.kind.lower())
        inloop = [e for e in tr.events if e.loops and e.kind in ('MemRead', 'MemWrite')]
        if not inloop:
            bad('C03-L', 'empty loop', 'no memory access inside the transfer loop')
        avars = set()
        for e in inloop:
            a = norm(e.d['addr'])
            if not guard_has(e.guards, lambda t: is_bit_test(t, lid), True):
                bad('C03-L', 'access outside the bit test', 'a transfer is not under bit_at(self.registers, i)')
            if a[0] == 'loopcarried' and a[2] == lid:
                avars.add(a[1])
            else:
                bad('C03-L', 'loop address', 'a transfer in the loop is at `%s`, not at the running address' % fmt(a)[:100])
            if norm(e.d['size']) != const(4):
                bad('C03-L', 'transfer size', 'block transfers move words; found size %s' % fmt(e.d['size']))
        if len(avars) == 1:
            addr_var = avars.pop()
            upd = exits[0].d['updates'].get(addr_var)
            shape = counter_update(upd, addr_var, lid, 4) if upd is not None else False
            if shape != 'wrapped':
                bad('C03-L', 'address step', 'the running address must advance by add(address, 4, 32) exactly when bit i is set; found `%s`' % (
                    fmt(norm(upd))[:160] if upd is not None else '-'))
        elif inloop:
            bad('C03-L', 'loop address', 'transfers in the loop use different address variables %s' % sorted(avars))
        # which register moves
        for e in tr.events:
            if not e.loops:
                continue
            if e.kind == 'RegWrite' and fam.load and not user:
                v = norm(e.d['value'])
                v = v[2] if v[0] == 'ite' and v[1] == ('field', 'unaligned_allowed') and v[2][:1] == ('mem',) else v
                if e.d['idx'][0] != 'loopvar' or e.d['idx'][2] != lid:
                    bad('C03-L', 'target register', 'the loop writes R[%s], not R[i]' % fmt(e.d['idx']))
                if not (v[0] == 'mem' and v[2][0] == 'loopcarried'):
                    bad('C03-L', 'loaded value', 'R[i] receives `%s`, not the word at the running address' % fmt(v)[:100])
            elif e.kind == 'RmodeWrite' and user and fam.load:
                v = norm(e.d['value'])
                if e.d['idx'][0] != 'loopvar' or norm(e.d['mode']) != const(0b10000):
                    bad('C03-L', 'user-bank target', 'the user-bank form must write Rmode[i, 0b10000]; found Rmode[%s, %s]' % (fmt(e.d['idx']), fmt(e.d['mode'])))
                if not (v[0] == 'mem' and v[2][0] == 'loopcarried'):
                    bad('C03-L', 'loaded value', 'Rmode[i] receives `%s`, not the word at the running address' % fmt(v)[:100])
            elif e.kind == 'MemWrite':
                v = norm(e.d['value'])
                if v == const(0):
                    if not unknown_store_guard(e, fam):
                        bad('C03-B', 'UNKNOWN store', 'a zero (UNKNOWN) is stored outside the base-in-list-not-lowest case')
                elif user:
                    if not (v[0] == 'rmode' and v[1][0] == 'loopvar' and v[2] == const(0b10000)):
                        bad('C03-L', 'user-bank source', 'the user-bank form must store Rmode[i, 0b10000]; found `%s`' % fmt(v)[:80])
                elif not (v[0] == 'reg' and v[1][0] == 'loopvar' and v[1][2] == lid):
                    bad('C03-L', 'stored register', 'the loop stores `%s`, not R[i]' % fmt(v)[:80])
        if not fam.load:
            # the real store of R[i] must happen for every listed register except in the base-in-list-not-lowest (UNKNOWN) case
            def truth(t, u, w, lo):
                if not isinstance(t, tuple) or not t:
                    return None
                if t[0] == 'not':
                    r = truth(t[1], u, w, lo)
                    return None if r is None else not r
                if t[0] in ('and', 'or'):
                    rs = [truth(x, u, w, lo) for x in t[1]]
                    if t[0] == 'and':
                        return False if False in rs else (True if all(r is True for r in rs) else None)
                    return True if True in rs else (False if all(r is False for r in rs) else None)
                if t == ('field', 'wback'):
                    return w
                if t[0] == 'cmp' and t[1] in ('Eq', 'NotEq'):
                    for a, b in ((t[2], t[3]), (t[3], t[2])):
                        if a[0] == 'loopvar' and (b == ('field', 'n') or (fam.stack and b == const(13))):
                            return u if t[1] == 'Eq' else not u
                        if a[0] == 'loopvar' and b[0] == 'call' and b[1] == 'lowest_set_bit_ref':
                            return (not lo) if t[1] == 'Eq' else lo
                return None
            real = [e for e in tr.events if e.kind == 'MemWrite' and e.loops and norm(e.d['value']) != const(0)]
            for u in (False, True):
                for w in (False, True):
                    for lo in (False, True):
                        if u and lo and (w or fam.stack):
                            continue          # the UNKNOWN case (PUSH always writes SP back)
                        if not any(all(truth(t, u, w, lo) in (None, pol) for t, pol, _ in e.guards) for e in real):
                            bad('C03-L', 'register not stored', 'a listed register is not stored when (i == n)=%s, wback=%s, '
                                '(i != lowest listed)=%s: only the base-in-list-not-lowest case may store UNKNOWN' % (u, w, lo))
        if user and fam.load and not any(e.kind == 'RmodeWrite' for e in tr.events):
            bad('C03-L', 'user-bank target', 'no Rmode[i, 0b10000] write in the user-bank load')
        if fam.load and not user and not any(e.kind == 'RegWrite' and e.loops for e in tr.events):
            bad('C03-L', 'target register', 'the loop loads no register')
    # ---- O ----
    base_writes = [e for e in tr.events if (e.kind == 'RegWrite' and e.d['idx'] == base_idx and not e.loops) or
                   (e.kind == 'RmodeWrite' and not e.loops)]
    for w in base_writes:
        for e in tr.events:
            if e.idx > w.idx and e.kind in ('MemRead', 'MemWrite') and not exclusive(e, w):
                bad('C03-O', '%s after base write-back' % e.kind, 'the base register is written back before the memory access `%s`: an abort '
                    'raised by the access must leave the base unchanged' % e.text()[:100])
    for w in tr.events:
        if w.kind != 'CpsrWriteByInstr':
            continue
        for e in tr.events:
            if e.idx > w.idx and not exclusive(e, w) and ((e.kind in ('RegRead', 'RegWrite') and e.d['idx'] == base_idx) or
                                                           e.kind in ('MemRead', 'MemWrite')):
                bad('C03-O', '%s after the CPSR restore' % e.kind, 'the base register / memory is accessed after cpsr_write_by_instr: the restored '
                    'mode selects another register bank (SP) and other access permissions, so the write-back lands in the wrong bank')
                break
    if fam.load and looped and not user:
        in_list = lambda t: norm(t) == ('call', 'bit_at', (REGS, base_idx))
        for e in tr.events:
            if e.kind == 'RegRead' and e.d['idx'] == base_idx and e.idx > exits[0].idx and not guard_has(e.guards, in_list, False):
                bad('C03-O', 'base read after the loop', 'the base register is read after the loads without a base-not-in-list test: '
                    'a loaded base would be used')
    # ---- S, B per assignment ----
    bools = [b for b in BOOLS if b in fields]
    nasg = 0
    for vals in itertools.product((True, False), repeat=len(bools)):
        asg = dict(zip(bools, vals))
        nasg += 1
        tag = ','.join('%s=%d' % kv for kv in asg.items()) or '-'
        evs = [e for e in tr.events if live(e, asg)]
        base, start, final, wb = expected(fam, fields, asg, pval)
        unwrapped = []
        if looped:
            if addr_var is None:
                continue
            init = exits[0].d['inits'].get(addr_var)
            got = subst_p(lin(pe(init, asg), unwrapped), pval)
            want = subst_p(start, pval)
            if got != want:
                bad('C03-S', 'start address [%s]' % tag, 'the block starts at %s; the %s table gives %s%s' % (
                    show(got), fam.describe(), show(want), ptext(pval)))
            # PC slot
            after = [e for e in evs if e.kind in ('MemRead', 'MemWrite') and not e.loops]
            for e in after:
                a = norm(pe(e.d['addr'], asg))
                if not (a[0] == 'afterloop' and a[1] == addr_var and a[2] == lid):
                    bad('C03-L', 'PC slot address [%s]' % tag, 'the word after the loop is accessed at `%s`, not at the running address' % fmt(a)[:100])
                if norm(e.d['size']) != const(4):
                    bad('C03-L', 'PC slot size', 'size %s' % fmt(e.d['size']))
                if fam.special != 'ExceptionReturn' and not guard_has(e.guards, lambda t: norm(t) == ('call', 'bit_at', (REGS, const(15))), True):
                    bad('C03-L', 'PC slot guard', 'the access after the loop is not under bit_at(self.registers, 15)')
                if e.kind == 'MemWrite' and norm(pe(e.d['value'], asg)) != ('pc',):
                    bad('C03-L', 'PC slot value', 'the slot after the loop receives `%s`, not the PC' % fmt(norm(e.d['value']))[:80])
            if pval != 0 and not after:
                bad('C03-L', 'PC slot missing [%s]' % tag, 'bit 15 of the list is decodable but no transfer follows the loop')
            for e in evs:
                if e.kind == 'Branch':
                    v = norm(pe(e.d['target'], asg))
                    v = v[2] if v[0] == 'ite' and v[2][:1] == ('mem',) else v
                    if not (v[0] == 'mem' and v[2][0] == 'afterloop' and v[2][1] == addr_var):
                        bad('C03-L', 'PC value [%s]' % tag, 'the PC receives `%s`, not the word after the last register' % fmt(v)[:100])
            wbs = [e for e in evs if e.kind == 'RegWrite' and e.d['idx'] == base_idx and not e.loops]
        elif fam.op == 'Rfe':
            rn = {repr(('reg', ('field', 'n'))): 1}
            s = rn if asg['increment'] else ladd(rn, {1: 8}, -1)
            if asg['word_higher']:
                s = ladd(s, {1: 4})
            reads = [e for e in evs if e.kind == 'MemRead']
            forms = [lin(pe(e.d['addr'], asg), unwrapped) for e in reads]
            if len(reads) != 2 or forms[0] != s or forms[1] != ladd(s, {1: 4}):
                bad('C03-S', 'RFE addresses [%s]' % tag, 'RFE reads %s; the table gives %s and %s' % (
                    ', '.join(show(f) for f in forms), show(s), show(ladd(s, {1: 4}))))
            if any(norm(e.d['size']) != const(4) or e.d['kind'] != 'a' for e in reads):
                bad('C03-S', 'RFE word size [%s]' % tag, 'RFE loads two words through MemA; found sizes %s' % ', '.join(
                    fmt(norm(e.d['size'])) for e in reads))
            for e in evs:
                if e.kind == 'Branch' and reads:
                    v = norm(pe(e.d['target'], asg))
                    if not (v[0] == 'mem' and lin(v[2]) == s):
                        bad('C03-S', 'RFE PC word [%s]' % tag, 'the PC is loaded from %s, not from the lower word' % fmt(v)[:80])
                if e.kind == 'CpsrWriteByInstr' and reads:
                    v = norm(pe(e.d['value'], asg))
                    if not (v[0] == 'mem' and lin(v[2]) == ladd(s, {1: 4})) or norm(e.d['mask']) != const(0b1111) or norm(e.d['excret']) != const(True):
                        bad('C03-S', 'RFE CPSR word [%s]' % tag, 'the CPSR must be restored from the higher word with mask 1111 as an exception return')
            if not any(e.kind == 'Branch' for e in evs) or not any(e.kind == 'CpsrWriteByInstr' for e in evs):
                bad('C03-S', 'RFE effects', 'RFE must restore the CPSR and branch')
            final = ladd(rn, {1: 8}, 1 if asg['increment'] else -1)
            wbs = [e for e in evs if e.kind == 'RegWrite' and e.d['idx'] == base_idx]
        else:   # SRS
            writes = [e for e in evs if e.kind == 'MemWrite']
            bases = {repr(s) for e in writes for s in subterms(norm(pe(e.d['addr'], asg))) if isinstance(s, tuple) and s and s[0] == 'rmode'}
            b13 = repr(('rmode', const(13), ('field', 'mode')))
            if bases != {b13}:
                bad('C03-S', 'SRS base', 'SRS must address through Rmode[13, self.mode]; found %s' % sorted(bases))
            rb = {b13: 1}
            s = rb if asg['increment'] else ladd(rb, {1: 8}, -1)
            if asg['word_higher']:
                s = ladd(s, {1: 4})
            forms = [lin(pe(e.d['addr'], asg), unwrapped) for e in writes]
            vals_ = [norm(pe(e.d['value'], asg)) for e in writes]
            if len(writes) != 2 or forms[0] != s or forms[1] != ladd(s, {1: 4}):
                bad('C03-S', 'SRS addresses [%s]' % tag, 'SRS writes %s; the table gives %s and %s' % (
                    ', '.join(show(f) for f in forms), show(s), show(ladd(s, {1: 4}))))
            elif any(norm(e.d['size']) != const(4) or e.d['kind'] != 'a' for e in writes):
                bad('C03-S', 'SRS word size [%s]' % tag, 'SRS stores two words through MemA; found sizes %s' % ', '.join(
                    fmt(norm(e.d['size'])) for e in writes))
            elif vals_[0] != ('reg', const(14)) or vals_[1] != ('spsr',):
                bad('C03-S', 'SRS values', 'SRS stores LR at the lower and SPSR at the higher word; found %s' % ', '.join(fmt(v) for v in vals_))
            final = ladd(rb, {1: 8}, 1 if asg['increment'] else -1)
            wbs = [e for e in evs if e.kind == 'RmodeWrite']
            for e in wbs:
                if norm(e.d['idx']) != const(13) or norm(e.d['mode']) != ('field', 'mode'):
                    bad('C03-S', 'SRS write-back target', 'SRS writes back Rmode[13, self.mode]')
        # write-back value and guards
        in_list = lambda t: norm(t) == ('call', 'bit_at', (REGS, base_idx))
        real = []
        for e in wbs:
            v = norm(pe(e.d['value'], asg))
            if v == const(0):
                if not (fam.load and looped and guard_has(e.guards, in_list, True)):
                    bad('C03-B', 'UNKNOWN base [%s]' % tag, 'the base is zeroed (UNKNOWN) outside the base-in-list case')
                continue
            real.append(e)
            if not wb:
                bad('C03-B', 'write-back [%s]' % tag, 'the base is written although write-back is not selected')
                continue
            got = subst_p(lin(v, unwrapped), pval)
            want = subst_p(final, pval)
            if got != want:
                bad('C03-S', 'write-back value [%s]' % tag, 'the base becomes %s; the %s table gives %s%s' % (
                    show(got), fam.describe(), show(want), ptext(pval)))
            if fam.load and looped and not user and not guard_has(e.guards, in_list, False):
                bad('C03-B', 'write-back with base in list', 'a load-multiple must not write back a base that was just loaded')
        if wb and final is not None and not real:
            bad('C03-B', 'missing write-back [%s]' % tag, 'write-back is selected but the base is not updated')
    run.instance('C03-S', ci.name, obligations=10 * nasg, ok=ok[0],
                 sample={'class': ci.name, 'family': fam.describe(), 'assignments': nasg, 'encodings': sorted(encs),
                         'registers<15>': 'free' if pval is None else pval})


def ptext(pval):
    return '' if pval is None else ' (registers<15> is always %d for this class)' % pval


def unknown_store_guard(e, fam):
    """(i == n and wback and i != lowest_set_bit_ref(registers)) / PUSH: (i == 13 and i != lowest...)"""
    def pred(t):
        t = norm(t)
        if t[0] != 'and':
            return False
        parts = [repr(x) for x in t[1]]
        has_eq = any(x[0] == 'cmp' and x[1] == 'Eq' and x[2][0] == 'loopvar' and x[3] in (('field', 'n'), const(13)) for x in t[1])
        has_low = any(x[0] == 'cmp' and x[1] == 'NotEq' and x[2][0] == 'loopvar' and x[3] == ('call', 'lowest_set_bit_ref', (REGS,)) for x in t[1])
        has_wb = fam.stack or any(x == ('field', 'wback') for x in t[1])
        return has_eq and has_low and has_wb and len(parts) == (2 if fam.stack else 3)
    return guard_has(e.guards, pred, True)


def _judge_mutant(run, mrepo, name, ctx):
    ci, fams, encs = ctx['classes'][name]
    check_class(run, mrepo, ctx['eff'], ctx['fr'], mrepo.cls(name), fams, encs)


def main(repo_path, tier, seed, replay=None):
    run = Run('C03', tier, level='other', seed=seed)
    repo = Repo(repo_path)
    from . import c02 as _c02
    _c02.check_null_check(run, repo, 'C03-N')
    eff = Effects(repo)
    bind = Binding(repo)
    fa = FuncAnalyzer(repo)
    fr = FieldRanges(repo, fa)
    classes = bt_classes(repo, bind)
    for name, (ci, fams, encs) in sorted(classes.items()):
        check_class(run, repo, eff, fr, ci, fams, encs)
    run.floor('block-transfer opcode classes', len(classes), 18)
    sub = Run('tmp')
    c10.check_widths(sub, repo, eff, fr, fa, rule='C03-W', select=None)
    names = set(classes)
    for f in sub.findings:
        if f.func.split('.')[0] in names:
            run.violation('C03-W', f.file, f.func, f.construct, f.message, f.detail)
    run.instance('C03-W', 'widths of addresses and write-back values', obligations=len(names), ok=True, sample={'classes': len(names)})
    controls(run, repo_path, eff, fr, classes)
    if tier == 'thorough':
        from ..selftest import run_selftest
        targets = [(name, ci.module.relpath, ci.module.source, name + '.execute') for name, (ci, fams, encs) in sorted(classes.items())]
        run_selftest(run, repo_path, 'C03', targets, _judge_mutant, {'fr': fr, 'eff': eff, 'classes': classes}, per_function=14, floor=75, seconds=12)
    run.exhaustive = True
    run.undecided = ['memory contents after a transfer for a concrete register list (run-time quantity)',
                     'what MemA/MemU do with each word (C13)']
    run.assumptions = ['families are bound through the reference encodings; which encodings reach which class is C06/C07 '
                       '(incl. the POP/PUSH vs LDM/STM selection by register count)',
                       'bit_count(x, 1, n) is BitCount and lowest_set_bit_ref is LowestSetBit (C17)']
    return run.finish(
        'C03: each of the 18 block-transfer execute() bodies is reduced to an effect trace with one bounded loop; loop shape '
        '(ascending 0..14, bit test, running address advanced by exactly 4 mod 2^32, register i), the PC slot after the loop, start '
        'address and written-back value as linear forms mod 2^32 in the base, BitCount(registers<14:0>) and registers<15> for every '
        'assignment of increment/word_higher/wback, write-back and UNKNOWN guards, ordering, frame, guard and widths are compared with '
        'the architecture table. PUSH;POP restoring SP is the consequence (SP-4k)+4k of two rows of that table and the shared loop.',
        './check C03 --tier %s' % tier)


def controls(run, repo_path, eff, fr, classes):
    def mutated(cname, fn):
        ci, fams, encs = classes[cname]
        src = ci.module.source
        new = fn(src)
        if new is None or new == src:
            return None
        mrepo = Repo(repo_path, overrides={ci.module.relpath: new})
        tmp = Run('C03')
        check_class(tmp, mrepo, eff, fr, mrepo.cls(cname), fams, encs)
        return tmp.findings

    def step_outside(src):
        # move `address = add(address, 4, 32)` out of the bit test (AST edit): every register advances the address
        tree = ast.parse(src)
        for n in ast.walk(tree):
            if isinstance(n, ast.For):
                for s in n.body:
                    if isinstance(s, ast.If) and s.body and isinstance(s.body[-1], ast.Assign) and 'address' in ast.unparse(s.body[-1].targets[0]):
                        n.body.append(s.body.pop())
                        if not s.body:
                            s.body.append(ast.Pass())
                        return ast.unparse(tree)
        return None

    def start_off_by_4(src):
        tree = ast.parse(src)
        for n in ast.walk(tree):
            if isinstance(n, ast.Assign) and ast.unparse(n.targets[0]) == 'address' and 'sub(' in ast.unparse(n.value):
                n.value = ast.parse('add(%s, 4, 32)' % ast.unparse(n.value)).body[0].value
                return ast.unparse(tree)
        return None
    for cname, fn, what in (('LdmArm', step_outside, 'address advanced outside the bit test'),
                            ('Stmdb', start_off_by_4, 'DB start address off by 4')):
        if cname not in classes:
            run.control('C03 ' + what, False, '')
            continue
        f = mutated(cname, fn)
        run.control('C03 ' + what, bool(f), '%s: %s' % (cname, what) if f is not None else '')
