"""C05 - conditional execution.

  C05-T1  ConditionPassed(): the 16 x 16 truth table (cond x NZCV) extracted from the source
          equals the architectural table.
  C05-T2  CurrentCond(): decision table (instruction set, length, opcode bits, IT state) ->
          condition field, equals the architectural rule.
  C05-G   guard dominance: in every execute() body every effect (register / flag / memory /
          PC / system write, raise, effectful call) is dominated by a positive
          condition_passed() test.
  C05-U   the only bodies allowed to have unguarded effects are the architecturally
          unconditional instructions (bound through the reference encodings).
"""
import ast

from .. import bitdom, decode, reftables
from ..bdd import BDD
from ..binding import Binding
from ..bitdom import Interp, Int, V, Value, Unsupported
from ..effects import Effects
from ..flow import Walker, guard_has, fmt
from ..report import Run, AnalysisError
from ..srcmodel import Repo, norm_stmt
from .decode_check import mutate_source

EFFECT_KINDS = {'RegWrite', 'RmodeWrite', 'FlagWrite', 'SysWrite', 'ProcStore', 'MemRead', 'MemWrite', 'Branch',
                'SelectISet', 'CpsrWriteByInstr', 'SpsrWriteByInstr', 'SpsrWrite', 'Raise', 'TakeException',
                'BranchTo', 'ItAdvance', 'ItemStore', 'ObjStore', 'ObjCall', 'DynCall', 'FuncCall', 'New'}


def is_condition_passed(t):
    return t[0] == 'pcall' and t[1] == 'condition_passed'


def effect_events(tr):
    out = []
    for ev in tr.events:
        if ev.kind in EFFECT_KINDS:
            out.append(ev)
        elif ev.kind == 'ProcCall':
            if ev.d['method'] == 'condition_passed':
                continue
            s = ev.d.get('summary')
            if s is None or not s.pure():
                out.append(ev)
    return out


class CondPolicy(decode.MachinePolicy):
    def __init__(self, repo, B, cond):
        decode.MachinePolicy.__init__(self, repo, B)
        self.cond = cond

    def call(self, it, target, recv, args, kwargs, node, st):
        if hasattr(target, 'name') and target.name == 'current_cond' and self.cond is not None:
            return V(self.cond)
        return decode.MachinePolicy.call(self, it, target, recv, args, kwargs, node, st)


def parse_base(B, s, N, Z, C, Vf):
    env = {'N': N, 'Z': Z, 'C': C, 'V': Vf}
    s = s.strip()
    if s == '1':
        return 1
    r = 1
    for part in s.split('&'):
        part = part.strip()
        if '==' in part:
            a, b = [x.strip() for x in part.split('==')]
            r = B.AND(r, B.EQ(env[a], env[b]))
        elif part.startswith('!'):
            r = B.AND(r, B.NOT(env[part[1:]]))
        else:
            r = B.AND(r, env[part])
    return r


def check_condition_table(run, repo):
    B = BDD()
    cond = bitdom.sym_int(B, 'COND', 4)
    pol = CondPolicy(repo, B, cond)
    it = Interp(repo, B, pol)
    fi = repo.method('ArmV6', 'condition_passed')
    rets = it.run_function(fi, [V(('obj', 'processor', 'ArmV6'))])
    got = 0
    cover = 0
    for c, v, _ in rets:
        try:
            got = B.OR(got, B.AND(c, it.truth(v, c)))
        except Unsupported as u:
            raise AnalysisError('condition_passed returns a value outside the idiom: %s' % u)
        cover = B.OR(cover, c)
    if cover != 1:
        raise AnalysisError('condition_passed does not return on every path')
    cp = 'processor.registers.cpsr.value[%d]'
    N, Z, C, Vf = (B.var(cp % 31), B.var(cp % 30), B.var(cp % 29), B.var(cp % 28))
    ref = 0
    for hi, expr in reftables.COND_BASE.items():
        base = parse_base(B, expr, N, Z, C, Vf)
        for low in (0, 1):
            cv = (hi << 1) | low
            sel = it.i_eq(cond, it.const(cv))
            val = base if not (low and cv != 0b1111) else B.NOT(base)
            ref = B.OR(ref, B.AND(sel, val))
    bad = B.XOR(got, ref)
    extra = B.support(got) - B.support(ref) - set(B.var_index('COND[%d]' % k) for k in range(4))
    rows = []
    if bad != 0:
        a = B.pick(bad)
        cv = sum((a.get(B.var_index('COND[%d]' % k), 0)) << k for k in range(4))
        flags = {n: a.get(B.var_index(cp % b), 0) for n, b in (('N', 31), ('Z', 30), ('C', 29), ('V', 28))}
        rows.append({'cond': cv, 'flags': flags, 'tree': B.eval(got, a), 'reference': B.eval(ref, a)})
        run.violation('C05-T1', fi.relpath, fi.qualname, 'condition table',
                      'ConditionPassed() disagrees with the architectural table, e.g. cond=%s with %s: tree says %s' % (
                          bin(cv), flags, bool(B.eval(got, a))), {'row': rows[0]})
    if extra:
        run.violation('C05-T1', fi.relpath, fi.qualname, 'condition inputs',
                      'ConditionPassed() depends on state other than cond and N,Z,C,V: %s' % sorted(B.names[v] for v in extra))
    wrote = [k for c, v, s in rets for k in s.heap]
    if wrote:
        run.violation('C05-T1', fi.relpath, fi.qualname, 'condition purity',
                      'ConditionPassed() writes processor state: %s' % sorted(set(wrote)))
    run.instance('C05-T1', 'condition_passed 16x16', obligations=256, ok=(bad == 0 and not extra),
                 sample={'function': fi.qualname, 'rows': 256, 'bdd_nodes': B.size(),
                         'example_row': {'cond': '0b1000 (HI)', 'passes_iff': 'C & !Z'}})


def check_current_cond(run, repo):
    B = BDD()
    pol = CondPolicy(repo, B, None)
    it = Interp(repo, B, pol)
    fi = repo.method('ArmV6', 'current_cond')
    proc = ('obj', 'processor', 'ArmV6')
    op = pol.sym('processor.opcode', 32)
    ln = pol.sym('processor.opcode_len', 6)
    rets = it.run_function(fi, [V(proc)])
    cp = 'processor.registers.cpsr.value[%d]'
    J, T = B.var(cp % 24), B.var(cp % 5)
    itv = Int([B.var(cp % 25), B.var(cp % 26)] + [B.var(cp % k) for k in range(10, 16)])
    arm = B.AND(B.NOT(J), B.NOT(T))
    thumb = B.AND(B.NOT(J), T)
    len16 = it.i_eq(ln, it.const(16))
    len32 = it.i_eq(ln, it.const(32))

    def fld(hi, lo):
        return Int(op.bits[lo:hi + 1])
    t1 = B.all_and([len16, it.i_eq(fld(15, 12), it.const(0b1101)), B.NOT(it.i_eq(fld(11, 9), it.const(0b111)))])
    t3 = B.all_and([len32, it.i_eq(fld(31, 27), it.const(0b11110)), it.i_eq(fld(15, 14), it.const(0b10)),
                    B.NOT(op.bits[12]), B.NOT(it.i_eq(fld(25, 23), it.const(0b111)))])
    it_low = Int(itv.bits[0:4])
    it_nz = it.i_truth(it_low)
    ref = it.const(0b1110)
    ref = it.i_ite(it_nz, Int(itv.bits[4:8]), ref)
    ref = it.i_ite(t3, fld(25, 22), ref)
    ref = it.i_ite(t1, fld(11, 8), ref)
    ref = it.i_ite(arm, fld(31, 28), ref)
    unpred = B.AND(B.NOT(it_nz), it.i_truth(itv))
    dom = B.AND(B.OR(B.AND(arm, len32), B.AND(thumb, B.OR(len16, len32))), B.NOT(B.AND(B.NOT(arm), unpred)))
    ok = True
    cover = 0
    for c, v, _ in rets:
        cc = B.AND(c, dom)
        cover = B.OR(cover, c)
        if cc == 0:
            continue
        try:
            got = it.as_int(v, cc, 'current_cond result')
        except Unsupported as u:
            raise AnalysisError('current_cond returns a value outside the idiom: %s' % u)
        w = max(len(got.bits), 4)
        for k, (p, q) in enumerate(zip(it.ext(got, w), it.ext(ref, w))):
            d = B.AND(cc, B.XOR(p, q))
            if d != 0:
                ok = False
                a = B.pick(d)
                word = sum(a.get(B.var_index('processor.opcode[%d]' % i), 0) << i for i in range(32))
                l = sum(a.get(B.var_index('processor.opcode_len[%d]' % i), 0) << i for i in range(6))
                st = 'ARM' if B.eval(arm, a) else 'Thumb'
                run.violation('C05-T2', fi.relpath, fi.qualname, 'current condition table',
                              'CurrentCond() differs from the architectural rule: bit %d, e.g. %s state, %d-bit opcode '
                              '0x%X, ITSTATE=%s' % (k, st, l, word,
                                                    bin(sum(a.get(B.var_index(cp % b), 0) << i for i, b in
                                                            enumerate([25, 26, 10, 11, 12, 13, 14, 15])))),
                              {'opcode': hex(word), 'len': l, 'state': st})
                break
    if B.AND(dom, B.NOT(cover)) != 0:
        ok = False
        run.violation('C05-T2', fi.relpath, fi.qualname, 'current condition coverage',
                      'CurrentCond() does not return a value for some reachable state')
    run.instance('C05-T2', 'current_cond decision table', obligations=5, ok=ok,
                 sample={'function': fi.qualname, 'arms': ['ARM: opcode[31:28]', 'T1 branch: opcode[11:8]',
                                                            'T3 branch: opcode[25:22]', 'IT[7:4]', 'AL']})


def guard_findings(repo, eff, exempt):
    """Yield (ClassInfo, trace, unguarded effect events) for every execute() body."""
    for ci in repo.abstract_opcode_classes():
        ex = ci.methods.get('execute')
        if ex is None:
            continue
        w = Walker(repo, eff)
        tr = w.walk(ex, ci)
        effs = effect_events(tr)
        bad = [e for e in effs if not guard_has(e.guards, is_condition_passed, True)]
        yield ci, tr, effs, bad


def check_guards(run, repo, eff, exempt_abstract):
    n = 0
    for ci, tr, effs, bad in guard_findings(repo, eff, exempt_abstract):
        n += 1
        fn = ci.name + '.execute'
        if ci.name in exempt_abstract:
            run.instance('C05-U', ci.name, obligations=1, ok=True, nontrivial=True,
                         sample={'class': ci.name, 'unconditional_because': exempt_abstract[ci.name]})
            continue
        run.instance('C05-G', ci.name, obligations=max(1, len(effs)), ok=not bad, nontrivial=bool(effs),
                     sample={'file': ci.relpath, 'function': fn, 'effects': len(effs),
                             'guard': 'condition_passed'})
        if bad:
            e0 = bad[0]
            run.violation('C05-G', ci.relpath, fn, 'unguarded effects',
                          '%d effect(s) of %s are not dominated by a condition_passed() test (first: %s `%s`): a failed '
                          'condition would not make the instruction a no-op' % (len(bad), ci.name, e0.kind, e0.text()),
                          {'unguarded': [{'kind': e.kind, 'stmt': e.text()} for e in bad[:6]]})
    return n


def strip_guard(src):
    """AST mutation for the positive control: drop the first `if processor.condition_passed():`."""
    tree = ast.parse(src)
    done = [False]

    class Tr(ast.NodeTransformer):
        def visit_If(self, node):
            if not done[0] and isinstance(node.test, ast.Call) and ast.unparse(node.test) == 'processor.condition_passed()' \
                    and not node.orelse:
                done[0] = True
                return node.body
            return self.generic_visit(node)
    new = Tr().visit(tree)
    if not done[0]:
        return None
    ast.fix_missing_locations(new)
    return ast.unparse(new)


def controls(run, repo_path, repo, eff, exempt):
    # guard control: first guarded body (sorted), guard removed in memory
    fired = False
    what = ''
    for ci in sorted(repo.abstract_opcode_classes(), key=lambda c: c.name):
        if ci.name in exempt:
            continue
        m = strip_guard(ci.module.source)
        if m is None:
            continue
        mrepo = Repo(repo_path, overrides={ci.module.relpath: m})
        mci = mrepo.cls(ci.name)
        tr = Walker(mrepo, eff).walk(mci.methods['execute'], mci)
        effs = effect_events(tr)
        if effs and any(not guard_has(e.guards, is_condition_passed, True) for e in effs):
            fired = True
        what = 'guard removed from %s.execute' % ci.name
        break
    run.control('C05-G guard deleted', fired, what)
    # table control: flip a compared constant inside condition_passed
    fi = repo.method('ArmV6', 'condition_passed')
    src = fi.module.source
    seg = ast.get_source_segment(src, fi.node)
    fired = False
    what = ''
    for idx in range(4):
        m = mutate_source(seg_dedent(seg), 'const_cmp', idx)
        if m is None:
            break
        new_src = src.replace(seg, reindent(m[0], seg))
        mrepo = Repo(repo_path, overrides={fi.module.relpath: new_src})
        tmp = Run('C05')
        try:
            check_condition_table(tmp, mrepo)
        except AnalysisError:
            fired = True
        if tmp.findings:
            fired = True
        what = 'condition_passed: ' + m[1]
        if fired:
            break
    run.control('C05-T1 table entry changed', fired, what)


def seg_dedent(seg):
    import textwrap
    lines = seg.split('\n')
    # first line has no leading indentation in get_source_segment; re-add the body's indentation basis
    indent = len(lines[1]) - len(lines[1].lstrip()) - 4 if len(lines) > 1 else 0
    return '\n'.join([lines[0]] + [l[indent:] if len(l) >= indent else l for l in lines[1:]])


def reindent(code, original_seg):
    lines = original_seg.split('\n')
    indent = len(lines[1]) - len(lines[1].lstrip()) - 4 if len(lines) > 1 else 0
    out = code.split('\n')
    return '\n'.join([out[0]] + [(' ' * indent + l) if l.strip() else l for l in out[1:]])


def main(repo_path, tier, seed, replay=None):
    run = Run('C05', tier, level='proof', seed=seed)
    repo = Repo(repo_path)
    import re
    from .. import memo
    memo.check(run, repo, 'C05-MEMO', lambda rel, q: q.split('.')[-1] in ('condition_passed', 'current_cond', 'in_it_block', 'last_in_it_block') or rel.endswith('all_registers/cpsr.py'),
               'the condition evaluation (ConditionPassed / CurrentCond / the CPSR flag views)')
    eff = Effects(repo)
    bind = Binding(repo)
    exempt = {}
    for enc, why in reftables.UNCONDITIONAL_ENCODINGS.items():
        a = bind.abstract_of_encoding(enc)
        if a is None:
            raise AnalysisError('reference encoding %s (unconditional list) is not bound to any class' % enc)
        exempt[a.name] = why
    check_condition_table(run, repo)
    check_current_cond(run, repo)
    n = check_guards(run, repo, eff, exempt)
    run.floor('execute bodies', n, 273)
    controls(run, repo_path, repo, eff, exempt)
    run.exhaustive = True
    run.undecided = []
    run.assumptions = ['condition_passed()/current_cond() are only reached through the call sites analysed (resolved call graph)',
                       'the unconditional-instruction list (sa/reftables.py) is the architecture\'s']
    return run.finish(
        'C05 decided from source: (T1) ConditionPassed as a complete 16x16 truth table and (T2) CurrentCond as a '
        'decision table, both extracted by the bit-vector table domain and compared with the architectural tables; '
        '(G) guard dominance of every effect in all execute() bodies by a structured walk (a property of all paths, '
        'hence of all operands and flag values); (U) exemptions only for the architecturally unconditional '
        'instructions, bound through the reference encodings.',
        './check C05 --tier %s' % tier)
