"""C10 - register file integrity.

  C10-W  range invariant (inductive): assuming every register / SPSR / PC holds a value in
         [0, 2^32) on entry, every value that reaches a register, banked register, SPSR,
         ELR_hyp or PC store from any execute() body or from any ArmV6 / Registers method is
         proved to lie in [0, 2^32) by interval analysis (helpers analysed from their source;
         methods judged modularly against parameter contracts).  Unknown => reported.
  C10-B  banking table: look_up_rname(n, mode) for n in 0..14 x every legal mode, and the SPSR
         selected by get_spsr / set_spsr, equal the architectural map; getter and setter agree.
  C10-O  ownership: the physical register file `_R`, the SPSR slots and `elr_hyp` are touched
         only inside Registers, `_R` only through look_up_rname(...) or RName.PC.
"""
import ast

from .. import refmodel
from ..bitdom import V, Value, Int
from ..effects import Effects
from ..fields import FieldRanges
from ..flow import Walker, fmt
from ..machine import Machine
from ..ranges import FuncAnalyzer, TermEval, Iv, Topv, Botv, U32
from ..refmodel import MODES, P
from ..report import Run, AnalysisError
from ..srcmodel import Repo, norm_stmt
from .. import sinks

# architectural banking map (ARM ARM B1.3.2, DESIGN.md A.3): register number -> bank per mode
BANK = {}
for n in range(8):
    BANK[n] = {m: 'R%dusr' % n for m in MODES}
for n in range(8, 13):
    BANK[n] = {m: ('R%dfiq' % n if m == 'fiq' else 'R%dusr' % n) for m in MODES}
BANK[13] = {m: 'SP' + ('usr' if m in ('usr', 'sys') else m) for m in MODES}
BANK[14] = {m: 'LR' + ('usr' if m in ('usr', 'sys', 'hyp') else m) for m in MODES}
SPSR_BANK = {m: 'spsr_' + m for m in MODES if m not in ('usr', 'sys')}

REG_SINK_WHAT = ('value written to R', 'value written to banked', 'branch target', 'SPSR value', 'PSR value',
                 'physical register store', 'system register elr_hyp', 'argument value of set', 'argument address of',
                 'argument new_lr_value', 'argument preferred_exceptn_return', 'argument new_spsr_value',
                 'argument opcode_length')


def loops_of(tr):
    loops = {}
    for ev in tr.events:
        if ev.kind == 'LoopExit':
            lid = ev.d['loop'][1]
            loops[lid] = {k: (ev.d['inits'][k], ev.d['updates'][k]) for k in ev.d['updates']}
    return loops


def judge_trace(run, rule, repo, tr, te, file, func, select=None, label=''):
    obs = sinks.obligations_of(repo, tr)
    n = 0
    bad = 0
    for ob in obs:
        if select is not None and not select(ob):
            continue
        n += 1
        ok, v, hi = sinks.check_obligation(te, ob)
        if not ok:
            bad += 1
            bound = '[%d, 2^%d)' % (ob.lo, (hi + 1).bit_length() - 1) if hi is not None and (hi + 1) & hi == 0 and hi > 255 \
                else ('[%d, %s]' % (ob.lo, hi) if hi is not None else 'the access size')
            run.violation(rule, file, func + label, norm_stmt(ob.ev.node, 110),
                          '%s is not proved to stay within %s: %s has range %r' % (ob.what, bound, fmt(ob.term)[:140], v),
                          {'term': fmt(ob.term)[:300], 'range': repr(v), 'sink': ob.what})
    return n, bad


def reg_sink(ob):
    return ob.what.startswith(REG_SINK_WHAT)


def check_widths(run, repo, eff, fr, fa, rule='C10-W', select=reg_sink):
    ctx = sinks.Context(repo, eff, fa)
    nb = 0
    for ci in repo.abstract_opcode_classes():
        ex = ci.methods.get('execute')
        if ex is None:
            continue
        tr = Walker(repo, eff).walk(ex, ci)
        te = ctx.term_eval(fr.for_abstract(ci.name), ci.module, sinks.joint_for(fr, ci.name))
        te.loops = loops_of(tr)
        n, bad = judge_trace(run, rule, repo, tr, te, ci.relpath, ci.name + '.execute', select)
        nb += 1
        run.instance(rule, ci.name, obligations=n, ok=(bad == 0), nontrivial=(n > 0),
                     sample={'file': ci.relpath, 'function': ci.name + '.execute', 'sinks': n})
    run.floor('execute bodies (width)', nb, 273)
    nm = 0
    for (clsname, meth), tr in sorted(eff.traces.items()):
        ci = repo.cls(clsname)
        fi = ci.find_method(meth) or ci.find_getter(meth)
        if fi is None:
            continue
        names = fi.params()[1:]
        for label, params in sinks.contract_variants(clsname, meth, names):
            te = ctx.term_eval({}, fi.module)
            te.loops = loops_of(tr)
            te.params = params
            n, bad = judge_trace(run, rule, repo, tr, te, fi.relpath, '%s.%s' % (clsname, meth), select,
                                 label=(' [%s]' % label if label else ''))
            if n:
                nm += 1
                run.instance(rule, '%s.%s%s' % (clsname, meth, label), obligations=n, ok=(bad == 0),
                             sample={'function': '%s.%s' % (clsname, meth), 'assumed': {k: repr(v) for k, v in params.items()},
                                     'sinks': n})
    run.floor('ArmV6/Registers methods with register sinks', nm, 15)


def check_banking(run, repo):
    ok_all = True
    for n in range(15):
        m = Machine(repo)
        rm = refmodel.M(m)
        B = m.B
        mode = m.sym('ARG.mode', 5)
        res, fi = m.run('Registers', 'look_up_rname', [m.it.const(n), mode])
        dom = B.AND(B.var('ARCH[2]'), B.NOT(rm.bad_mode(mode)))
        ok = True
        for mname, mval in MODES.items():
            sel = B.AND(dom, m.it.i_eq(mode, m.it.const(mval)))
            if sel == 0:
                continue
            want = ('enum', 'RName', BANK[n][mname])
            got = [(c, p) for c, p in res.value.cases if B.AND(c, sel) != 0]
            if len(got) != 1 or got[0][1] != want or B.AND(sel, B.NOT(got[0][0])) != 0:
                ok = False
                run.violation('C10-B', fi.relpath, fi.qualname, 'R%d in mode %s' % (n, mname),
                              'look_up_rname(%d, %s) selects %s; the architecture banks it as %s' % (
                                  n, mname, [p[2] if isinstance(p, tuple) and len(p) > 2 else p for _, p in got], BANK[n][mname]))
        for o in res.it.outcomes:
            if o.kind in ('assert_fail', 'hosterror', 'unbound') and B.AND(o.cond, dom) != 0:
                ok = False
                run.violation('C10-B', fi.relpath, fi.qualname, 'host error', 'look_up_rname(%d, mode) can fail: %s' % (n, o.payload))
        ok_all = ok_all and ok
        run.instance('C10-B', 'look_up_rname n=%d' % n, obligations=len(MODES), ok=ok,
                     sample={'n': n, 'map': BANK[n]})
    # SPSR selection: set_spsr writes exactly the current mode's slot; get_spsr reads it
    m = Machine(repo)
    rm = refmodel.M(m)
    B = m.B
    val = m.sym('ARG.value', 32)
    res, fi = m.run('Registers', 'set_spsr', [val])
    cp = rm.cpsr()
    dom = B.AND(B.var('ARCH[2]'), rm.valid_state())
    ok = True
    from .. import spec as specmod
    for mname, key in SPSR_BANK.items():
        old = rm.reg(key)
        want = rm.ite(rm.mode_is(cp, mname), val, old)
        tv = res.heap.get(P + key, V(old))
        r = specmod.diff_values(m.it, dom, tv, V(want), key)
        if r is not None:
            ok = False
            run.violation('C10-B', fi.relpath, fi.qualname, 'set ' + key, 'set_spsr: %s' % r[0])
    extra = [k for k in res.heap if k.replace(P, '') not in SPSR_BANK.values()]
    if extra:
        ok = False
        run.violation('C10-B', fi.relpath, fi.qualname, 'set_spsr frame', 'set_spsr writes %s' % extra)
    run.instance('C10-B', 'set_spsr', obligations=len(SPSR_BANK), ok=ok, sample={'banks': sorted(SPSR_BANK.values())})
    m = Machine(repo)
    rm = refmodel.M(m)
    B = m.B
    res, fi = m.run('Registers', 'get_spsr')
    cp = rm.cpsr()
    dom = B.AND(B.AND(B.var('ARCH[2]'), rm.valid_state()), B.NOT(B.OR(rm.mode_is(cp, 'usr'), rm.mode_is(cp, 'sys'))))
    want = None
    for mname, key in SPSR_BANK.items():
        want = rm.reg(key) if want is None else rm.ite(rm.mode_is(cp, mname), rm.reg(key), want)
    r = specmod.diff_values(m.it, dom, res.value, V(want), 'spsr')
    run.instance('C10-B', 'get_spsr', obligations=len(SPSR_BANK), ok=(r is None and not res.heap), sample={})
    if r is not None:
        run.violation('C10-B', fi.relpath, fi.qualname, 'get_spsr table', 'get_spsr reads a different slot than set_spsr '
                      'writes / the architecture selects: %s' % r[0])


def check_user_bank(run, repo, eff, rule='C10-U'):
    """LDM/STM (user registers) executed in any privileged mode must move the *User* bank:
    every register transfer goes through get_rmode/set_rmode(i, 0b10000)."""
    from ..binding import Binding
    bind = Binding(repo)
    for enc in ('LdmUserRegistersA1', 'StmUserRegistersA1'):
        ci = bind.abstract_of_encoding(enc)
        if ci is None:
            raise AnalysisError('encoding %s not bound' % enc)
        tr = Walker(repo, eff).walk(ci.methods['execute'], ci)
        ok = True
        fn = ci.name + '.execute'
        if enc.startswith('Ldm'):
            for e in tr.of('RegWrite'):
                if e.loops:
                    ok = False
                    run.violation(rule, ci.relpath, fn, norm_stmt(e.node, 100),
                                  'LDM (user registers) writes R[%s] of the *current* mode\'s bank; the User-mode register '
                                  'must be written (set_rmode(i, 0b10000, ...)): in FIQ mode R8-R12 are banked' % fmt(e.d['idx']))
            ws = [e for e in tr.of('RmodeWrite') if e.loops]
            if not ws or any(e.d['mode'] != ('const', 0b10000) for e in ws):
                ok = False
                run.violation(rule, ci.relpath, fn, 'user bank write', 'LDM (user registers) must write the User bank '
                              '(mode 0b10000) for every listed register')
        else:
            from ..flow import term_has
            for e in tr.of('MemWrite'):
                v = e.d['value']
                if term_has(v, lambda t: t[0] == 'reg' and t[1][0] == 'loopvar'):
                    ok = False
                    run.violation(rule, ci.relpath, fn, norm_stmt(e.node, 100),
                                  'STM (user registers) stores the current mode\'s register; the User-mode register must be '
                                  'stored (get_rmode(i, 0b10000))')
                for t in _sub(v):
                    if t[0] == 'rmode' and t[2] != ('const', 0b10000):
                        ok = False
                        run.violation(rule, ci.relpath, fn, norm_stmt(e.node, 100), 'STM (user registers) reads bank %s' % fmt(t[2]))
        run.instance(rule, ci.name, ok=ok, sample={'class': ci.name, 'bank': 'User (0b10000)'})


def _sub(t):
    from ..flow import subterms
    return [x for x in subterms(t) if isinstance(x, tuple)]


def check_ownership(run, repo):
    priv = {'_R', 'spsr_hyp', 'spsr_svc', 'spsr_abt', 'spsr_und', 'spsr_mon', 'spsr_irq', 'spsr_fiq'}
    regs = repo.cls('Registers')
    n = 0
    for mod in repo.modules.values():
        for node in ast.walk(mod.tree):
            if isinstance(node, ast.Attribute) and (node.attr in priv or (node.attr == 'elr_hyp' and isinstance(node.ctx, ast.Store))):
                n += 1
                inside = mod is regs.module and _enclosing_class(mod.tree, node) == 'Registers'
                if not inside:
                    run.violation('C10-O', mod.relpath, _enclosing_func(mod.tree, node) or '<module>',
                                  norm_stmt(node, 80), 'bank storage `%s` is accessed outside Registers: a write here bypasses '
                                  'the banking map' % node.attr)
    # _R subscripts only via look_up_rname(...) or RName.PC
    ok = True
    for fi in list(regs.methods.values()):
        for node in ast.walk(fi.node):
            if isinstance(node, ast.Subscript) and isinstance(node.value, ast.Attribute) and node.value.attr == '_R':
                n += 1
                k = node.slice
                good = (isinstance(k, ast.Call) and ast.unparse(k.func) == 'self.look_up_rname') or \
                       ast.unparse(k) == 'RName.PC' or (fi.name == '__init__')
                if not good:
                    ok = False
                    run.violation('C10-O', fi.relpath, fi.qualname, norm_stmt(node, 80),
                                  '_R is indexed by `%s`; only look_up_rname(n, mode) and RName.PC may select a physical register'
                                  % ast.unparse(k))
    run.instance('C10-O', 'bank storage accesses', obligations=n, ok=ok, sample={'sites': n})
    run.floor('bank storage access sites', n, 20)


def _enclosing_class(tree, node):
    for c in ast.walk(tree):
        if isinstance(c, ast.ClassDef):
            for x in ast.walk(c):
                if x is node:
                    return c.name
    return None


def _enclosing_func(tree, node):
    best = None
    for c in ast.walk(tree):
        if isinstance(c, (ast.FunctionDef,)):
            for x in ast.walk(c):
                if x is node:
                    best = c.name
    return best


def main(repo_path, tier, seed, replay=None):
    run = Run('C10', tier, level='proof', seed=seed)
    repo = Repo(repo_path)
    eff = Effects(repo)
    fa = FuncAnalyzer(repo)
    fr = FieldRanges(repo, fa)
    # a remembered banking decision (mode, n) -> storage cell is only right if the key is the whole input and nothing collides
    from .. import memo
    memo.check(run, repo, 'C10-MEMO', lambda rel, q: rel.endswith('registers.py') and q.startswith('Registers.'),
               'register banking: the storage cell of (register number, mode) is computed from the current arguments on every access')
    check_widths(run, repo, eff, fr, fa)
    check_banking(run, repo)
    check_ownership(run, repo)
    check_user_bank(run, repo, eff)
    from . import c11
    for method in sorted(refmodel.ENTRY_MODELS):
        # exception entry writes exactly the target mode's SPSR / LR bank (C11-T equality re-evaluated here)
        c11.compare_entry(run, repo, method, rule='C10-E')
    # positive control: replace add(...,32) by + in the first opcode (sorted) that uses it in a register write
    fired = False
    what = ''
    for ci in sorted(repo.abstract_opcode_classes(), key=lambda c: c.name):
        src = ci.module.source
        m = _unwrap_add(src)
        if m is None:
            continue
        mrepo = Repo(repo_path, overrides={ci.module.relpath: m})
        mci = mrepo.cls(ci.name)
        tr = Walker(mrepo, eff).walk(mci.methods['execute'], mci)
        te = TermEval(mrepo, FuncAnalyzer(mrepo), fr.for_abstract(ci.name), mci.module)
        te.loops = loops_of(tr)
        tmp = Run('C10')
        judge_trace(tmp, 'C10-W', mrepo, tr, te, ci.relpath, ci.name + '.execute', None)
        if tmp.findings:
            fired = True
            what = '%s: add(a, b, 32) replaced by a + b' % ci.name
            break
    run.control('C10-W wrap removed', fired, what)
    run.exhaustive = True
    run.undecided = []
    run.assumptions = ['inductive hypotheses: registers, SPSRs, PC, system registers read as values in [0, 2^32) (64-bit for '
                       'the *_64 translation-table registers); a memory read of size s returns a value in [0, 2^(8s))',
                       'mock coprocessor hooks deliver 32-bit words',
                       'opcode field ranges are those of the accepted words of the decode layer (sa/fields.py)']
    return run.finish(
        'C10: (W) inductive range invariant of every register / SPSR / PC store by interval analysis over all 273 execute() '
        'bodies and all ArmV6/Registers methods (helpers analysed from source, small-range parameters case-split, loops by '
        'fixpoint with widening; sinks must be proved, unknown is a violation); (B) banking and SPSR selection tables '
        'extracted exactly and compared with the architectural map for every register number x legal mode; (O) ownership of '
        'the bank storage. Together: a write is visible exactly in the modes mapped to the same physical register, and all '
        'stored values stay in 0..2^32-1, for every sequence of accesses (by induction over single accesses).',
        './check C10 --tier %s' % tier)


def _unwrap_add(src):
    tree = ast.parse(src)
    done = [False]

    class Tr(ast.NodeTransformer):
        def visit_Call(self, node):
            self.generic_visit(node)
            if not done[0] and isinstance(node.func, ast.Name) and node.func.id in ('add', 'bits_add') \
                    and len(node.args) == 3 and isinstance(node.args[2], ast.Constant) and node.args[2].value == 32:
                done[0] = True
                return ast.BinOp(left=node.args[0], op=ast.Add(), right=node.args[1])
            return node
    new = Tr().visit(tree)
    if not done[0]:
        return None
    ast.fix_missing_locations(new)
    return ast.unparse(new)
