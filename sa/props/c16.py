"""C16 - memory hub: accesses touch exactly the mapped device bytes, never resize or escape.

  C16-B  bounded slices: every slice store / load on a MemoryType backing array is bounded
         by the device size on all paths (a bytearray slice store past the end *grows* the
         array): the upper bound is min(..., self.size) (or dominated by a comparison with
         self.size), the stored data is cut to the slice length, and nothing but bound tests
         guards the store; reads are padded to the requested size.
  C16-M  first match: get_memory_by_address returns, inside an ascending loop over the
         controller list, the first controller with beginning <= address < end, consults no
         other state, and falls through to None.
  C16-U  unmapped path: the hub returns 0 for reads and does nothing for writes when no
         controller matches; otherwise it delegates exactly (paddr - beginning, size).
  C16-L  formats: LENGTH_FORMATS == {1:'B', 2:'<H', 4:'<I', 8:'<Q'} (little-endian, struct
         size == key) and to_int / from_int use exactly that table.
  C16-O  ownership / statelessness: only the device's own methods touch its backing array; hub
         methods other than construction write no attribute (no cache, no cursor).
  C16-V  value range: every value reaching the hub store is < 2^(8*size) (else struct.error) -
         interval analysis at all mem_*_set call sites and accessor bodies.
"""
import ast
import struct

from ..effects import Effects
from ..fields import FieldRanges
from ..ranges import FuncAnalyzer
from ..report import Run, AnalysisError
from ..srcmodel import Repo, norm_stmt
from . import c10

HUB = 'armulator.armv6.memory_controller_hub'
MT = 'armulator.armv6.memory_types'
REF_FORMATS = {1: 'B', 2: '<H', 4: '<I', 8: '<Q'}


def u(n):
    return ast.unparse(n)


def backing_arrays(ci):
    """attributes of a device class assigned a bytearray(...) in __init__"""
    out = set()
    init = ci.methods.get('__init__')
    if init is None:
        return out
    for n in ast.walk(init.node):
        if isinstance(n, ast.Assign) and isinstance(n.value, ast.Call) and u(n.value.func) in ('bytearray', 'list'):
            for t in n.targets:
                if isinstance(t, ast.Attribute) and u(t.value) == 'self':
                    out.add(t.attr)
    return out


def dominating_tests(func, target):
    """List of (test, polarity) of the If statements enclosing `target` inside func."""
    out = []

    def exits(body):
        return bool(body) and isinstance(body[-1], (ast.Return, ast.Raise, ast.Continue, ast.Break))

    def rec(stmts, acc):
        acc = list(acc)
        for s in stmts:
            if not (s is target or any(x is target for x in ast.walk(s))):
                # guard clause: `if X: return ...` before the target means not X from here on (and vice versa)
                if isinstance(s, ast.If) and exits(s.body) and not exits(s.orelse):
                    acc.append((s.test, False))
                elif isinstance(s, ast.If) and s.orelse and exits(s.orelse) and not exits(s.body):
                    acc.append((s.test, True))
                continue
            if s is target or any(x is target for x in ast.walk(s)):
                if isinstance(s, ast.If):
                    if any(x is target for b in s.body for x in ast.walk(b)):
                        return rec(s.body, acc + [(s.test, True)])
                    if any(x is target for b in s.orelse for x in ast.walk(b)):
                        return rec(s.orelse, acc + [(s.test, False)])
                    return acc
                if isinstance(s, (ast.For, ast.While, ast.With, ast.Try)):
                    inner = rec(getattr(s, 'body', []), acc + [(s, 'loop')])
                    return inner
                return acc
        return acc
    return rec(func.body, [])


def local_defs(func):
    d = {}
    for n in ast.walk(func):
        if isinstance(n, ast.Assign) and len(n.targets) == 1 and isinstance(n.targets[0], ast.Name):
            d.setdefault(n.targets[0].id, []).append(n.value)
    return d


def subst(expr, defs, depth=0):
    """Text of expr with single-definition locals replaced by their definitions (so that
    introducing a temporary does not change what the rules see)."""
    import copy

    class S(ast.NodeTransformer):
        def visit_Name(self, node):
            if isinstance(node.ctx, ast.Load) and node.id in defs and len(defs[node.id]) == 1 and depth < 4:
                v = defs[node.id][0]
                if not (isinstance(v, ast.Call) and u(v.func) == 'self.get_memory_by_address'):
                    return ast.parse(subst(v, defs, depth + 1), mode='eval').body
            return node
    return u(S().visit(copy.deepcopy(expr)))


def is_size_bound(expr, defs, depth=0):
    """expr is provably <= self.size: min(..., self.size) / self.size / len(self.<array>) or a local defined so."""
    if depth > 3:
        return False
    s = u(expr)
    if s in ('self.size',) or s.startswith('len(self.'):
        return True
    if isinstance(expr, ast.Call) and u(expr.func) == 'min' and any(is_size_bound(a, defs, depth + 1) for a in expr.args):
        return True
    if isinstance(expr, ast.Name) and expr.id in defs and len(defs[expr.id]) == 1:
        return is_size_bound(defs[expr.id][0], defs, depth + 1)
    if isinstance(expr, ast.Name) and expr.id in defs and len(defs[expr.id]) == 2 and CURRENT.get('func') is not None:
        # clamp idiom: `end = <x>` followed by `if end > self.size: end = self.size`
        sizes = [d for d in defs[expr.id] if u(d) == 'self.size' or u(d).startswith('len(self.')]
        if len(sizes) == 1:
            lim = u(sizes[0])
            for iff in ast.walk(CURRENT['func']):
                if isinstance(iff, ast.If) and not iff.orelse and u(iff.test) in (
                        '%s > %s' % (expr.id, lim), '%s >= %s' % (expr.id, lim), '%s < %s' % (lim, expr.id), '%s <= %s' % (lim, expr.id)):
                    if any(isinstance(b_, ast.Assign) and u(b_.targets[0]) == expr.id and b_.value is sizes[0] for b_ in iff.body):
                        return True
    if isinstance(expr, ast.IfExp):
        # `x if x < self.size else self.size`
        t = u(expr.test)
        for lim in ('self.size',):
            if (t in ('%s < %s' % (u(expr.body), lim), '%s <= %s' % (u(expr.body), lim)) and u(expr.orelse) == lim) or \
                    (t in ('%s > %s' % (u(expr.orelse), lim), '%s >= %s' % (u(expr.orelse), lim)) and u(expr.body) == lim):
                return True
    if isinstance(expr, ast.Call) and isinstance(expr.func, ast.Attribute) and u(expr.func.value) == 'self' and HELPERS.get(expr.func.attr) is not None:
        # a private helper whose body is a single `return <expr>`: judge the returned expression
        return is_size_bound(HELPERS[expr.func.attr], {}, depth + 1)
    return False


def zero_padded_at_end(expr, defs, depth=0):
    """expr is <bytes> completed to `size` with zero bytes on the right: x.ljust(size, b'\\x00'), x + bytes(size - len(x)),
    x + b'\\x00' * (size - len(x)); single-definition locals are looked through."""
    if depth > 4:
        return False
    if isinstance(expr, ast.Name) and expr.id in defs and len(defs[expr.id]) == 1:
        return zero_padded_at_end(defs[expr.id][0], defs, depth + 1)
    if isinstance(expr, ast.Call) and isinstance(expr.func, ast.Name) and expr.func.id in ('bytes', 'bytearray') and len(expr.args) == 1:
        return zero_padded_at_end(expr.args[0], defs, depth + 1)
    if isinstance(expr, ast.Call) and isinstance(expr.func, ast.Attribute) and expr.func.attr == 'ljust' and len(expr.args) == 2:
        a, b = expr.args
        return u(a) == 'size' and isinstance(b, ast.Constant) and isinstance(b.value, bytes) and b.value == b'\x00'
    if isinstance(expr, ast.BinOp) and isinstance(expr.op, ast.Add):
        pad = expr.right
        if isinstance(pad, ast.Call) and u(pad.func) in ('bytes', 'bytearray') and len(pad.args) == 1 and u(pad.args[0]).startswith('size - len('):
            return True
        if isinstance(pad, ast.BinOp) and isinstance(pad.op, ast.Mult):
            for c, k in ((pad.left, pad.right), (pad.right, pad.left)):
                if isinstance(c, ast.Constant) and c.value == b'\x00' and u(k).strip('()').startswith('size - len('):
                    return True
    return False


HELPERS = {}
CURRENT = {}


def check_devices(run, repo):
    m = repo.module(MT)
    n = 0
    HELPERS.clear()
    for ci in m.classes.values():
        for fi in ci.methods.values():
            body = [s_ for s_ in fi.node.body if not (isinstance(s_, ast.Expr) and isinstance(s_.value, ast.Constant))]
            if len(body) == 1 and isinstance(body[0], ast.Return) and body[0].value is not None:
                HELPERS[fi.name] = body[0].value
    for ci in m.classes.values():
        if not ci.is_subclass_of('MemoryType') or ci.name == 'MemoryType':
            continue
        arrays = backing_arrays(ci)
        if not arrays:
            continue
        for fi in ci.methods.values():
            if fi.name == '__init__':
                continue
            defs = local_defs(fi.node)
            CURRENT['func'] = fi.node
            for node in ast.walk(fi.node):
                if not (isinstance(node, ast.Subscript) and isinstance(node.value, ast.Attribute)
                        and u(node.value.value) == 'self' and node.value.attr in arrays):
                    continue
                n += 1
                store = isinstance(node.ctx, ast.Store)
                sl = node.slice
                ok = True
                fn = fi.qualname
                if store:
                    if not isinstance(sl, ast.Slice) or sl.lower is None or sl.upper is None or sl.step is not None:
                        # item store by index never resizes; it must still be in range
                        guards = dominating_tests(fi.node, node)
                        if not any(('self.size' in u(t) or 'len(self.' in u(t)) for t, p in guards if p != 'loop'):
                            ok = False
                            run.violation('C16-B', ci.relpath, fn, norm_stmt(node, 80),
                                          'store into the backing array with an index that is not compared with the device size')
                        continue
                    guards = dominating_tests(fi.node, node)
                    bounded = is_size_bound(sl.upper, defs) or any(
                        p is True and isinstance(t, ast.Compare) and ('self.size' in u(t) or 'len(self.' in u(t))
                        and u(sl.upper) in u(t) for t, p in guards)
                    if not bounded:
                        ok = False
                        run.violation('C16-B', ci.relpath, fn, norm_stmt(node, 80),
                                      'slice store whose upper bound `%s` is not limited to the device size: a bytearray slice '
                                      'store past the end grows the device (or spills)' % u(sl.upper))
                    # the assigned data must be cut to the slice length
                    asg = [a for a in ast.walk(fi.node) if isinstance(a, ast.Assign) and any(t is node for t in a.targets)]
                    rhs = asg[0].value if asg else None
                    want = '%s - %s' % (u(sl.upper), u(sl.lower))
                    cut = isinstance(rhs, ast.Subscript) and isinstance(rhs.slice, ast.Slice) and rhs.slice.lower is None \
                        and rhs.slice.upper is not None and u(rhs.slice.upper) == want
                    if bounded and not cut:
                        ok = False
                        run.violation('C16-B', ci.relpath, fn, norm_stmt(asg[0] if asg else node, 100),
                                      'the data stored into the slice is not cut to the slice length (`value[:%s]`): a longer '
                                      'value would resize the device' % want)
                    # nothing but bound tests may guard the store (a data-dependent skip drops writes)
                    for t, p in guards:
                        if p == 'loop':
                            continue
                        names = {x.id for x in ast.walk(t) if isinstance(x, ast.Name)}
                        attrs = {x.attr for x in ast.walk(t) if isinstance(x, ast.Attribute)}
                        if 'value' in names or not (attrs & {'size'} or any('len' == getattr(c.func, 'id', None)
                                                                            for c in ast.walk(t) if isinstance(c, ast.Call))
                                                    or names <= {'address', 'size', 'end', 'start'} | set(defs)):
                            ok = False
                            run.violation('C16-B', ci.relpath, fn, 'guard ' + norm_stmt(t, 80),
                                          'the store is guarded by a test that is not a bound test: some in-range writes are dropped')
                    # no early return before the store that depends on the data
                    for r in ast.walk(fi.node):
                        if isinstance(r, ast.Return) and r.lineno < node.lineno:
                            g = dominating_tests(fi.node, r)
                            if any('value' in {x.id for x in ast.walk(t) if isinstance(x, ast.Name)} for t, p in g if p != 'loop'):
                                ok = False
                                run.violation('C16-B', ci.relpath, fn, 'early return', 'write returns early depending on the data')
                else:
                    # slice load: python clamps; the result must be padded to `size`
                    rets = [r for r in ast.walk(fi.node) if isinstance(r, ast.Return) and r.value is not None]
                    padded = any(zero_padded_at_end(r.value, defs) for r in rets)
                    other = [r for r in rets if not zero_padded_at_end(r.value, defs) and any(
                        isinstance(c, ast.Call) and isinstance(c.func, ast.Attribute) and c.func.attr in ('zfill', 'rjust', 'center', 'ljust')
                        for c in ast.walk(r.value))]
                    for r in other:
                        ok = False
                        run.violation('C16-B', ci.relpath, fn, norm_stmt(r, 80),
                                      'a short chunk must be completed with zero bytes at the END (`.ljust(size, b"\\x00")`): this padding '
                                      'puts other bytes or puts them in front, so a read that runs past the end of the device returns wrong data')
                    guards = dominating_tests(fi.node, node)
                    if isinstance(sl, ast.Slice) and not padded and not any('self.size' in u(t) for t, p in guards if p != 'loop'):
                        ok = False
                        run.violation('C16-B', ci.relpath, fn, norm_stmt(node, 80),
                                      'slice load past the end returns a short chunk (struct.error in the hub): the result is '
                                      'neither padded to the requested size nor bounded by the device size')
                run.instance('C16-B', '%s %s' % (fn, norm_stmt(node, 50)), ok=ok,
                             sample={'function': fn, 'access': norm_stmt(node, 60), 'store': store})
    run.floor('backing-array accesses', n, 2)
    return n


def check_hub_paths(run, repo, m, hub):
    """C16-M / C16-U on the effect traces (M3) of the hub methods - what is looked up, what is returned or stored under which
    condition - rather than on the statement shapes, so that guard clauses, temporaries, single-exit rewrites and explicit
    `return None` make no difference."""
    from ..effects import _SelfWalker
    from ..flow import split_writes, guard_has, fmt

    def walk(name):
        fi = hub.methods.get(name)
        if fi is None:
            raise AnalysisError('anchor vanished: MemoryControllerHub.%s' % name)
        return fi, _SelfWalker(repo, 'MemoryControllerHub', []).walk(fi, hub)
    EFFECTS = ('ItemStore', 'ObjStore', 'ProcStore', 'SelfStore', 'ObjCall', 'DynCall', 'New', 'Raise')
    # ---- first match ---------------------------------------------------------------
    fi, tr = walk('get_memory_by_address')
    ok, why = True, ''
    loops = [e for e in tr.events if e.kind == 'LoopEnter']
    rets = [e for e in tr.events if e.kind == 'Return']
    addr = ('name', fi.params()[1]) if len(fi.params()) > 1 else None
    if len(loops) != 1 or loops[0].d['loop'][0] != 'for' or loops[0].d['loop'][3] != ('procattr', 'memories'):
        ok, why = False, 'the lookup is not one loop over self.memories in registration order'
    elif any(e.kind in EFFECTS or e.kind in ('Break', 'Continue') for e in tr.events):
        ok, why = False, 'the lookup has side effects or leaves the loop early'
    else:
        lid = loops[0].d['loop'][1]
        var = ('loopvar', loops[0].d['loop'][2], lid, ('procattr', 'memories'))
        beg, end = ('getattr', var, 'beginning'), ('getattr', var, 'end')
        forms = [('and', [('cmp', 'LtE', beg, addr), ('cmp', 'Lt', addr, end)]), ('and', [('cmp', 'Lt', addr, end), ('cmp', 'LtE', beg, addr)]),
                 ('and', [('cmp', 'GtE', addr, beg), ('cmp', 'Lt', addr, end)]), ('and', [('cmp', 'Lt', addr, end), ('cmp', 'GtE', addr, beg)]),
                 ('and', [('cmp', 'LtE', beg, addr), ('cmp', 'Gt', end, addr)]), ('and', [('cmp', 'GtE', addr, beg), ('cmp', 'Gt', end, addr)])]
        inside = [e for e in rets if e.loops]
        after = [e for e in rets if not e.loops]
        if len(inside) != 1 or inside[0].d['value'] != var:
            ok, why = False, 'the loop must return the controller it is looking at, exactly once'
        else:
            gs = [g for g in inside[0].guards]
            nested = [t for t, pol, _ in gs if pol]
            test = nested[0] if len(nested) == 1 else ('and', nested)
            if len([g for g in gs if not g[1]]) or not any(repr(test) == repr(f) for f in forms):
                ok, why = False, 'the range test is `%s`, expected beginning <= address < end' % ' and '.join(fmt(t) for t in nested)[:120]
        for e in after:
            if e.d['value'] != ('const', None):
                ok, why = False, 'after the loop the lookup must report "no controller" (None)'
    run.instance('C16-M', 'get_memory_by_address', ok=ok, sample={'function': fi.qualname, 'shape': 'first match, ascending'})
    if not ok:
        run.violation('C16-M', m.relpath, fi.qualname, 'first-match lookup',
                      'the controller lookup must return the first registered controller whose [beginning, end) contains the '
                      'address and consult nothing else: %s' % why)
    # ---- read / write paths -----------------------------------------------------------
    for name, is_write in (('__getitem__', False), ('__setitem__', True)):
        fi, tr = walk(name)
        ok = True

        def bad(construct, msg):
            nonlocal ok
            ok = False
            run.violation('C16-U', m.relpath, fi.qualname, construct, msg)
        looks = [e for e in tr.events if e.kind == 'ProcCall' and e.d['method'] == 'get_memory_by_address']
        if len(looks) != 1 or len(looks[0].d['args']) != 1:
            bad('delegation', 'expected exactly one controller lookup, found %d' % len(looks))
            run.instance('C16-U', fi.qualname, obligations=4, ok=False, sample={'function': fi.qualname})
            continue
        L = looks[0].d['term']
        pa = looks[0].d['args'][0]
        key = ('name', fi.params()[1])
        size_ok = lambda t: t in (('proj', key, 1), ('name', 'size'))
        pa_ok = pa in (('getattr', ('getattr', ('proj', key, 0), 'paddress'), 'physicaladdress'),
                       ('getattr', ('getattr', ('name', 'memaddrdesc'), 'paddress'), 'physicaladdress'))
        if not pa_ok:
            bad('looked-up address', 'the controller is looked up with `%s`, not the physical address of the descriptor' % fmt(pa)[:80])

        def found(t, pol):
            return (t == ('cmp', 'IsNot', L, ('const', None)) and pol) or (t == ('cmp', 'Is', L, ('const', None)) and not pol) or \
                   (t == L and pol) or (t == ('not', L) and not pol)

        def missing(t, pol):
            return found(t, not pol)
        is_found = lambda ev: any(found(t, p) for t, p, _ in ev.guards)
        is_missing = lambda ev: any(missing(t, p) for t, p, _ in ev.guards)
        want_index = ('tuple', [('op', 'Sub', pa, ('getattr', L, 'beginning')), None])

        def device_access(base, index):
            return base == ('getattr', L, 'mem') and index[0] == 'tuple' and len(index[1]) == 2 and \
                index[1][0] == want_index[1][0] and size_ok(index[1][1])
        if not is_write:
            leaves = split_writes([e for e in tr.events if e.kind == 'Return'])
            kinds = set()
            for e in leaves:
                v = e.d['value']
                if v == ('const', 0):
                    kinds.add('zero')
                    if not is_missing(e):
                        bad('unmapped read', '0 is returned on a path where a controller was found (or the test is missing)')
                elif v[0] == 'call' and v[1] == 'to_int' and len(v[2]) == 2:
                    kinds.add('data')
                    d = v[2][0]
                    if not (d[0] == 'index' and device_access(d[1], d[2])):
                        bad('device offset', 'the device must be read at exactly (physical address - beginning, size); found `%s`' % fmt(d)[:120])
                    if not size_ok(v[2][1]):
                        bad('read conversion', 'the bytes read must be converted with to_int(data, size)')
                    if not is_found(e):
                        bad('unmapped test', 'the device is read without the "controller found" test')
                else:
                    bad('read result', 'the hub returns `%s`: neither the converted device bytes nor 0' % fmt(v)[:100])
            if kinds != {'zero', 'data'}:
                bad('unmapped read', 'a read must return the device bytes when a controller covers the address and 0 otherwise')
        else:
            stores = [e for e in tr.events if e.kind == 'ItemStore']
            if len(stores) != 1:
                bad('delegation', 'expected exactly one delegated device store, found %d' % len(stores))
            for e in stores:
                if not device_access(e.d['base'], e.d['index']):
                    bad('device offset', 'the device must be written at exactly (physical address - beginning, size)')
                v = e.d['value']
                if not (v[0] == 'call' and v[1] == 'from_int' and len(v[2]) == 2 and v[2][0] == ('name', fi.params()[2]) and size_ok(v[2][1])):
                    bad('write conversion', 'the stored bytes must be from_int(value, size)')
                if not is_found(e):
                    bad('unmapped test', 'the device is written without the "controller found" test (unmapped addresses ignore writes)')
        for e in tr.events:
            if e.kind in ('ObjStore', 'ProcStore', 'SelfStore', 'New', 'Raise') or (e.kind == 'ItemStore' and not is_write):
                bad('side effect', 'the hub has an effect besides the delegated device access: `%s`' % e.text()[:80])
        run.instance('C16-U', fi.qualname, obligations=4, ok=ok, sample={'function': fi.qualname})


def check_hub(run, repo):
    m = repo.module(HUB)
    hub = m.classes.get('MemoryControllerHub')
    if hub is None:
        raise AnalysisError('anchor vanished: MemoryControllerHub')
    check_hub_paths(run, repo, m, hub)
    # ---- statelessness ----------------------------------------------------------------
    ok = True
    for fi in hub.methods.values():
        if fi.name in ('__init__', 'add_memory', 'from_memory_list'):
            continue
        for nnode in ast.walk(fi.node):
            if isinstance(nnode, (ast.Assign, ast.AugAssign)):
                tg = nnode.targets if isinstance(nnode, ast.Assign) else [nnode.target]
                for t in tg:
                    if isinstance(t, ast.Attribute) and u(t.value) == 'self':
                        ok = False
                        run.violation('C16-O', m.relpath, fi.qualname, norm_stmt(nnode, 80),
                                      'the hub keeps per-access state (`%s`): the result of an access then depends on the '
                                      'history of earlier accesses' % u(t))
            if isinstance(nnode, ast.Call) and isinstance(nnode.func, ast.Attribute) and nnode.func.attr in (
                    'append', 'insert', 'pop', 'remove', 'sort', 'reverse', 'clear', 'update', 'setdefault'):
                if u(nnode.func.value).startswith('self.'):
                    ok = False
                    run.violation('C16-O', m.relpath, fi.qualname, norm_stmt(nnode, 80), 'the hub mutates its own state during an access')
    init = hub.methods.get('__init__')
    if init is not None:
        attrs = [u(t) for n_ in ast.walk(init.node) if isinstance(n_, ast.Assign) for t in n_.targets]
        if attrs != ['self.memories']:
            ok = False
            run.violation('C16-O', m.relpath, init.qualname, 'hub attributes',
                          'the hub is expected to hold only the controller list; found %s (an extra attribute is a cache or '
                          'shared closure in waiting)' % attrs)
    run.instance('C16-O', 'hub statelessness', ok=ok, sample={'class': 'MemoryControllerHub'})
    # ---- ownership of the backing arrays ---------------------------------------------
    mt = repo.module(MT)
    arrays = set()
    for ci in mt.classes.values():
        arrays |= backing_arrays(ci)
    ok = True
    for mod in repo.modules.values():
        if mod is mt:
            continue
        for nnode in ast.walk(mod.tree):
            if isinstance(nnode, ast.Attribute) and nnode.attr in arrays:
                ok = False
                run.violation('C16-O', mod.relpath, '<module>', norm_stmt(nnode, 80),
                              'device backing storage `%s` is accessed outside the device class' % nnode.attr)
    run.instance('C16-O', 'backing array ownership', ok=ok, sample={'arrays': sorted(arrays)})
    # ---- formats -------------------------------------------------------------------------
    node = m.assigns.get('LENGTH_FORMATS')
    ok = True
    table = None
    try:
        table = ast.literal_eval(node) if node is not None else None
    except Exception:
        table = None
    if table != REF_FORMATS:
        ok = False
        run.violation('C16-L', m.relpath, '<module>', 'LENGTH_FORMATS',
                      'the size -> struct format table is %r; the architecture needs little-endian %r' % (table, REF_FORMATS))
    else:
        for k, f in table.items():
            if struct.calcsize(f) != k:
                ok = False
    for fname in ('to_int', 'from_int'):
        f = m.functions.get(fname)
        if f is None or 'LENGTH_FORMATS[%s]' % f.params()[1] not in u(f.node):
            ok = False
            run.violation('C16-L', m.relpath, fname, 'format lookup', '%s must take its format from LENGTH_FORMATS[length]' % fname)
    run.instance('C16-L', 'LENGTH_FORMATS', obligations=4, ok=ok, sample={'table': REF_FORMATS})


def value_sink(ob):
    return ob.what.startswith(('store value', 'value passed to mem', 'value stored to the memory hub', 'store size',
                               'size passed to'))


def main(repo_path, tier, seed, replay=None):
    run = Run('C16', tier, level='proof', seed=seed)
    repo = Repo(repo_path)
    import re
    from .. import memo
    memo.check(run, repo, 'C16-MEMO', lambda rel, q: rel.endswith('memory_controller_hub.py') or rel.endswith('memory_types.py'),
               'the memory controller hub and the memory devices')
    check_devices(run, repo)
    check_hub(run, repo)
    eff = Effects(repo)
    fa = FuncAnalyzer(repo)
    fr = FieldRanges(repo, fa)
    c10.check_widths(run, repo, eff, fr, fa, rule='C16-V', select=value_sink)
    # positive control: the unbounded form of RAM.write must be flagged
    mt = repo.module(MT)
    src = mt.source
    fired = False
    what = ''
    import re
    m = re.search(r'self\.memory_array\[(\w+):(\w+)\] = value\[:\2 - \1\]', src)
    if m:
        mutated = src.replace(m.group(0), 'self.memory_array[%s:%s + size] = value' % (m.group(1), m.group(1)), 1)
        mrepo = Repo(repo_path, overrides={mt.relpath: mutated})
        tmp = Run('C16')
        check_devices(tmp, mrepo)
        fired = bool(tmp.findings)
        what = 'RAM.write slice bound replaced by address + size'
    else:
        # fall back: any class with a backing array and an unbounded synthetic store
        synth = src + '\n\nclass _Ctl(MemoryType):\n    def __init__(self, size):\n        self.size = size\n' \
                      '        self.buf = bytearray(size)\n    def read(self, address, size):\n        return bytes(self.buf[address:address + size]).ljust(size, b"\\0")\n' \
                      '    def write(self, address, size, value):\n        self.buf[address:address + size] = value\n'
        mrepo = Repo(repo_path, overrides={mt.relpath: synth})
        tmp = Run('C16')
        check_devices(tmp, mrepo)
        fired = bool(tmp.findings)
        what = 'synthetic device with an unbounded slice store'
    run.control('C16-B unbounded slice store', fired, what)
    run.exhaustive = True
    run.assumptions = ['devices are the MemoryType subclasses of memory_types.py (RAM); their size attribute equals the length '
                       'of the backing array (set together in __init__)',
                       'struct.pack(fmt, v) returns exactly calcsize(fmt) bytes']
    run.undecided = []
    return run.finish(
        'C16 is decided structurally for the hub and the RAM device: bounded slice stores / padded loads on every path, '
        'first-match lookup with no other state, exact (address - beginning, size) delegation, unmapped read-0 / write-ignore '
        'paths, little-endian format table, ownership of the backing array, and the value-range obligation of every store '
        '(interval analysis).  Each operation\'s frame is one bounded slice of one device and the hub keeps no state, so the '
        'all-histories clause follows by induction over single accesses.',
        './check C16 --tier %s' % tier)
