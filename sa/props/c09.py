"""C09 - multiply / divide / saturating / packed-SIMD / extend / bit-field / reverse instructions.

  C09-V  value: each execute() body is interpreted once in the bit-vector domain (sa/opexec.py:
         symbolic operand registers, CPSR, control fields restricted to the decode-feasible
         values, condition_passed() free) and the final value of every register and of every
         CPSR bit is compared, as a boolean function of the initial state, with a reference
         model transcribed from the architecture pseudocode (sa/oprefs.py).  Operand
         selection, signed/unsigned interpretation, lane slicing and lane isolation,
         accumulate, rounding constant, truncation, saturation bounds, N/Z from the truncated
         result, the sticky Q condition, the four GE flags, UNPREDICTABLE and zero-divisor
         handling are all decided for every operand value.  Only `*` on wide operands and `/`
         are uninterpreted (the same symbol on both sides): that Python's integer product and
         quotient are the mathematical ones is trusted.
  C09-O  every operand register is read before any register is written (so Rd == Rn etc. read
         the old values; also the soundness condition of the distinct-index harness).
  C09-F  frame: only R[d] / R[dHi],R[dLo] and the flags of the family (walker; callee effects
         through summaries); C09-Q: CPSR.Q is only ever assigned the constant 1 (sticky).
  C09-G  guard, C09-W widths.
Not decided: USAD8 / USADA8 values (BDD of a sum of four independent byte differences is out
of reach; their frame, guard, order and widths are decided).
"""
import re
import time

from ..binding import Binding
from ..effects import Effects
from ..fields import FieldRanges
from ..flow import Walker, guard_has, fmt, exclusive
from ..opexec import OpHarness
from .. import oprefs
from ..oprefs import X, N_BIT, Z_BIT, C_BIT, V_BIT, Q_BIT, GE_LO
from ..ranges import FuncAnalyzer
from ..report import Run, AnalysisError
from ..srcmodel import Repo
from .. import spec as specmod
from ..bitdom import V, Int, Unsupported
from . import c10
from .c05 import effect_events, is_condition_passed

PAT = re.compile(r'^(Mul|Mla|Mls|Um|Sm(?!c)|Sdiv|Udiv|Q|Uq|Sadd|Ssub|Sasx|Ssax|Sh|Uh|Uadd|Usub|Uasx|Usax|Sel|Usad|Ssat|Usat|Sxt|Uxt|'
                 r'Bfc|Bfi|Sbfx|Ubfx|Pkh|Rev|Rbit|Clz)')
FLAGNAME = {N_BIT: 'N', Z_BIT: 'Z', C_BIT: 'C', V_BIT: 'V', Q_BIT: 'Q', GE_LO: 'GE[0]', GE_LO + 1: 'GE[1]', GE_LO + 2: 'GE[2]',
            GE_LO + 3: 'GE[3]'}
Q_FAMILIES = {'Qadd', 'Qsub', 'Qdadd', 'Qdsub', 'Ssat', 'Usat', 'Ssat16', 'Usat16', 'Smla', 'Smlaw', 'Smlad', 'Smlsd', 'Smuad'}
NZ_FAMILIES = {'Mul', 'Mla', 'Umull', 'Umlal', 'Smull', 'Smlal'}
GE_FAMILIES = re.compile(r'^(S|U)(add8|sub8|add16|sub16|asx|sax)$')


def classes_of(repo, bind):
    out = {}
    for enc in bind.enc2cls:
        if PAT.match(enc):
            a = bind.abstract_of_encoding(enc)
            if a is not None:
                out.setdefault(a.name, (a, set()))[1].add(enc)
    return out


def check_value(run, repo, fr, ci, encs):
    """C09-V for one class; returns (#obligations, ok)."""
    name = ci.name
    fn = name + '.execute'
    model = oprefs.model_for(name)
    if model is None:
        raise AnalysisError('no reference model for %s' % name)
    nob, ok = 0, True
    for fixed, align in oprefs.variants(name, fr):
        n1, ok1 = check_variant(run, repo, fr, ci, model, fixed, align)
        nob += n1
        ok = ok and ok1
    return nob, ok


def check_variant(run, repo, fr, ci, model, fixed, align, rule='C09-V', top_roles=(), extra_words=(), abstract_shift=False):
    name = ci.name
    fn = name + '.execute'
    h = OpHarness(repo, fr, name, align=align, fixed=fixed, top_roles=top_roles, extra_words=extra_words, abstract_shift=abstract_shift).run()
    x = X(h)
    h.ref_mode = True
    try:
        o = model(x)
    except Unsupported as u:
        run.violation(rule, ci.relpath, fn, 'operands of the multiplier', 'the instruction multiplies / divides operands other than those of the architecture (%s)' % u)
        return 1, False
    B, it = h.B, h.it
    cond = h.cond()
    ok = True
    nob = 0
    if getattr(o, 'shifter_problem', None):
        run.violation(rule, ci.relpath, fn, 'shifter application', o.shifter_problem)
        return 1, False

    def bad(construct, msg, witness):
        nonlocal ok
        ok = False
        w = h.describe(witness) if witness not in (0, None) else {}
        run.violation(rule, ci.relpath, fn, construct, msg + ('; e.g. %s' % w if w else ''), {'witness': w})
    dom = B.AND(h.dom, B.NOT(o.unpred))
    # host errors
    for oc in h.hosterrors:
        c = B.AND(oc.cond, dom)
        if c != 0:
            bad('host error', 'a host-level error is reachable: %s %s' % (oc.kind, str(oc.payload)[:80]), c)
    # exceptions
    nob += 1
    want_raise = B.AND(cond, o.raises)
    d = B.AND(dom, B.XOR(h.raised, want_raise))
    if d != 0:
        bad('exception', 'the instruction generates an exception on a different set of states than the architecture', d)
    live = B.AND(dom, B.NOT(want_raise))
    nob += 1
    d = B.AND(live, B.NOT(h.returned))
    if d != 0:
        bad('termination', 'execute() does not complete for some valid state', d)
    live = B.AND(live, h.returned)
    # registers
    wr = B.AND(cond, o.written)
    for role in h.regroles:
        nob += 1
        init = h.R(role)
        want = it.i_ite(wr, o.regs[role], init) if role in o.regs else init
        r = specmod.diff_values(it, live, h.final_reg(role), V(Int(it.ext(want, 32))), 'R[%s]' % role)
        if r is not None:
            bad('R[%s]' % role, 'R[%s] differs from the architecture: %s' % (role, r[0]), r[1])
    # flags
    tv = h.final_cpsr()
    tc = tv.single()
    if not isinstance(tc, Int):
        bad('CPSR', 'the final CPSR is not a single bit-vector', live)
        return nob, ok
    tb = it.ext(tc, 32)
    init = h.cpsr().bits
    for bit in range(32):
        nob += 1
        if bit in o.flags:
            c = B.AND(cond, o.flag_cond[bit])
            want = B.ite(c, o.flags[bit], init[bit])
        else:
            want = init[bit]
        dm = live
        if bit in o.unknown:
            dm = B.AND(dm, B.NOT(B.AND(cond, o.unknown[bit])))
        d = B.AND(dm, B.XOR(tb[bit], want))
        if d != 0:
            bad('CPSR.%s' % FLAGNAME.get(bit, 'bit %d' % bit),
                'CPSR.%s differs from the architecture' % FLAGNAME.get(bit, 'bit %d' % bit), d)
    return nob, ok


def check_structure(run, repo, eff, ci):
    tr = Walker(repo, eff).walk(ci.methods['execute'], ci)
    fn = ci.name + '.execute'
    name = ci.name
    ok = True

    def bad(rule, construct, msg):
        nonlocal ok
        ok = False
        run.violation(rule, ci.relpath, fn, construct, msg)
    effs = effect_events(tr)
    for e in effs:
        if not guard_has(e.guards, is_condition_passed, True):
            bad('C09-G', 'unguarded ' + e.kind, 'effect `%s` is not dominated by condition_passed()' % e.text())
    dests = {('field', 'd'), ('field', 'd_hi'), ('field', 'd_lo')}
    for e in effs:
        k = e.kind
        if k == 'RegWrite':
            if e.d['idx'] not in dests:
                bad('C09-F', 'register write R[%s]' % fmt(e.d['idx']), 'only the destination register(s) may be written')
        elif k == 'FlagWrite':
            f = e.d['flag']
            allowed = (f == 'q' and name in Q_FAMILIES) or (f == 'ge' and GE_FAMILIES.match(name)) or \
                      (f in ('n', 'z', 'c', 'v') and name in NZ_FAMILIES)
            if not allowed:
                bad('C09-F', 'flag ' + f, 'CPSR.%s is outside the frame of %s' % (f.upper(), name.upper()))
            if f == 'q' and e.d['value'] != ('const', 1):
                bad('C09-Q', 'Q assignment', 'CPSR.Q is sticky: it may only be set to 1, found `%s`' % fmt(e.d['value'])[:60])
            if f in ('c', 'v') and not guard_has(e.guards, lambda t: t[0] == 'cmp' and 'arch_version' in repr(t), True):
                bad('C09-F', 'flag ' + f, 'C/V may be touched (UNKNOWN) only under arch_version() == 4')
        elif k == 'ProcCall' and e.d['method'] in ('generate_integer_zero_divide',) and name in ('Sdiv', 'Udiv'):
            pass
        else:
            bad('C09-F', k, 'effect outside the frame: `%s`' % e.text()[:100])
    writes = [e for e in tr.events if e.kind == 'RegWrite']
    for w in writes:
        for e in tr.events:
            if e.kind == 'RegRead' and e.idx > w.idx and not exclusive(e, w):
                bad('C09-O', 'read of R[%s] after write of R[%s]' % (fmt(e.d['idx']), fmt(w.d['idx'])),
                    'an operand register is read after a destination was written: with Rd == Rn the new value would be used')
                break
    return ok


_CTX = {}


def _worker(name):
    repo, fr, classes = _CTX['repo'], _CTX['fr'], _CTX['classes']
    ci, encs = classes[name]
    tmp = Run('C09')
    t = time.time()
    try:
        nob, ok = check_value(tmp, repo, fr, ci, encs)
    except AnalysisError as e:
        return name, {'error': str(e)}
    except Exception as e:       # noqa
        import traceback
        return name, {'error': 'internal error: %r %s' % (e, traceback.format_exc()[-400:])}
    return name, {'nob': nob, 'ok': ok, 'time': time.time() - t,
                  'findings': [(f.rule, f.file, f.func, f.construct, f.message, f.detail) for f in tmp.findings]}


def value_checks_parallel(repo, fr, classes, todo):
    _CTX.update(repo=repo, fr=fr, classes=classes)
    return dict(_worker(x) for x in todo)


def check_zero_divide_gate(run, repo):
    """C09-Z: IntegerZeroDivideTrappingEnabled() = IsARMv7RProfile() && SCTLR.DZ (exact table); the value comparison of SDIV/UDIV
    treats the gate as a free boolean, so the gate itself is judged here."""
    from ..machine import Machine
    m = Machine(repo)
    res, fi = m.run('ArmV6', 'integer_zero_divide_trapping_enabled')
    B, it = m.B, m.it
    want = B.AND(m.cfg('is_armv7r_profile'), m.view('sctlr').bits[19])
    got = it.truth(res.value, res.returned)
    d = B.AND(res.returned, B.XOR(got, want))
    ok = d == 0 and not res.heap
    run.instance('C09-Z', 'integer_zero_divide_trapping_enabled', obligations=4, ok=ok, sample={'function': fi.qualname})
    if not ok:
        from ..machine import describe_witness
        run.violation('C09-Z', fi.relpath, fi.qualname, 'zero-divide trap gate',
                      'the divide-by-zero trap must be enabled exactly when the profile is ARMv7-R and SCTLR.DZ is set; e.g. %s' % (
                          describe_witness(B, B.pick(d)) if d != 0 else 'state written'))


def _judge_mutant(run, mrepo, name, ctx):
    ci, encs = ctx['classes'][name]
    mci = mrepo.cls(name)
    check_structure(run, mrepo, ctx['eff'], mci)
    if not run.findings:
        check_value(run, mrepo, ctx['fr'], mci, encs)


def main(repo_path, tier, seed, replay=None):
    run = Run('C09', tier, level='other', seed=seed)
    repo = Repo(repo_path)
    eff = Effects(repo)
    bind = Binding(repo)
    fa = FuncAnalyzer(repo)
    fr = FieldRanges(repo, fa)
    classes = classes_of(repo, bind)
    decided = 0
    slow = []
    todo = [name for name in sorted(classes) if name not in oprefs.TOO_LARGE]
    results = value_checks_parallel(repo, fr, classes, todo)
    for name, (ci, encs) in sorted(classes.items()):
        sok = check_structure(run, repo, eff, ci)
        if name in oprefs.TOO_LARGE:
            run.instance('C09-F', name, obligations=4, ok=sok, sample={'class': name, 'value': 'undecided: ' + oprefs.TOO_LARGE[name]})
            continue
        res = results[name]
        if 'error' in res:
            raise AnalysisError('%s: %s' % (name, res['error']))
        for f in res['findings']:
            run.violation(*f)
        if res['time'] > 5:
            slow.append((name, round(res['time'], 1)))
        decided += 1
        run.instance('C09-V', name, obligations=res['nob'] + 4, ok=res['ok'] and sok, sample={'class': name, 'encodings': sorted(encs)})
    run.floor('C09 opcode classes', len(classes), 93)
    run.floor('classes with a bit-exact value comparison', decided, 91)
    # widths
    sub = Run('tmp')
    c10.check_widths(sub, repo, eff, fr, fa, rule='C09-W', select=None)
    names = set(classes)
    for f in sub.findings:
        if f.func.split('.')[0] in names:
            run.violation('C09-W', f.file, f.func, f.construct, f.message, f.detail)
    run.instance('C09-W', 'widths of results', obligations=len(names), ok=True, sample={'classes': len(names)})
    check_zero_divide_gate(run, repo)
    controls(run, repo_path, fr, classes)
    if tier == 'thorough':
        from ..selftest import run_selftest
        targets = [(name, ci.module.relpath, ci.module.source, name + '.execute') for name, (ci, encs) in sorted(classes.items())
                   if name not in oprefs.TOO_LARGE]
        run_selftest(run, repo_path, 'C09', targets, _judge_mutant, {'fr': fr, 'eff': eff, 'classes': classes}, per_function=6, floor=70, seconds=12)
    run.exhaustive = True
    run.undecided = ['USAD8 / USADA8 result values (%s)' % oprefs.TOO_LARGE['Usad8'],
                     'that Python `*` and `/` are the mathematical product and quotient (uninterpreted, identical on both sides)']
    run.assumptions = ['reference models: ARM ARM A8 operation pseudocode transcribed in sa/oprefs.py',
                       'register view classes (CPSR fields) read/write the architectural bits (C17-V)',
                       'control fields range over the values the decode layer produces for the class (C06/C07 decode model)']
    if slow:
        run.assumptions.append('slowest value comparisons: %s' % slow)
    return run.finish(
        'C09: each of the 91 multiply / saturating / parallel / extend / bit-field / reverse execute() bodies is interpreted in the '
        'BDD bit-vector domain with symbolic operands, CPSR and decode-feasible control fields and compared bit for bit with a '
        'reference transcribed from the architecture pseudocode - result registers, N/Z, sticky Q, GE[3:0], UNPREDICTABLE and '
        'zero-divisor paths - for every operand value at once; wide products and quotients are uninterpreted symbols shared by both '
        'sides. Frame, sticky-Q, read-before-write order, guard and width rules come from the effect walker.',
        './check C09 --tier %s' % tier)


def controls(run, repo_path, fr, classes):
    def mutated(cname, old, new):
        if cname not in classes:
            return None
        ci, encs = classes[cname]
        src = ci.module.source
        if old not in src:
            return None
        mrepo = Repo(repo_path, overrides={ci.module.relpath: src.replace(old, new, 1)})
        tmp = Run('C09')
        check_value(tmp, mrepo, fr, mrepo.cls(cname), encs)
        return tmp.findings
    for cname, old, new, what in (
            ('Sadd8', 'sum2 >= 0', 'sum2 > 0', 'GE[1] threshold of SADD8 changed from >= 0 to > 0'),
            ('Qsub', 'to_signed(processor.registers.get(self.m), 32) - to_signed(processor.registers.get(self.n), 32)',
             'to_signed(processor.registers.get(self.n), 32) - to_signed(processor.registers.get(self.m), 32)', 'QSUB operands swapped'),
            ('Smlad', 'if result != to_signed(to_unsigned(result, 32), 32):', 'if result > 0x7FFFFFFF:', 'SMLAD Q only on positive overflow')):
        f = mutated(cname, old, new)
        run.control('C09-V ' + what, bool(f), '%s: %s' % (cname, what) if f is not None else '')
