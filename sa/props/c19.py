"""C19 - privilege confinement.

  C19-S  privileged-sink dominance: for every execute() body, every store to privileged state
         (CPSR.{M,A,I,F} or the whole CPSR, SPSRs, registers of an explicitly named mode, any
         system / protection / translation register) - direct or through a callee - is
         (a) inside CPSRWriteByInstr / SPSRWriteByInstr, whose own guards are proved by C12-M
             (re-evaluated here), or
         (b) part of taking an architectural exception (take_* / enter_* / data_abort /
             write_hsr followed by the exception), or
         (c) dominated in the opcode by a privilege test (current_mode_is_not_user() true, or
             current_mode_is_user_or_system() false).
  C19-W  the set of methods that write privileged state directly is exactly the expected one
         (no new writer appears outside the gated entry points).
  C19-U  unprivileged accesses: mem_u_unpriv_* pass privileged=False (C13-W re-evaluated), the
         permission check uses the *passed* privilege, not the current mode (C14-R with one
         region re-evaluated), and exactly the eight LDRT/STRT-class opcodes use them.
  C19-E  an exception taken from User mode enters the architectural mode / vector and saves
         the interrupted CPSR (mode bits = User) in that mode's SPSR (C11-T re-evaluated).
"""
from .. import refmodel, reftables
from ..binding import Binding
from ..effects import Effects
from ..flow import Walker, guard_has, fmt
from ..report import Run, AnalysisError
from ..srcmodel import Repo, norm_stmt
from . import c11, c12, c13, c14
from .c12 import guards_priv

PRIV_FLAGS = {'m', 'a', 'i', 'f', 'value'}
ENTRY = {'take_undef_instr_exception', 'take_svc_exception', 'take_smc_exception', 'take_hyp_trap_exception',
         'take_data_abort_exception', 'take_physical_irq_exception', 'take_physical_fiq_exception', 'enter_hyp_mode',
         'enter_monitor_mode', 'take_reset', 'reset_control_registers'}
GATED = {('Registers', 'cpsr_write_by_instr'), ('Registers', 'spsr_write_by_instr')}
SYNDROME_WRITERS = {('ArmV6', 'data_abort'), ('ArmV6', 'write_hsr')}
UNPRIV_ENCODINGS = ['LdrtA1', 'LdrtA2', 'LdrtT1', 'LdrbtA1', 'LdrbtA2', 'LdrbtT1', 'LdrhtA1', 'LdrhtA2', 'LdrhtT1', 'LdrsbtA1',
                    'LdrsbtA2', 'LdrsbtT1', 'LdrshtA1', 'LdrshtA2', 'LdrshtT1', 'StrtA1', 'StrtA2', 'StrtT1', 'StrbtA1', 'StrbtA2',
                    'StrbtT1', 'StrhtA1', 'StrhtA2', 'StrhtT1']


BOOKKEEPING = set()      # filled in main() from the code: sa/bookkeeping.instruction_flags


def is_priv_write(path):
    """Is `path` (an entry of an effect summary) privileged state?"""
    if path.startswith('cpsr.'):
        return path.split('.', 1)[1] in PRIV_FLAGS
    if path.startswith('registers.'):
        p = path[len('registers.'):]
        if p in ('_R[]', 'event_register') or p.replace('[]', '') in BOOKKEEPING:
            return False       # general-purpose registers of the current bank / per-instruction flags (sa/bookkeeping.py)
        return True
    return False               # processor-local scratch (opcode, wait flags, ...)


def direct_priv_writers(eff):
    out = {}
    for key, s in eff.direct.items():
        w = {p for p in s.writes if is_priv_write(p)}
        if w:
            out[key] = w
    return out


def check_writers(run, repo, eff):
    got = direct_priv_writers(eff)
    allowed = set(GATED) | SYNDROME_WRITERS | {('Registers', n) for n in ENTRY} | {('ArmV6', 'take_reset'),
              ('Registers', 'set_spsr'), ('Registers', '__init__'), ('ArmV6', '__init__'), ('Registers', 'select_instr_set')}
    # private helpers that are called from the constructors only are constructor code
    callers = {}
    for k, sm in eff.direct.items():
        for c in sm.calls:
            callers.setdefault(c, set()).add(k)
    ctor_only = set()
    changed = True
    while changed:
        changed = False
        for key in got:
            if key in ctor_only or not key[1].startswith('_') or key[1].startswith('__'):
                continue
            cs = callers.get(key, set())
            if cs and all(c[1] == '__init__' or c in ctor_only for c in cs):
                ctor_only.add(key)
                changed = True
    allowed |= ctor_only
    ok = True
    for key, w in sorted(got.items()):
        good = key in allowed
        if key == ('Registers', 'select_instr_set'):
            good = w <= {'cpsr.isetstate'}
        run.instance('C19-W', '%s.%s' % key, ok=good, sample={'method': '%s.%s' % key, 'writes': sorted(w)[:6]})
        if not good:
            ok = False
            fi = repo.cls(key[0]).find_method(key[1])
            run.violation('C19-W', fi.relpath if fi else 'armulator/armv6', '%s.%s' % key, 'privileged writer',
                          '%s.%s writes privileged state %s directly; only CPSRWriteByInstr/SPSRWriteByInstr, the exception-entry '
                          'functions and the fault-syndrome writers may do so' % (key[0], key[1], sorted(w)))
    # set_spsr only from the gated / entry functions
    for key, s in eff.direct.items():
        if ('Registers', 'set_spsr') in s.calls and key not in allowed and key != ('Registers', 'spsr_write_by_instr'):
            ok = False
            run.violation('C19-W', 'armulator/armv6', '%s.%s' % key, 'set_spsr caller', '%s.%s calls set_spsr outside the gated paths' % key)
    run.floor('privileged writers', len(got), 10)
    return allowed


def bad_writers_reachable(eff, key, allowed, memo):
    """Privileged direct writers reachable from `key` without passing through an allowed function."""
    if key in memo:
        return memo[key]
    memo[key] = set()
    out = set()
    if key in allowed:
        return out
    s = eff.direct.get(key)
    if s is None:
        return out
    if any(is_priv_write(p) for p in s.writes):
        out.add(key)
    for c in s.calls:
        out |= bad_writers_reachable(eff, c, allowed, memo)
    memo[key] = out
    return out


def check_sinks(run, repo, eff, allowed):
    memo = {}
    n = 0
    for ci in repo.abstract_opcode_classes():
        ex = ci.methods.get('execute')
        if ex is None:
            continue
        tr = Walker(repo, eff).walk(ex, ci)
        n += 1
        fn = ci.name + '.execute'
        nobl = 0
        ok = True
        for ev in tr.events:
            need = None
            if ev.kind == 'FlagWrite' and ev.d['flag'] in PRIV_FLAGS:
                need = 'CPSR.%s' % ev.d['flag']
            elif ev.kind == 'SysWrite':
                need = 'system register %s' % ev.d['path']
            elif ev.kind == 'RmodeWrite':
                need = 'register of mode %s' % fmt(ev.d['mode'])
            elif ev.kind == 'SpsrWrite':
                need = 'SPSR'
            elif ev.kind == 'Raise' and 'SMCException' in ev.text():
                need = 'Monitor mode (Secure Monitor Call)'
            elif ev.kind == 'ItemStore' or ev.kind == 'ProcStore':
                need = None
            elif ev.kind == 'ProcCall':
                key = ('ArmV6' if ev.d['recv'] == '' else 'Registers' if ev.d['recv'] == 'registers' else None, ev.d['method'])
                if key[0] is not None:
                    bw = bad_writers_reachable(eff, key, allowed, memo)
                    if bw:
                        need = 'privileged state through %s' % sorted('%s.%s' % k for k in bw)
            if need is None:
                continue
            nobl += 1
            if not guards_priv(ev.guards):
                ok = False
                run.violation('C19-S', ci.relpath, fn, norm_stmt(ev.node, 100),
                              '%s writes %s on a path that is not dominated by a privilege test: User-mode code could change '
                              'privileged state' % (ci.name, need))
        run.instance('C19-S', ci.name, obligations=nobl, ok=ok, nontrivial=nobl > 0,
                     sample={'class': ci.name, 'privileged_sinks': nobl})
    run.floor('execute bodies (privilege)', n, 273)


def check_write_hsr_callers(run, repo, eff):
    """HSR is written only as part of taking an exception to Hyp mode: every write_hsr call is followed, on its path, by
    a hyp trap / a raise, or sits in data_abort (noreturn)."""
    for key, tr in sorted(eff.traces.items()):
        calls = [e for e in tr.events if e.kind == 'ProcCall' and e.d['method'] == 'write_hsr']
        if not calls:
            continue
        ok = True
        for c in calls:
            after = [e for e in tr.events if e.idx > c.idx and e.kind in ('TakeException', 'Raise') and not _excl(e, c)]
            if not after and key != ('ArmV6', 'data_abort'):
                ok = False
                fi = repo.cls(key[0]).find_method(key[1])
                run.violation('C19-S', fi.relpath, '%s.%s' % key, norm_stmt(c.node, 80),
                              'write_hsr() is not followed by taking an exception: the Hyp syndrome register would change without '
                              'an exception entry')
        run.instance('C19-S', 'write_hsr in %s.%s' % key, ok=ok, sample={'caller': '%s.%s' % key, 'calls': len(calls)})
    for ci in repo.abstract_opcode_classes():
        ex = ci.methods.get('execute')
        if ex is None:
            continue
        tr = Walker(repo, eff).walk(ex, ci)
        for c in [e for e in tr.events if e.kind == 'ProcCall' and e.d['method'] == 'write_hsr']:
            after = [e for e in tr.events if e.idx > c.idx and e.kind in ('TakeException', 'Raise') and not _excl(e, c)]
            if not after:
                run.violation('C19-S', ci.relpath, ci.name + '.execute', norm_stmt(c.node, 80), 'write_hsr() without a following hyp trap')


def _excl(a, b):
    from ..flow import exclusive
    return exclusive(a, b)


def check_unpriv_users(run, repo, eff, bind):
    want = set(bind.abstract_classes_of(UNPRIV_ENCODINGS))
    if len(want) != 8:
        raise AnalysisError('expected 8 unprivileged load/store opcodes, bound %d' % len(want))
    for ci in repo.abstract_opcode_classes():
        ex = ci.methods.get('execute')
        if ex is None:
            continue
        tr = Walker(repo, eff).walk(ex, ci)
        mem = tr.of('MemRead', 'MemWrite')
        if not mem:
            continue
        kinds = {e.d['kind'] for e in mem}
        if ci.name in want:
            ok = kinds == {'unpriv'}
            run.instance('C19-U', ci.name, ok=ok, sample={'class': ci.name, 'accessor': 'mem_u_unpriv_*'})
            if not ok:
                run.violation('C19-U', ci.relpath, ci.name + '.execute', 'accessor kind',
                              '%s is an unprivileged load/store (LDRT/STRT class): every access must use mem_u_unpriv_*; found %s'
                              % (ci.name, sorted(kinds)))
        elif 'unpriv' in kinds:
            run.violation('C19-U', ci.relpath, ci.name + '.execute', 'accessor kind',
                          '%s uses the unprivileged accessor although it is not an LDRT/STRT-class instruction' % ci.name)


PRIV_PARAMS = ('privileged', 'ispriv', 'is_priv')


def check_privilege_flow(run, repo):
    """C19-U (flow): inside a function that receives the privilege of the access as a parameter, every call of a function that
    takes such a parameter passes that parameter itself (the privilege is decided once, by the outermost accessor; recomputing
    it from the current mode turns an unprivileged LDRT/STRT access into a privileged one)."""
    import ast
    ci = repo.cls('ArmV6')
    sigs = {}
    for fi in ci.methods.values():
        names = fi.params()
        for q in PRIV_PARAMS:
            if q in names:
                sigs[fi.name] = (names.index(q), q)
    n = 0
    for fi in ci.methods.values():
        if fi.name not in sigs:
            continue
        p = sigs[fi.name][1]
        for node in ast.walk(fi.node):
            if not (isinstance(node, ast.Call) and isinstance(node.func, ast.Attribute) and ast.unparse(node.func.value) == 'self'
                    and node.func.attr in sigs):
                continue
            pos, q = sigs[node.func.attr]
            pos -= 1     # `self` is bound
            arg = None
            if pos < len(node.args):
                arg = node.args[pos]
            for kw in node.keywords:
                if kw.arg == q:
                    arg = kw.value
            n += 1
            good = isinstance(arg, ast.Name) and arg.id == p
            run.instance('C19-U', '%s -> %s' % (fi.qualname, node.func.attr), ok=good, sample={'caller': fi.qualname, 'callee': node.func.attr})
            if not good:
                run.violation('C19-U', fi.relpath, fi.qualname, 'privilege passed to %s' % node.func.attr,
                              '%s receives `%s` as the privilege of the access instead of the caller\'s own `%s` parameter: an access '
                              'made with an explicit privilege (LDRT/STRT: unprivileged) would be checked with a different one' % (
                                  node.func.attr, ast.unparse(arg) if arg is not None else '<missing>', p))
    run.floor('privilege-forwarding call sites', n, 9)


def main(repo_path, tier, seed, replay=None):
    run = Run('C19', tier, level='other', seed=seed)
    repo = Repo(repo_path)
    import re
    from .. import memo
    memo.check(run, repo, 'C19-MEMO', lambda rel, q: re.search(r'(check_permission|unpriv|current_mode_is|cpsr_write_by_instr|spsr_write_by_instr|is_secure|bad_mode)', q) is not None,
               'the privilege predicates and the permission check')
    eff = Effects(repo)
    bind = Binding(repo)
    from .. import bookkeeping
    BOOKKEEPING.clear()
    BOOKKEEPING.update(bookkeeping.instruction_flags(repo))
    allowed = check_writers(run, repo, eff)
    check_sinks(run, repo, eff, allowed)
    check_write_hsr_callers(run, repo, eff)
    check_unpriv_users(run, repo, eff, bind)
    # (a) the gated writers' own guards
    check_privilege_flow(run, repo)
    c12.check_cpsr_write_as(run, repo, 'C19-S')
    tmp = Run('tmp')
    c12.check_spsr_write(tmp, repo)
    for f in tmp.findings:
        run.violation('C19-S', f.file, f.func, f.construct, f.message, f.detail)
    # unprivileged accessors and the use of the passed privilege in the permission check
    tmp = Run('tmp')
    c13.check_wrappers(tmp, repo)
    for f in tmp.findings:
        run.violation('C19-U', f.file, f.func, f.construct, f.message, f.detail)
    run.instance('C19-U', 'accessor wrappers', obligations=6, ok=not tmp.findings, sample={})
    tmp = Run('tmp')
    c14.check_regions(tmp, repo, 1)
    for f in tmp.findings:
        run.violation('C19-U', f.file, f.func, f.construct, f.message, f.detail)
    run.instance('C19-U', 'permission check uses the passed privilege (PMSA)', obligations=2, ok=not tmp.findings, sample={})
    from . import c15
    tmp = Run('tmp')
    c15.check_permission_table(tmp, repo)
    for f in tmp.findings:
        run.violation('C19-U', f.file, f.func, f.construct, f.message, f.detail)
    # (b) exception entry from User mode
    for method in sorted(refmodel.ENTRY_MODELS):
        c11.compare_entry(run, repo, method, rule='C19-E')
    # positive control: privilege test dropped from CPS (in memory)
    ci = bind.abstract_of_encoding('CpsArmA1')
    fired = False
    what = ''
    if ci is not None:
        src = ci.module.source
        old = 'if processor.registers.current_mode_is_not_user():'
        if old in src:
            mrepo = Repo(repo_path, overrides={ci.module.relpath: src.replace(old, 'if True:', 1)})
            tmp = Run('C19')
            meff = eff
            mci = mrepo.cls(ci.name)
            tr = Walker(mrepo, meff).walk(mci.methods['execute'], mci)
            fired = any(e.kind == 'CpsrWriteByInstr' for e in tr.events)    # gated call: allowed, so use a direct write instead
            # a direct CPSR.I write without a privilege test must be flagged
            src2 = src.replace(old, 'if True:\n            processor.registers.cpsr.i = 1', 1)
            mrepo2 = Repo(repo_path, overrides={ci.module.relpath: src2})
            tmp2 = Run('C19')
            memo = {}
            mci2 = mrepo2.cls(ci.name)
            tr2 = Walker(mrepo2, meff).walk(mci2.methods['execute'], mci2)
            fired = any(e.kind == 'FlagWrite' and e.d['flag'] == 'i' and not guards_priv(e.guards) for e in tr2.events)
            what = 'CPS: privilege test replaced by True and a direct CPSR.I write added'
    run.control('C19-S unguarded privileged write', fired, what)
    run.exhaustive = True
    run.undecided = ['behaviour of words whose decode is UNPREDICTABLE beyond "no privileged sink is reachable without a privilege test"']
    run.assumptions = ['privileged state = CPSR.{M,A,I,F}/whole CPSR, SPSRs, explicitly banked registers, every system / protection / '
                       'translation register attribute of Registers; the closed effect vocabulary of sa/flow.py',
                       'mock coprocessor hooks (NotImplementedError today) are outside the claim']
    return run.finish(
        'C19: every path from any execute() body to a store of privileged state goes through CPSRWriteByInstr/SPSRWriteByInstr '
        '(whose privilege gating is proved for all inputs by the C12-M equality), through architectural exception entry, or is '
        'dominated by a privilege test in the opcode; the set of direct writers of privileged state is closed; unprivileged '
        'load/store variants pass privileged=False down to a permission check that uses the passed privilege; exception entry '
        'from User mode is the C11-T equality.',
        './check C19 --tier %s' % tier)
