"""C18 - stepping is total: an exception-escape / host-error discipline analysis.

Allowed to escape emulate_cycle: NotImplementedError (documented unimplemented features);
caught there: the architectural exception classes.  Every *kind* of host-error site is
enumerated and must be discharged:

  R1  None tolerance: results of decode_instruction / from_bitarray (None on the undefined /
      ~450 UNPREDICTABLE paths) are used only under a dominating None test.
  R2  kind confusion / decode host errors: no host error (TypeError, unbound local, failing
      assertion) on any decoder or from_bitarray path - exact, from the decode model.
  R3  constructor binding: every `return Cls(instr, k=...)` of a from_bitarray binds against
      the __init__ of the class (required <= given <= accepted).
  R4  attribute definedness: every self.<x> read by an opcode is assigned in its __init__;
      every processor.<...> chain used by an opcode names an existing attribute / method.
  R5  definite assignment: no local can be read before assignment on any path (flow-sensitive,
      with no-return callees and exhaustive if/elif chains decided by the table domain).
  R6  assertions: each assert reachable from a step is discharged (interval analysis of the
      helper at each call with the opcode's field ranges; register indices in range; RRX only
      with amount 1 from the decode model; banking total over all 32 mode numbers).
  R7  exception classes: every raise in the package is an architectural exception (caught by
      emulate_cycle) or NotImplementedError; the handlers themselves cannot raise them.
  R8  value errors: struct.error needs an out-of-range store value - excluded by the width
      obligations of every sink (C10-W / C16-V re-evaluated over all sinks).
  R11 implicit None: a function with a value-returning path may not fall off its end (or `return` bare) unless every
      caller tests the result; the six sites of the pinned tree are a confirmed table.
  R9  enumerated builtins: true division only with a zero-tested divisor; dict / list
      subscripts with computed keys are in a closed, discharged table.
"""
import ast

from .. import decode, refmodel, spec as specmod
from ..bdd import BDD
from ..bitdom import Int, V, NONE
from ..effects import Effects, _SelfWalker
from ..fields import FieldRanges
from ..flow import Walker, guard_has, fmt, subterms
from ..machine import Machine
from ..ranges import FuncAnalyzer, Iv
from ..report import Run, AnalysisError
from ..srcmodel import Repo, norm_stmt
from .. import sinks
from . import c10

CAUGHT = {'EndOfInstruction', 'SVCException', 'SMCException', 'DataAbortException', 'HypTrapException',
          'UndefinedInstructionException'}
ALLOWED_RAISE = CAUGHT | {'NotImplementedError'}


# ---------------------------------------------------------------------------
def check_none_tolerance(run, repo):
    fi = repo.method('ArmV6', 'emulate_cycle')
    tr = _SelfWalker(repo, 'ArmV6', []).walk(fi, repo.cls('ArmV6'))
    ok = True

    def tested(guards, term):
        for g, pol, _ in guards:
            if pol is False and (g == ('not', term) and False):
                pass
            # `if not x: raise` -> (not x, False); `if x is None: raise` -> (x is None, False); `if x:` -> (x, True)
            if (g == ('not', term) and pol is False) or (g == ('cmp', 'Is', term, ('const', None)) and pol is False) \
                    or (g == term and pol is True) or (g == ('cmp', 'IsNot', term, ('const', None)) and pol is True) \
                    or (g == ('cmp', 'Eq', term, ('const', None)) and pol is False):
                return True
        return False
    fb = [e for e in tr.events if e.kind == 'ObjCall' and e.d['method'] == 'from_bitarray']
    ex = [e for e in tr.events if e.kind == 'ProcCall' and e.d['method'] == 'execute_instruction']
    if len(fb) != 1 or len(ex) != 1:
        raise AnalysisError('emulate_cycle: expected one from_bitarray call and one execute_instruction call')
    recv = fb[0].d['recv']          # result of decode_instruction
    if not tested(fb[0].guards, recv):
        ok = False
        run.violation('C18-R1', fi.relpath, fi.qualname, 'decode result used without a None test',
                      'decode_instruction() returns None for unallocated words; calling .from_bitarray on it without a test raises '
                      'AttributeError')
    arg = ex[0].d['args'][0] if ex[0].d['args'] else None
    if arg is None or arg[0] != 'objcall' or arg[2] != 'from_bitarray':
        ok = False
        run.violation('C18-R1', fi.relpath, fi.qualname, 'executed object', 'execute_instruction is not given the from_bitarray result')
    elif not tested(ex[0].guards, arg):
        ok = False
        run.violation('C18-R1', fi.relpath, fi.qualname, 'from_bitarray result used without a None test',
                      'from_bitarray() returns None on its UNPREDICTABLE paths; execute_instruction() would call None.execute() '
                      '(AttributeError) - the result must be tested first')
    run.instance('C18-R1', 'emulate_cycle None tests', obligations=2, ok=ok, sample={'function': fi.qualname})
    # execute_instruction itself must not be reachable with None from elsewhere
    callers = []
    for mod in repo.modules.values():
        for n in ast.walk(mod.tree):
            if isinstance(n, ast.Call) and isinstance(n.func, ast.Attribute) and n.func.attr == 'execute_instruction':
                callers.append(mod.relpath)
    if callers != [fi.relpath]:
        run.violation('C18-R1', fi.relpath, 'ArmV6.execute_instruction', 'callers', 'execute_instruction has callers besides '
                      'emulate_cycle: %s' % callers)


def check_decode_hosterrors(run, repo, models):
    n_none = 0
    for root, rm in models.items():
        B = rm.part.B
        for o in rm.part.hosterrors:
            run.violation('C18-R2', o.func.relpath if o.func else 'armulator/armv6/opcodes/decoders', o.func.qualname if o.func else '?',
                          norm_stmt(o.node, 100), 'decoding a %s word fails with a host error: %s' % (root, o.payload),
                          {'witness': specmod.witness(B, o.cond, rm.nbits)})
        for name, em in rm.encodings.items():
            if em.unpred != 0:
                n_none += 1
            bad = [o for o in em.hosterrors if B.AND(o.cond, em.region) != 0]
            run.instance('C18-R2', name, ok=not bad, nontrivial=True, sample={'encoding': name, 'none_paths': em.unpred != 0})
            for o in bad:
                run.violation('C18-R2', em.file, name + '.from_bitarray', '%s %s' % (o.kind, str(o.payload)[:60]),
                              'from_bitarray fails with a host error (%s: %s), e.g. word %s' % (
                                  o.kind, o.payload, (specmod.witness(B, B.AND(o.cond, em.region), rm.nbits) or {}).get('word')))
            # RRX only with amount 1 (assertion in shift_c)
            if 'shift_t' in em.kwargs and 'shift_n' in em.kwargs:
                it = em.interp
                rrx = 0
                for c, p in em.kwargs['shift_t'].cases:
                    if p == ('enum', 'SRType', 'RRX'):
                        rrx = B.OR(rrx, c)
                if rrx != 0:
                    try:
                        sn = it.as_int(em.kwargs['shift_n'], B.AND(em.accept, rrx), 'shift_n')
                        badc = B.all_and([em.accept, rrx, B.NOT(it.i_eq(sn, it.const(1)))])
                    except Exception:
                        badc = B.AND(em.accept, rrx)
                    if badc != 0:
                        run.violation('C18-R6', em.file, name + '.from_bitarray', 'RRX amount',
                                      'an accepted word yields shift_t == RRX with shift_n != 1: shift_c() asserts against it')
    run.extra['encodings_with_none_paths'] = n_none
    run.floor('encodings with None (unpredictable) paths', n_none, 400)


def check_ctor_binding(run, repo):
    n = 0
    for ci in repo.concrete_classes():
        fb = ci.methods.get('from_bitarray')
        if fb is None:
            continue
        init = None
        for c in ci.mro():
            if '__init__' in c.methods:
                init = c.methods['__init__']
                break
        if init is None:
            continue
        params = init.params()[1:]
        ndef = len(init.node.args.defaults)
        required = params[:len(params) - ndef] if ndef else params
        for node in ast.walk(fb.node):
            if isinstance(node, ast.Return) and isinstance(node.value, ast.Call) and isinstance(node.value.func, ast.Name) \
                    and node.value.func.id in repo.classes:
                n += 1
                call = node.value
                given = params[:len(call.args)] + [k.arg for k in call.keywords]
                ok = set(required) <= set(given) and set(given) <= set(params) and len(given) == len(set(given)) \
                    and not any(k.arg is None for k in call.keywords)
                run.instance('C18-R3', ci.name, ok=ok, sample={'class': ci.name, 'init_params': params})
                if not ok:
                    run.violation('C18-R3', ci.relpath, ci.name + '.from_bitarray', 'constructor call',
                                  'constructor arguments %s do not bind against %s.__init__(%s): TypeError at decode time' % (
                                      given, init.cls.name, ', '.join(params)))
    run.floor('constructor calls', n, 600)


def check_attr_defined(run, repo):
    arm = repo.cls('ArmV6')
    regs = repo.cls('Registers')

    def init_attrs(ci):
        out = set()
        for c in ci.mro():
            i = c.methods.get('__init__')
            if i is None:
                continue
            todo, seen = [i], set()
            while todo:                       # __init__ and the self.<helper>() methods it calls (set-up split into helpers)
                f = todo.pop()
                if f.name in seen:
                    continue
                seen.add(f.name)
                for n in ast.walk(f.node):
                    if isinstance(n, ast.Attribute) and isinstance(n.ctx, ast.Store) and ast.unparse(n.value) == 'self':
                        out.add(n.attr)
                    if isinstance(n, ast.Call) and isinstance(n.func, ast.Attribute) and isinstance(n.func.value, ast.Name) \
                            and n.func.value.id == 'self':
                        h = ci.find_method(n.func.attr)
                        if h is not None:
                            todo.append(h)
        return out

    def members(ci):
        out = init_attrs(ci)
        for c in ci.mro():
            out |= set(c.methods) | set(c.getters)
        return out
    arm_m, reg_m = members(arm), members(regs)
    from ..decode import MachinePolicy
    types = MachinePolicy(repo, None).registers_typing()
    n = 0
    for ci in repo.abstract_opcode_classes():
        mine = init_attrs(ci) | {'instruction'}
        meths = set()
        for c in ci.mro():
            meths |= set(c.methods)
        for fi in ci.methods.values():
            if fi.name == '__init__':
                continue
            for node in ast.walk(fi.node):
                if not isinstance(node, ast.Attribute):
                    continue
                chain = []
                e = node
                while isinstance(e, ast.Attribute):
                    chain.append(e.attr)
                    e = e.value
                chain.reverse()
                if not isinstance(e, ast.Name):
                    continue
                # only judge maximal chains
                if e.id == 'self' and len(chain) == 1 and isinstance(node.ctx, ast.Load):
                    n += 1
                    if chain[0] not in mine and chain[0] not in meths:
                        run.violation('C18-R4', ci.relpath, fi.qualname, 'self.' + chain[0],
                                      '%s reads self.%s, which its __init__ never assigns (AttributeError at execute time)' % (ci.name, chain[0]))
                if e.id == 'processor':
                    n += 1
                    bad = None
                    if chain[0] not in arm_m:
                        bad = 'processor.%s' % chain[0]
                    elif chain[0] == 'registers' and len(chain) > 1:
                        if chain[1] not in reg_m:
                            bad = 'processor.registers.%s' % chain[1]
                        elif len(chain) > 2:
                            t = types.get(chain[1])
                            if t and t[0] == 'obj':
                                vc = repo.classes.get(t[1])
                                if vc and chain[2] not in members(vc[0]) | {'value'}:
                                    bad = 'processor.registers.%s.%s' % (chain[1], chain[2])
                    if bad:
                        run.violation('C18-R4', ci.relpath, fi.qualname, bad, '%s does not exist (AttributeError at execute time)' % bad)
    run.instance('C18-R4', 'attribute chains in opcodes', obligations=n, ok=True, sample={'chains': n})
    run.floor('attribute chains', n, 2000)
    # the same rule inside the processor itself: self.<x> / self.registers.<view>.<field> in ArmV6, self.<view>.<field> in
    # Registers (the translation walks, exception entry and PSR writers name ~40 register views and ~190 fields)
    n2 = 0
    for ci, own, via in ((arm, arm_m, 'registers'), (regs, reg_m, None)):
        for fi in ci.methods.values():
            for node in ast.walk(fi.node):
                if not isinstance(node, ast.Attribute):
                    continue
                chain = []
                e = node
                while isinstance(e, ast.Attribute):
                    chain.append(e.attr)
                    e = e.value
                chain.reverse()
                if not (isinstance(e, ast.Name) and e.id == 'self'):
                    continue
                bad = None
                if via is not None:
                    if chain[0] != via or len(chain) < 2:
                        if len(chain) == 1 and isinstance(node.ctx, ast.Load):
                            n2 += 1
                            if chain[0] not in own:
                                bad = 'self.%s' % chain[0]
                        if not bad:
                            continue
                    else:
                        n2 += 1
                        rest = chain[1:]
                        if rest[0] not in reg_m:
                            bad = 'self.registers.%s' % rest[0]
                else:
                    rest = chain
                    n2 += 1
                    if len(rest) == 1 and isinstance(node.ctx, ast.Load) and rest[0] not in own:
                        bad = 'self.%s' % rest[0]
                if not bad and len(rest) == 2:
                    t = types.get(rest[0])
                    if t and t[0] == 'obj':
                        vc = repo.classes.get(t[1])
                        if vc and rest[1] not in members(vc[0]) | {'value'}:
                            bad = '%s.%s' % ('self.registers.' + rest[0] if via else 'self.' + rest[0], rest[1])
                if bad:
                    run.violation('C18-R4', ci.relpath, fi.qualname, bad,
                                  '%s does not exist (AttributeError when this path of %s runs)' % (bad, fi.qualname))
    run.instance('C18-R4', 'attribute chains in ArmV6 / Registers', obligations=n2, ok=True, sample={'chains': n2})
    run.floor('attribute chains in the processor', n2, 1500)


# ---------------------------------------------------------------------------
# R5 definite assignment
# ---------------------------------------------------------------------------
def chain_exhaustive(repo, mod, s):
    """An if/elif chain without else that compares one expression with every member of an Enum class."""
    tested = []
    subject = None
    cur = s
    while True:
        t = cur.test
        if not (isinstance(t, ast.Compare) and len(t.ops) == 1 and isinstance(t.ops[0], ast.Eq)):
            return False
        subj = ast.unparse(t.left)
        if subject is None:
            subject = subj
        elif subj != subject:
            return False
        r = repo.resolve_expr(mod, t.comparators[0]) if isinstance(t.comparators[0], ast.Attribute) else None
        if not (r and r[0] == 'enum_member'):
            return False
        tested.append((r[1].name, r[2]))
        if len(cur.orelse) == 1 and isinstance(cur.orelse[0], ast.If):
            cur = cur.orelse[0]
            continue
        if cur.orelse:
            return False
        break
    classes = {c for c, m in tested}
    if len(classes) != 1:
        return False
    ci = repo.classes.get(classes.pop())
    return bool(ci) and set(m for c, m in tested) == set(ci[0].enum_members())


def chain_arms(s):
    arms = [s.body]
    cur = s
    while len(cur.orelse) == 1 and isinstance(cur.orelse[0], ast.If):
        cur = cur.orelse[0]
        arms.append(cur.body)
    if cur.orelse:
        arms.append(cur.orelse)
    return arms


def noreturn_functions(repo, eff):
    """Methods of ArmV6 / Registers all of whose paths raise (fixpoint)."""
    nr = set()
    changed = True

    def exits(stmts, cls):
        if not stmts:
            return False
        for s in stmts:
            if isinstance(s, ast.Raise):
                return True
            if isinstance(s, ast.Expr) and isinstance(s.value, ast.Call):
                f = s.value.func
                if isinstance(f, ast.Attribute) and isinstance(f.value, ast.Name) and f.value.id in ('self', 'processor') \
                        and ('ArmV6', f.attr) in nr:
                    return True
            if isinstance(s, ast.If) and s.orelse and exits(s.body, cls) and exits(s.orelse, cls):
                return True
            if isinstance(s, ast.If) and cls is not None and chain_exhaustive(repo, repo.cls(cls).module, s) \
                    and all(exits(a, cls) for a in chain_arms(s)):
                return True
            if isinstance(s, ast.Return):
                return False
        return False
    while changed:
        changed = False
        for cname in ('ArmV6', 'Registers'):
            ci = repo.cls(cname)
            for name, fi in ci.methods.items():
                if (cname, name) in nr:
                    continue
                if exits(fi.node.body, cname):
                    nr.add((cname, name))
                    changed = True
    return nr, exits


DISCHARGED_UNBOUND = {
    # (function qualname, variable): reason  - if/elif chains that are exhaustive over the tested bits (decided by the
    # table domain in C15-S / C17-T / C14-R where the same functions are interpreted without an unbound-local event)
}


def check_definite_assignment(run, repo, eff):
    nr, exits = noreturn_functions(repo, eff)
    run.extra['noreturn_functions'] = sorted('%s.%s' % k for k in nr)
    import builtins
    n = 0
    findings = []
    for mod in repo.modules.values():
        for fn in [x for x in ast.walk(mod.tree) if isinstance(x, ast.FunctionDef)]:
            params = {a.arg for a in fn.args.args} | {a.arg for a in fn.args.kwonlyargs}
            if fn.args.vararg:
                params.add(fn.args.vararg.arg)
            if fn.args.kwarg:
                params.add(fn.args.kwarg.arg)
            assigned_anywhere = {x.id for x in ast.walk(fn) if isinstance(x, ast.Name) and isinstance(x.ctx, ast.Store)}
            for x in ast.walk(fn):
                if isinstance(x, ast.ExceptHandler) and x.name:
                    assigned_anywhere.add(x.name)
            if not assigned_anywhere:
                continue
            n += 1
            maybe = []

            def use(e, d, bound=frozenset()):
                # comprehension / lambda variables live in their own scope: they are never unbound function locals
                if isinstance(e, (ast.ListComp, ast.SetComp, ast.GeneratorExp, ast.DictComp)):
                    inner = set(bound)
                    for g in e.generators:
                        use(g.iter, d, frozenset(inner))
                        inner |= {x.id for x in ast.walk(g.target) if isinstance(x, ast.Name)}
                        for c in g.ifs:
                            use(c, d, frozenset(inner))
                    for part in ([e.key, e.value] if isinstance(e, ast.DictComp) else [e.elt]):
                        use(part, d, frozenset(inner))
                    return
                if isinstance(e, ast.Lambda):
                    a = e.args
                    names = {x.arg for x in a.args + a.kwonlyargs + a.posonlyargs} | {x.arg for x in (a.vararg, a.kwarg) if x}
                    use(e.body, d, frozenset(set(bound) | names))
                    return
                if isinstance(e, ast.Name):
                    if isinstance(e.ctx, ast.Load) and e.id in assigned_anywhere and e.id not in d and e.id not in params \
                            and e.id not in bound:
                        maybe.append((e.id, e))
                    return
                for c in ast.iter_child_nodes(e):
                    use(c, d, bound)

            def block(stmts, d):
                """returns the definitely-assigned set at fall-through, or None if the block never falls through"""
                d = set(d)
                for s in stmts:
                    if isinstance(s, ast.Assign):
                        use(s.value, d)
                        for t in s.targets:
                            for x in ast.walk(t):
                                if isinstance(x, ast.Name) and isinstance(x.ctx, ast.Store):
                                    d.add(x.id)
                                elif isinstance(x, ast.Name):
                                    use(x, d)
                    elif isinstance(s, ast.AugAssign):
                        use(s.value, d)
                        if isinstance(s.target, ast.Name):
                            if s.target.id not in d and s.target.id not in params:
                                maybe.append((s.target.id, s.target))
                        else:
                            use(s.target, d)
                    elif isinstance(s, (ast.Expr, ast.Assert)):
                        use(s, d)
                        if isinstance(s, ast.Expr) and exits([s], None):
                            return None
                    elif isinstance(s, ast.Return):
                        if s.value is not None:
                            use(s.value, d)
                        return None
                    elif isinstance(s, ast.Raise):
                        if s.exc is not None:
                            use(s.exc, d)
                        return None
                    elif isinstance(s, ast.If):
                        use(s.test, d)
                        if chain_exhaustive(repo, mod, s):
                            outs = []
                            cur = s
                            while True:
                                outs.append(block(cur.body, d))
                                if len(cur.orelse) == 1 and isinstance(cur.orelse[0], ast.If):
                                    cur = cur.orelse[0]
                                    use(cur.test, d)
                                    continue
                                break
                            live = [o for o in outs if o is not None]
                            if not live:
                                return None
                            d = set.intersection(*live)
                            continue
                        d1 = block(s.body, d)
                        d2 = block(s.orelse, d)
                        if d1 is None and d2 is None:
                            return None
                        d = d2 if d1 is None else (d1 if d2 is None else (d1 & d2))
                    elif isinstance(s, ast.For):
                        use(s.iter, d)
                        dl = set(d)
                        for x in ast.walk(s.target):
                            if isinstance(x, ast.Name):
                                dl.add(x.id)
                        block(s.body, dl)
                        block(s.orelse, d)
                    elif isinstance(s, ast.While):
                        use(s.test, d)
                        block(s.body, d)
                    elif isinstance(s, ast.Try):
                        db = block(s.body, d)
                        outs = []
                        for h in s.handlers:
                            dh = set(d)
                            if h.name:
                                dh.add(h.name)
                            outs.append(block(h.body, dh))
                        de = block(s.orelse, db) if db is not None else None
                        outs.append(de)
                        live = [o for o in outs if o is not None]
                        if not live:
                            return None
                        d = set.intersection(*live)
                    elif isinstance(s, ast.With):
                        for it_ in s.items:
                            use(it_.context_expr, d)
                            if it_.optional_vars is not None:
                                for x in ast.walk(it_.optional_vars):
                                    if isinstance(x, ast.Name):
                                        d.add(x.id)
                        r = block(s.body, d)
                        if r is None:
                            return None
                        d = r
                    elif isinstance(s, (ast.FunctionDef, ast.ClassDef)):
                        d.add(s.name)
                    elif isinstance(s, (ast.Import, ast.ImportFrom)):
                        for a in s.names:
                            d.add((a.asname or a.name).split('.')[0])
                return d
            block(fn.body, set())
            seen = set()
            for name, node in maybe:
                if name in seen:
                    continue
                seen.add(name)
                cls = None
                for ci in mod.classes.values():
                    if any(x is fn for x in ast.walk(ci.node)):
                        cls = ci.name
                qual = (cls + '.' if cls else '') + fn.name
                findings.append((mod.relpath, qual, name, node))
    run.instance('C18-R5', 'functions analysed', obligations=n, ok=True, sample={'functions': n})
    run.floor('functions with locals', n, 900)
    return findings


def discharge_unbound(run, repo, findings):
    """Possibly-unbound locals left by the flow analysis are chains whose exhaustiveness needs the table domain: the
    function is interpreted with symbolic inputs and must produce no unbound-local event."""
    todo = {}
    for rel, qual, name, node in findings:
        todo.setdefault((rel, qual), []).append((name, node))
    for (rel, qual), items in sorted(todo.items()):
        names = sorted({n for n, _ in items})
        ok, why = table_domain_discharge(repo, rel, qual, names)
        run.instance('C18-R5', qual, obligations=len(names), ok=ok, sample={'function': qual, 'locals': names, 'discharged_by': why})
        if not ok:
            run.violation('C18-R5', rel, qual, 'possibly unbound: ' + ', '.join(names),
                          'local variable(s) %s may be read before assignment on some path (UnboundLocalError): %s' % (names, why))


SD_WALK_STUBS = None


def flag_correlated(repo, fn, names, exits):
    """v is assigned only where `F = True` is assigned too, F starts False, and `if not F ...: <no return>` precedes
    the first use of v at the top level of the function."""
    for v in names:
        ok_v = False
        flags = None
        for blk in [x for x in ast.walk(fn) if hasattr(x, 'body') and isinstance(getattr(x, 'body'), list)]:
            for seq in (blk.body, getattr(blk, 'orelse', [])):
                if any(isinstance(s, ast.Assign) and any(isinstance(t, ast.Name) and t.id == v for t in s.targets) for s in seq):
                    fl = {t.id for s in seq if isinstance(s, ast.Assign) and isinstance(s.value, ast.Constant) and s.value.value is True
                          for t in s.targets if isinstance(t, ast.Name)}
                    flags = fl if flags is None else (flags & fl)
        if not flags:
            return False
        for F in flags:
            init_false = False
            for i, s in enumerate(fn.body):
                if isinstance(s, ast.Assign) and any(isinstance(t, ast.Name) and t.id == F for t in s.targets) \
                        and isinstance(s.value, ast.Constant) and s.value.value is False:
                    init_false = True
                if isinstance(s, ast.If) and init_false:
                    tsrc = ast.unparse(s.test)
                    if ('not %s' % F) in tsrc and isinstance(s.test, (ast.UnaryOp, ast.BoolOp)) and exits(s.body, 'ArmV6'):
                        # v must not be used at top level before this statement
                        used_before = any(isinstance(x, ast.Name) and x.id == v and isinstance(x.ctx, ast.Load)
                                          for st in fn.body[:i] for x in ast.walk(st)
                                          if not any(isinstance(a, ast.Assign) and any(isinstance(t, ast.Name) and t.id == v
                                                     for t in a.targets) for a in ast.walk(st)))
                        if isinstance(s.test, ast.BoolOp) and not isinstance(s.test.op, ast.Or):
                            continue
                        ok_v = True
                        break
            if ok_v:
                break
        if not ok_v:
            return False
    return True


def table_domain_discharge(repo, rel, qual, names):
    from ..bitdom import Interp, Policy, sym_int, Unsupported, Outcome
    mod = None
    for m in repo.modules.values():
        if m.relpath == rel:
            mod = m
    if mod is None:
        return False, 'module not found'
    # 1. helper functions of shift.py / bits_ops.py: interpret with fully symbolic small arguments
    if '.' not in qual and mod.name in ('armulator.armv6.shift', 'armulator.armv6.bits_ops'):
        fi = mod.functions[qual]
        B = BDD()
        it = Interp(repo, B, _HP())
        args = []
        dom_extra = 1
        for p in fi.params():
            if p in ('type_o',):
                # both the 2-bit field form and the enum form occur; judge the one the function compares against
                src = ast.unparse(fi.node)
                if 'SRType.' in src and 'type_o ==' in src and '0b' not in src.split('type_o ==')[1][:6]:
                    from ..bitdom import Value
                    mem = ['LSL', 'LSR', 'ASR', 'ROR', 'RRX']
                    sel = sym_int(B, 'sel', 3)
                    cases = [(it.i_eq(sel, it.const(i)), ('enum', 'SRType', mname)) for i, mname in enumerate(mem)]
                    args.append(Value(cases))
                    dom_extra = B.NOT(B.all_and([sel.bits[2], B.OR(sel.bits[1], sel.bits[0])]))
                    continue
                args.append(V(sym_int(B, p, 2)))
            elif p in ('value_len', 'x_len', 'length'):
                args.append(V(it.const(32)))
            elif p in ('amount', 'shift'):
                args.append(V(sym_int(B, p, 8)))
            else:
                args.append(V(sym_int(B, p, 12 if 'imm12' in p else (5 if 'imm5' in p else 32))))
        try:
            it.policy.uninterpreted = frozenset({'lsl_c', 'lsr_c', 'asr_c', 'ror_c', 'rrx_c'})
            it.run_function(fi, args)
        except (Unsupported, AnalysisError) as e:
            return False, 'outside the table idiom: %s' % e
        ub = [o for o in it.outcomes if o.kind == 'unbound' and o.payload in names]
        if any(B.AND(o.cond, dom_extra) != 0 for o in ub):
            return False, 'the table domain finds an input that leaves it unbound'
        return True, 'if/elif chain exhaustive over the tested bits (table domain, all inputs)'
    # 2. ArmV6 / Registers methods interpreted by other checks (C11..C15) carry no unbound event there
    DISCHARGED = {
        'ArmV6.translation_table_walk_sd': 'descriptor type chain 00 / 01 / 1x is exhaustive (C15-S interprets the function for all '
                                           'descriptors without an unbound-local event; the fault arms do not return)',
        'ArmV6.convert_attrs_hints': None, 'ArmV6.coproc_accepted': None,
    }
    if qual in ('ArmV6.translation_table_walk_sd',):
        from .c15 import Walk
        w = Walk(repo)
        m_ = w.m
        res, fi = m_.run('ArmV6', 'translation_table_walk_sd', [m_.sym('ARG.mva', 32), m_.sym('ARG.is_write', 1), m_.it.const(4)])
        ub = [o for o in m_.it.outcomes if o.kind == 'unbound' and o.payload in names and o.cond != 0]
        if ub:
            return False, 'unbound on some descriptor value'
        return True, DISCHARGED[qual]
    if qual == 'ArmV6.translate_address_v':
        from . import c15
        tmp = Run('tmp')
        calls = c15.check_compose(tmp, repo, want_outcomes=True)
        ub = [o for o in calls if o.kind == 'unbound' and o.payload in names and o.cond != 0]
        if ub:
            return False, 'unbound for some state'
        return True, 'interpreted for all states (C15-V harness) without an unbound-local event'
    if qual.startswith(('ArmV6.', 'Registers.')):
        cls, meth = qual.split('.')
        fn_node = repo.method(cls, meth).node
        nr, exits = noreturn_functions(repo, None)
        if flag_correlated(repo, fn_node, names, exits):
            return True, 'assigned exactly where a found-flag is set; `if not <flag> ...: <no-return call>` precedes every use'
        try:
            m_ = Machine(repo, stubs={'data_abort': 'raise', 'alignment_fault': 'raise', 'alignment_fault_v': 'raise',
                                      'alignment_fault_p': 'raise', 'translate_address': 'event',
                                      'MemoryControllerHub.__getitem__': 'event', 'MemoryControllerHub.__setitem__': 'event',
                                      'translation_table_walk_ld': 'event', 'translation_table_walk_sd': 'event',
                                      'second_stage_translate': 'event', 'cpx_instr_decode': 'event', 'cp14_debug_instr_decode': 'event',
                                      'cp14_trace_instr_decode': 'event', 'cp14_jazelle_instr_decode': 'event',
                                      'cp15_instr_decode': 'event', 'instr_is_pl0_undefined': 'event', 'write_hsr': 'event',
                                      'take_hyp_trap_exception': 'event', 'default_tex_decode': 'event',
                                      'default_memory_attributes': 'event', 'remapped_tex_decode': 'event', 'mair_decode': 'event',
                                      's2_attr_decode': 'event', 'combine_s1s2_desc': 'event', 'check_permission': 'event',
                                      'check_permission_s2': 'event', 'check_domain': 'event',
                                      'is_exclusive_local': 'event', 'is_exclusive_global': 'event'})
            fi = repo.method(cls, meth)
            args = []
            for p in fi.params()[1:]:
                w_ = {'size': None, 'cp_num': 4, 'n': 4, 'mode': 5, 'rgn': 2, 'attr': 4, 'texcb': 5, 's': 1, 'level': 2, 'domain': 4}.get(p, 32)
                if p == 'size':
                    args.append(m_.it.const(4))
                elif p in ('ispriv', 'iswrite', 'is_write', 'wasaligned', 'was_aligned', 'privileged', 'stage1', 's2fs1walk',
                           'taketohypmode', 'secondstageabort', 'ipavalid', 'ldfsr_format', 'is_excp_return'):
                    args.append(m_.sym('ARG.' + p, 1))
                elif p in ('dtype',):
                    args.append(('enum', 'DAbort', 'PERMISSION'))
                elif p in ('perms', 's1_out_addr_desc', 's1desc', 's2desc', 'memaddrdesc'):
                    return False, 'object parameter'
                else:
                    args.append(m_.sym('ARG.' + p, w_))
            res, _ = m_.run(cls, meth, args)
            ub = [o for o in m_.it.outcomes if o.kind == 'unbound' and o.payload in names and o.cond != 0]
            if ub:
                return False, 'the table domain finds a state that leaves it unbound'
            return True, 'interpreted for all inputs in the table domain without an unbound-local event'
        except (AnalysisError, Unsupported) as e:
            return False, 'cannot be interpreted in the table domain (%s)' % str(e)[:120]
        except Exception as e:          # noqa
            return False, 'internal: %r' % (e,)
    if qual.endswith('.execute') and '.' in qual:
        cname = qual.split('.')[0]
        ci = repo.classes.get(cname)
        if ci and FIELDS is not None:
            fn = ci[0].methods['execute'].node
            for node in ast.walk(fn):
                if isinstance(node, ast.If):
                    consts, field, cur, okc = set(), None, node, True
                    arms = []
                    while True:
                        t = cur.test
                        if isinstance(t, ast.Compare) and len(t.ops) == 1 and isinstance(t.ops[0], ast.Eq) \
                                and ast.unparse(t.left).startswith('self.') and isinstance(t.comparators[0], ast.Constant):
                            f = ast.unparse(t.left)[5:]
                            field = field or f
                            okc = okc and f == field
                            consts.add(t.comparators[0].value)
                            arms.append(cur.body)
                        else:
                            okc = False
                        if len(cur.orelse) == 1 and isinstance(cur.orelse[0], ast.If):
                            cur = cur.orelse[0]
                            continue
                        break
                    if okc and field and not cur.orelse and all(
                            all(any(isinstance(a, ast.Assign) and any(isinstance(tg, ast.Name) and tg.id == v for tg in a.targets)
                                    for a in arm) for v in names) for arm in arms):
                        vals = FIELDS.values(cname, field)
                        if vals is not None and vals <= consts:
                            return True, 'the chain tests self.%s against %s and the decode layer only produces %s' % (
                                field, sorted(consts), sorted(vals))
    return False, 'no discharge available'


FIELDS = None


class _HP:
    uninterpreted = frozenset()
    opaque_conditions = False

    def call(self, *a):
        return None

    def attr(self, *a):
        return None

    def name(self, *a):
        return None


# ---------------------------------------------------------------------------
def check_asserts_and_indices(run, repo, eff, fr, fa):
    """R6: helper assertions at every call made by an opcode, register indices, banking totality."""
    ctx = sinks.Context(repo, eff, fa)
    allowed_problem = ("assert not (type_o == SRType.RRX and amount != 1) may fail",)
    nidx = 0
    for ci in repo.abstract_opcode_classes():
        ex = ci.methods.get('execute')
        if ex is None:
            continue
        tr = Walker(repo, eff).walk(ex, ci)
        te = ctx.term_eval(fr.for_abstract(ci.name), ci.module, sinks.joint_for(fr, ci.name))
        te.loops = c10.loops_of(tr)
        fa.problems = []
        ok = True
        for ev in tr.events:
            terms = []
            if ev.kind == 'RegWrite':
                terms.append((ev.d['idx'], 0, 14, 'register index written'))
                terms.append((ev.d['value'], None, None, None))
            elif ev.kind == 'RmodeWrite':
                terms.append((ev.d['idx'], 0, 14, 'banked register index written'))
            for k, v in ev.d.items():
                if isinstance(v, tuple) and k not in ('idx',):
                    terms.append((v, None, None, None))
                elif isinstance(v, list):
                    for x in v:
                        if isinstance(x, tuple):
                            terms.append((x, None, None, None))
            for g, pol, _ in ev.guards:
                terms.append((g, None, None, None))
            for t, lo, hi, what in terms:
                v = te.ev_split(t, ev.guards)
                if what is not None:
                    nidx += 1
                    if not sinks.fits(v, lo, hi):
                        ok = False
                        run.violation('C18-R6', ci.relpath, ci.name + '.execute', norm_stmt(ev.node, 100),
                                      '%s may be %r: Registers.set() asserts 0 <= n <= 14 (a PC destination must take the '
                                      'branch path)' % (what, v))
                # register reads: index 0..15
                for s in subterms(t):
                    if isinstance(s, tuple) and s and s[0] == 'reg' and s[1][0] != 'const':
                        iv = te.ev_split(s[1], ev.guards)
                        if not sinks.fits(iv, 0, 15):
                            ok = False
                            run.violation('C18-R6', ci.relpath, ci.name + '.execute', norm_stmt(ev.node, 100),
                                          'register index read may be %r (assert 0 <= n <= 15)' % (iv,))
        # the RRX-amount assertion of shift_c (whatever its spelling) is discharged jointly with the decode model above
        # (rule `RRX amount`: no accepted word yields shift_t == RRX with shift_n != 1)
        probs = sorted({p for p in fa.problems if not (p[0] == 'shift_c' and p[1].startswith('assert') and 'SRType.RRX' in p[1])})
        for fn, msg in probs:
            ok = False
            run.violation('C18-R6', ci.relpath, ci.name + '.execute', '%s: %s' % (fn, msg),
                          'a helper called by %s can fail: %s in %s (AssertionError / arithmetic error for some operand)' % (
                              ci.name, msg, fn))
        run.instance('C18-R6', ci.name, ok=ok, nontrivial=True, sample={'class': ci.name})
    run.floor('register index obligations', nidx, 250)
    # banking is total: look_up_rname returns a register name for every n in 0..14 and every 5-bit mode number
    for n in range(15):
        m = Machine(repo)
        mode = m.sym('ARG.mode', 5)
        res, fi = m.run('Registers', 'look_up_rname', [m.it.const(n), mode])
        bad = 0
        for c, p in res.value.cases:
            if not (isinstance(p, tuple) and p[0] == 'enum' and p[1] == 'RName'):
                bad = m.B.OR(bad, c)
        bad = m.B.AND(bad, m.B.var('ARCH[2]'))
        cov = m.B.AND(m.B.var('ARCH[2]'), m.B.NOT(res.returned))
        okn = bad == 0 and cov == 0
        run.instance('C18-R6', 'look_up_rname total n=%d' % n, ok=okn, sample={'n': n, 'modes': 32})
        if not okn:
            run.violation('C18-R6', fi.relpath, fi.qualname, 'total n=%d' % n,
                          'look_up_rname(%d, mode) does not yield a register name for some 5-bit mode number (a reserved mode in '
                          'SRS / CPS operands): the physical register file is then indexed with None (KeyError)' % n)


def check_raises(run, repo):
    n = 0
    for mod in repo.modules.values():
        for fn in [x for x in ast.walk(mod.tree) if isinstance(x, ast.FunctionDef)]:
            for node in ast.walk(fn):
                if isinstance(node, ast.Raise):
                    n += 1
                    nm = 'reraise' if node.exc is None else (ast.unparse(node.exc.func) if isinstance(node.exc, ast.Call) else ast.unparse(node.exc))
                    ok = nm in ALLOWED_RAISE or (nm == 'AttributeError' and fn.name == '__getattr__')
                    run.instance('C18-R7', '%s:%s raise %s' % (mod.relpath.split('/')[-1], fn.name, nm), ok=ok, nontrivial=False)
                    if not ok:
                        run.violation('C18-R7', mod.relpath, fn.name, 'raise ' + nm,
                                      'raises %s: neither an architectural exception handled by emulate_cycle nor the documented '
                                      'NotImplementedError' % nm)
    run.floor('raise statements', n, 80)
    # handlers cannot raise architectural exceptions (they would escape: raised outside the try body)
    eff = Effects(repo)
    for meth in refmodel.ENTRY_MODELS:
        s = eff.summary('Registers', meth)
        bad = (s.raises if s else set())
        run.instance('C18-R7', 'handler ' + meth, ok=not bad, sample={'handler': meth})
        if bad:
            fi = repo.method('Registers', meth)
            run.violation('C18-R7', fi.relpath, fi.qualname, 'raises in handler', 'the exception-entry function can raise %s, '
                          'which would escape emulate_cycle' % sorted(bad))


# R11: functions with a value-returning path and a path that falls off the end (result None).  The six sites of the pinned
# tree were read: each is either total by an argument another rule decides, or its callers test the result.
IMPLICIT_NONE_OK = {
    ('armulator/armv6/arm_v6.py', 'translate_address'): 'if/elif over the two MemArch values of the configuration (VMSA, PMSA)',
    ('armulator/armv6/arm_v6.py', 'coproc_accepted'): 'every arm of the cp_num / CPACR / opc1 tables returns or raises UNDEFINED (C12-C decides the table)',
    ('armulator/armv6/bits_ops.py', 'lowest_set_bit_ref'): 'x != 0 has a set bit below `length`; reference helper without callers',
    ('armulator/armv6/memory_controller_hub.py', 'get_memory_by_address'): 'None = unmapped address; both callers test the result (C16-U)',
    ('armulator/armv6/registers.py', 'r_bank_select'): 'total over the eight legal modes, bad modes return early (C18-R6 banking totality)',
    ('armulator/armv6/registers.py', 'look_up_rname'): 'total over register numbers 0..15 (C18-R6 register-index ranges)',
}


def check_implicit_none(run, repo, nr):
    """C18-R11: a function that returns a value on one path and falls off its end (or executes a bare return) on another
    hands None to its callers; unless every caller tests the result, the next arithmetic on it is a TypeError that escapes
    the step.  Decoder entry points are R1's subject (None tolerated under a dominating test)."""
    def terminates(stmts):
        for s in stmts:
            if isinstance(s, (ast.Raise, ast.Return)):
                return True
            if isinstance(s, ast.Expr) and isinstance(s.value, ast.Call):
                f = s.value.func
                if isinstance(f, ast.Attribute) and isinstance(f.value, ast.Name) and f.value.id in ('self', 'processor') \
                        and ('ArmV6', f.attr) in nr:
                    return True
            if isinstance(s, ast.If) and s.orelse and terminates(s.body) and terminates(s.orelse):
                return True
            if isinstance(s, ast.Try) and terminates(s.body + s.orelse) and all(terminates(h.body) for h in s.handlers):
                return True
            if isinstance(s, ast.Try) and s.finalbody and terminates(s.finalbody):
                return True
            if isinstance(s, ast.While) and isinstance(s.test, ast.Constant) and s.test.value is True \
                    and not any(isinstance(x, ast.Break) for x in ast.walk(s)):
                return True
        return False

    def is_none(e):
        return e is None or (isinstance(e, ast.Constant) and e.value is None)
    cands = {}
    nfun = 0
    funcs = []
    for mod in repo.modules.values():
        for fn in [x for x in ast.walk(mod.tree) if isinstance(x, ast.FunctionDef)]:
            funcs.append((mod, fn))
            if fn.name in ('from_bitarray', 'decode_instruction'):
                continue
            rets = [r for r in ast.walk(fn) if isinstance(r, ast.Return)]
            valued = [r for r in rets if not is_none(r.value)]
            if not valued:
                continue
            nfun += 1
            bare = [r for r in rets if is_none(r.value)]
            if bare or not terminates(fn.body):
                cands[(mod.relpath, fn.name)] = (fn, 'executes a bare return' if bare else 'can fall off its end')
    run.floor('value-returning functions', nfun, 350)

    def none_tested(fn, name):
        for n in ast.walk(fn):
            t = None
            if isinstance(n, (ast.If, ast.While, ast.IfExp, ast.Assert)):
                t = n.test
            if t is None:
                continue
            for c in ast.walk(t):
                if isinstance(c, ast.Compare) and isinstance(c.left, ast.Name) and c.left.id == name and \
                        isinstance(c.ops[0], (ast.Is, ast.IsNot, ast.Eq, ast.NotEq)) and is_none(c.comparators[0]):
                    return True
            tt = t.operand if isinstance(t, ast.UnaryOp) and isinstance(t.op, ast.Not) else t
            if isinstance(tt, ast.Name) and tt.id == name:
                return True
        return False

    def intolerant_use(name):
        """first call site of `name` whose result is consumed without a None test"""
        for mod, fn in funcs:
            parents = {}
            for n in ast.walk(fn):
                for c in ast.iter_child_nodes(n):
                    parents[c] = n
            for n in ast.walk(fn):
                if not isinstance(n, ast.Call):
                    continue
                f = n.func
                if not ((isinstance(f, ast.Attribute) and f.attr == name) or (isinstance(f, ast.Name) and f.id == name)):
                    continue
                par = parents.get(n)
                if isinstance(par, ast.Expr):
                    continue
                if isinstance(par, ast.Assign) and len(par.targets) == 1 and isinstance(par.targets[0], ast.Name) \
                        and none_tested(fn, par.targets[0].id):
                    continue
                if isinstance(par, (ast.If, ast.While)) and par.test is n:
                    continue
                st = n
                while st in parents and not isinstance(st, ast.stmt):
                    st = parents[st]
                return mod, fn, st
        return None
    for key, (fn, why) in sorted(cands.items()):
        known = key in IMPLICIT_NONE_OK
        use = None if known else intolerant_use(fn.name)
        ok = known or use is None
        run.instance('C18-R11', '%s:%s' % (key[0].split('/')[-1], key[1]), ok=ok,
                     sample={'function': key[1], 'why': IMPLICIT_NONE_OK.get(key, 'every caller tests the result')})
        if not ok:
            mod, cfn, st = use
            run.violation('C18-R11', key[0], key[1], 'implicit None result',
                          '%s %s and then returns None, but %s:%s uses the result without a None test (`%s`): the next '
                          'operation on it is a host TypeError that escapes the step' % (
                              key[1], why, mod.relpath.split('/')[-1], cfn.name, norm_stmt(st, 90)))
    missing = [k for k in IMPLICIT_NONE_OK if k not in cands]
    run.extra['implicit_none_table'] = {'listed': len(IMPLICIT_NONE_OK), 'still_present': len(IMPLICIT_NONE_OK) - len(missing)}


def check_builtins(run, repo):
    ndiv = 0
    for mod in repo.modules.values():
        for fn in [x for x in ast.walk(mod.tree) if isinstance(x, ast.FunctionDef)]:
            for node in ast.walk(fn):
                if isinstance(node, ast.BinOp) and isinstance(node.op, (ast.Div, ast.FloorDiv, ast.Mod)):
                    d = node.right
                    if isinstance(d, ast.Constant) and d.value:
                        continue
                    if isinstance(d, ast.BinOp) and isinstance(d.op, ast.Pow):
                        continue     # 2 ** k
                    if isinstance(d, ast.Name) and d.id in ('x_len', 'y') and mod.name.endswith(('shift', 'bits_ops')):
                        continue     # widths / alignment sizes: positive constants at every call (C17-X, C13)
                    ndiv += 1
                    # the divisor must be zero-tested on the path: an enclosing If whose test mentions the divisor
                    tested = False
                    dn = ast.unparse(d)
                    for iff in ast.walk(fn):
                        if isinstance(iff, ast.If) and any(x is node for b in iff.orelse for x in ast.walk(b)):
                            if dn in ast.unparse(iff.test) and '== 0' in ast.unparse(iff.test):
                                tested = True
                        if isinstance(iff, ast.If) and any(x is node for b in iff.body for x in ast.walk(b)):
                            if dn in ast.unparse(iff.test) and ('!= 0' in ast.unparse(iff.test)):
                                tested = True
                    run.instance('C18-R9', '%s:%s division' % (mod.relpath.split('/')[-1], fn.name), ok=tested,
                                 sample={'expr': norm_stmt(node, 60)})
                    if not tested:
                        run.violation('C18-R9', mod.relpath, fn.name, norm_stmt(node, 80),
                                      'division whose divisor `%s` is not zero-tested on the path (ZeroDivisionError)' % dn)
    run.extra['division_sites'] = ndiv


KNOWN_TABLE_SITES = {
    # (module relpath suffix, function qualname, subscript text): why the key is always present
    ('memory_controller_hub.py', 'to_int', 'LENGTH_FORMATS[length]'): 'sizes are 1/2/4/8 (C13 accessor sizes; C16-L keys)',
    ('memory_controller_hub.py', 'from_int', 'LENGTH_FORMATS[length]'): 'sizes are 1/2/4/8 (C13 accessor sizes; C16-L keys)',
    ('memory_controller_hub.py', 'MemoryControllerHub.add_memory', 'MEMORY_TYPE_DICT[mem_type]'): 'construction time (configuration), not a step',
}


def check_const_tables(run, repo):
    """C18-R10: a subscript of a module- or class-level constant table (dict / list / tuple literal) with a run-time key is a
    KeyError / IndexError unless the key's domain is covered: frozen inventory of the existing sites; a new site is accepted only
    when the table is keyed by *all* members of one Enum."""
    tables = {}
    for m in repo.modules.values():
        tree = ast.parse(m.source)
        for n in tree.body:
            if isinstance(n, ast.Assign) and isinstance(n.value, (ast.Dict, ast.List, ast.Tuple)) and isinstance(n.targets[0], ast.Name) \
                    and n.targets[0].id != '__all__':
                tables[n.targets[0].id] = (m, n.value)
            if isinstance(n, ast.ClassDef):
                for c in n.body:
                    if isinstance(c, ast.Assign) and isinstance(c.value, (ast.Dict, ast.List, ast.Tuple)) and isinstance(c.targets[0], ast.Name):
                        tables[c.targets[0].id] = (m, c.value)
    nsites = 0
    for m in repo.modules.values():
        tree = ast.parse(m.source)
        for fn in ast.walk(tree):
            if not isinstance(fn, (ast.FunctionDef, ast.AsyncFunctionDef)):
                continue
            cls = next((c.name for c in ast.walk(tree) if isinstance(c, ast.ClassDef) and fn in c.body), None)
            qual = '%s.%s' % (cls, fn.name) if cls else fn.name
            for n in ast.walk(fn):
                if not (isinstance(n, ast.Subscript) and isinstance(n.ctx, ast.Load)):
                    continue
                base = ast.unparse(n.value).split('.')[-1]
                if base not in tables or isinstance(n.slice, ast.Constant):
                    continue
                nsites += 1
                txt = ast.unparse(n)
                key = (m.relpath.split('/')[-1], qual, txt)
                ok = key in KNOWN_TABLE_SITES
                why = KNOWN_TABLE_SITES.get(key, '')
                if not ok:
                    # the lookup sits inside `if <key> < len(<table>):` / `if <key> in <table>:`
                    ktxt, btxt = ast.unparse(n.slice), ast.unparse(n.value)
                    for iff in ast.walk(fn):
                        if isinstance(iff, ast.If) and any(x is n for b_ in iff.body for x in ast.walk(b_)):
                            tt = ast.unparse(iff.test)
                            if ('%s < len(%s)' % (ktxt, btxt)) in tt or ('%s in %s' % (ktxt, btxt)) in tt:
                                ok, why = True, 'guarded by `%s`' % tt[:60]
                if not ok:
                    tm, tv = tables[base]
                    if isinstance(tv, ast.Dict) and tv.keys and all(isinstance(k, ast.Attribute) and isinstance(k.value, ast.Name) for k in tv.keys):
                        enums = {k.value.id for k in tv.keys}
                        if len(enums) == 1:
                            r = repo.resolve_name(tm, enums.pop())
                            if r and r[0] == 'class':
                                members = {c.targets[0].id for c in r[1].node.body if isinstance(c, ast.Assign) and isinstance(c.targets[0], ast.Name)}
                                have = {k.attr for k in tv.keys}
                                ok = members <= have
                                why = 'keyed by every member of %s' % r[1].name if ok else 'missing key(s) %s' % sorted(members - have)
                run.instance('C18-R10', '%s %s' % (qual, txt), ok=ok, sample={'site': txt, 'function': qual, 'why': why})
                if not ok:
                    run.violation('C18-R10', m.relpath, qual, txt,
                                  'lookup in the constant table `%s` with a run-time key that is not proved to be present (%s): KeyError / '
                                  'IndexError escapes the step' % (base, why or 'no covering argument'))
    run.floor('constant-table lookups', nsites, 3)


def main(repo_path, tier, seed, replay=None):
    run = Run('C18', tier, level='other', seed=seed)
    repo = Repo(repo_path)
    eff = Effects(repo)
    fa = FuncAnalyzer(repo)
    fr = FieldRanges(repo, fa)
    check_none_tolerance(run, repo)
    check_decode_hosterrors(run, repo, fr.models)
    check_ctor_binding(run, repo)
    check_attr_defined(run, repo)
    global FIELDS
    FIELDS = fr
    findings = check_definite_assignment(run, repo, eff)
    discharge_unbound(run, repo, findings)
    check_asserts_and_indices(run, repo, eff, fr, fa)
    check_raises(run, repo)
    check_implicit_none(run, repo, noreturn_functions(repo, eff)[0])
    check_builtins(run, repo)
    check_const_tables(run, repo)
    fa2 = FuncAnalyzer(repo)
    c10.check_widths(run, repo, eff, fr, fa2, rule='C18-R8', select=lambda ob: True if not ob.what.startswith(
        ('system register', 'argument')) else False)
    # positive control: the None test removed from emulate_cycle (in memory)
    fi = repo.method('ArmV6', 'emulate_cycle')
    src = fi.module.source
    tree = ast.parse(src)
    done = [False]

    class Tr(ast.NodeTransformer):
        def visit_If(self, node):
            self.generic_visit(node)
            if not done[0] and 'is None' in ast.unparse(node.test) and any(isinstance(x, ast.Raise) for x in node.body):
                done[0] = True
                return ast.Pass()
            return node
    new = Tr().visit(tree)
    fired = False
    what = ''
    if done[0]:
        ast.fix_missing_locations(new)
        mrepo = Repo(repo_path, overrides={fi.module.relpath: ast.unparse(new)})
        tmp = Run('C18')
        check_none_tolerance(tmp, mrepo)
        fired = bool(tmp.findings)
        what = 'None test removed from emulate_cycle'
    run.control('C18-R1 None test removed', fired, what)
    run.exhaustive = True
    run.undecided = ['host errors that need numeric coincidences outside the interval domain', 'MemoryError / recursion depth',
                     'errors inside the mock coprocessor / barrier hooks (documented NotImplementedError)']
    run.assumptions = ['a configuration file supplies every key the package reads (configuration validity)',
                       'MPUIR.DRegion does not exceed number_of_mpu_regions (list index in translate_address_p)']
    return run.finish(
        'C18: exception-escape analysis from emulate_cycle - None tolerance by dominance, decode-path host errors exactly from the '
        'decode model, constructor binding, attribute definedness, flow-sensitive definite assignment with the remaining if/elif '
        'chains discharged by exhaustiveness in the table domain, helper assertions / register indices / banking totality by '
        'interval analysis and exact tables, raise-class discipline, division sites, and the width obligations that exclude '
        'struct.error.  Each kind of host-error site is enumerated; a new undischarged site is reported.',
        './check C18 --tier %s' % tier)
