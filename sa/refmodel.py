"""Reference models of the architecture pseudocode (ARM ARM, ARMv7-A/R edition, B1.3,
B1.8, B1.9, A2.3, A8.4.3), written directly over named state atoms as BDD bit-vectors.
They are the oracle for the state-transition functions of the tree (see sa/machine.py);
DESIGN.md Appendix A holds the prose transcription these were written from.
"""
from .bitdom import Int

MODES = {'usr': 0b10000, 'fiq': 0b10001, 'irq': 0b10010, 'svc': 0b10011, 'mon': 0b10110, 'abt': 0b10111,
         'hyp': 0b11010, 'und': 0b11011, 'sys': 0b11111}
BANK_OF_MODE = {0b10000: 'usr', 0b10001: 'fiq', 0b10010: 'irq', 0b10011: 'svc', 0b10110: 'mon', 0b10111: 'abt',
                0b11010: 'hyp', 0b11011: 'und', 0b11111: 'usr'}
P = 'processor.registers.'


class M:
    """Tiny expression layer over the interpreter's bit-vector operations."""

    def __init__(self, machine):
        self.m = machine
        self.it = machine.it
        self.B = machine.B

    # atoms ------------------------------------------------------------
    def view(self, name):
        return self.m.view(name)

    def vbit(self, name, k):
        return self.m.view(name).bits[k]

    def cfg(self, name):
        return self.m.cfg(name)

    def reg(self, name, w=32):
        return self.m.reg_attr(name, w)

    def R(self, rname):
        return self.m.R(rname)

    # ops --------------------------------------------------------------
    def c(self, v, w=None):
        x = self.it.const(v)
        return x if w is None else Int(self.it.ext(x, w))

    def fld(self, x, hi, lo):
        return Int(self.it.ext(x, hi + 1)[lo:hi + 1])

    def setf(self, x, hi, lo, v, width=32):
        bits = self.it.ext(x, width)
        vb = self.it.ext(v, hi - lo + 1)
        return Int(bits[:lo] + vb + bits[hi + 1:])

    def setb(self, x, k, b, width=32):
        bits = self.it.ext(x, width)
        bits[k] = b
        return Int(bits)

    def ite(self, cnd, a, b):
        return self.it.i_ite(cnd, a, b)

    def eq(self, x, v):
        return self.it.i_eq(x, v if isinstance(v, Int) else self.it.const(v))

    def add32(self, x, k):
        return Int(self.it.ext(self.it.i_add(x, k if isinstance(k, Int) else self.it.const(k)), 32))

    def sub32(self, x, k):
        return Int(self.it.ext(self.it.i_sub(x, k if isinstance(k, Int) else self.it.const(k)), 32))

    def AND(self, *xs):
        return self.B.all_and(xs)

    def OR(self, *xs):
        return self.B.all_or(xs)

    def NOT(self, x):
        return self.B.NOT(x)

    # architecture helpers --------------------------------------------------
    def cpsr(self):
        return self.view('cpsr')

    def mode_is(self, cpsr, name):
        return self.eq(self.fld(cpsr, 4, 0), MODES[name])

    def is_secure(self, cpsr=None):
        cpsr = cpsr if cpsr is not None else self.cpsr()
        return self.OR(self.NOT(self.cfg('have_security_ext')), self.NOT(self.vbit('scr', 0)), self.mode_is(cpsr, 'mon'))

    def bad_mode(self, mode):
        good = self.OR(*[self.eq(mode, v) for k, v in MODES.items() if k not in ('mon', 'hyp')])
        good = self.OR(good, self.AND(self.eq(mode, MODES['mon']), self.cfg('have_security_ext')),
                       self.AND(self.eq(mode, MODES['hyp']), self.cfg('have_virt_ext')))
        return self.NOT(good)

    def valid_state(self):
        """Current mode is a legal mode for the configured extensions."""
        return self.NOT(self.bad_mode(self.fld(self.cpsr(), 4, 0)))

    def pc_value(self):
        """Value read from R15: instruction address + 8 in ARM state, + 4 otherwise."""
        cp = self.cpsr()
        arm = self.AND(self.NOT(cp.bits[24]), self.NOT(cp.bits[5]))
        pc = self.R('PC')
        return self.ite(arm, self.add32(pc, 8), self.add32(pc, 4))

    def exc_vector_base(self):
        v = self.vbit('sctlr', 13)
        return self.ite(v, self.c(0xFFFF0000, 32),
                        self.ite(self.cfg('have_security_ext'), self.view('vbar'), self.c(0, 32)))

    def it_advance(self, cpsr):
        # ITSTATE = CPSR[15:10]:CPSR[26:25]
        it = Int([cpsr.bits[25], cpsr.bits[26]] + list(cpsr.bits[10:16]))
        low3zero = self.eq(self.fld(it, 2, 0), 0)
        adv = Int([0] + list(it.bits[0:4]) + list(it.bits[5:8]))   # IT[4:0] = IT[3:0]:0 ; IT[7:5] kept
        new = self.ite(low3zero, self.c(0, 8), adv)
        new = Int(self.it.ext(new, 8))
        out = self.setf(cpsr, 26, 25, self.fld(new, 1, 0))
        out = self.setf(out, 15, 10, self.fld(new, 7, 2))
        return out


# ---------------------------------------------------------------------------
# exception entry
# ---------------------------------------------------------------------------
class Entry:
    """Builds the final state of an exception entry as {heap key: Int}; locations not
    mentioned are unchanged.  `unknown` lists (key, cond) whose value is UNKNOWN."""

    def __init__(self, m):
        self.m = m
        self.final = {}
        self.init = {}
        self.unknown = []

    def key(self, name):
        return P + name

    def cur(self, key, initial):
        self.init.setdefault(key, initial)
        return self.final.get(key, initial)

    def put(self, key, initial, value, cond=1):
        self.init.setdefault(key, initial)
        old = self.final.get(key, initial)
        self.final[key] = value if cond == 1 else self.m.ite(cond, value, old)

    # state accessors
    def cpsr(self):
        return self.cur(P + 'cpsr.value', self.m.cpsr())

    def set_cpsr(self, v, cond=1):
        self.put(P + 'cpsr.value', self.m.cpsr(), v, cond)

    def set_spsr_of(self, bank, v, cond):
        k = P + 'spsr_' + bank
        self.put(k, self.m.reg('spsr_' + bank), v, cond)

    def set_lr_of(self, bank, v, cond):
        if bank == 'hyp':
            raise ValueError
        k = P + '_R[RName.LR%s]' % bank
        self.put(k, self.m.R('LR' + bank), v, cond)

    def set_pc(self, v, cond):
        self.put(P + '_R[RName.PC]', self.m.R('PC'), v, cond)

    def set_scr_ns0(self, cond):
        scr = self.cur(P + 'scr.value', self.m.view('scr'))
        self.put(P + 'scr.value', self.m.view('scr'), self.m.setb(scr, 0, 0), cond)


def enter_hyp(e, cond, new_spsr, pref_return, vect_offset):
    m = e.m
    cp = e.cpsr()
    cp = m.setf(cp, 4, 0, m.c(MODES['hyp'], 5))
    e.set_spsr_of('hyp', new_spsr, cond)
    e.put(P + 'elr_hyp', m.reg('elr_hyp'), pref_return, cond)
    cp = m.setb(cp, 24, 0)
    cp = m.setb(cp, 5, m.vbit('hsctlr', 30))
    cp = m.setb(cp, 9, m.vbit('hsctlr', 25))
    scr = e.cur(P + 'scr.value', m.view('scr'))
    cp = m.setb(cp, 8, m.OR(cp.bits[8], m.NOT(scr.bits[3])))   # SCR.EA == 0 -> A := 1
    cp = m.setb(cp, 6, m.OR(cp.bits[6], m.NOT(scr.bits[2])))   # SCR.FIQ == 0 -> F := 1
    cp = m.setb(cp, 7, m.OR(cp.bits[7], m.NOT(scr.bits[1])))   # SCR.IRQ == 0 -> I := 1
    cp = m.setf(cp, 26, 25, m.c(0, 2))
    cp = m.setf(cp, 15, 10, m.c(0, 6))
    e.set_cpsr(cp, cond)
    e.set_pc(m.add32(m.reg('hvbar'), vect_offset), cond)


def enter_monitor(e, cond, new_spsr, new_lr, vect_offset):
    m = e.m
    cp = e.cpsr()
    cp = m.setf(cp, 4, 0, m.c(MODES['mon'], 5))
    e.set_spsr_of('mon', new_spsr, cond)
    e.set_lr_of('mon', new_lr, cond)
    cp = m.setb(cp, 24, 0)
    cp = m.setb(cp, 5, m.vbit('sctlr', 30))
    cp = m.setb(cp, 9, m.vbit('sctlr', 25))
    cp = m.setb(cp, 8, 1)
    cp = m.setb(cp, 6, 1)
    cp = m.setb(cp, 7, 1)
    cp = m.setf(cp, 26, 25, m.c(0, 2))
    cp = m.setf(cp, 15, 10, m.c(0, 6))
    e.set_cpsr(cp, cond)
    e.set_pc(m.add32(m.reg('mvbar'), vect_offset), cond)


def enter_mode(e, cond, bank, new_spsr, new_lr, vect_offset, a_rule=False, f_rule=False, impdef_vector=None):
    """Common tail of the non-Hyp, non-Monitor route.  The A/F mask rules read SCR *after* the
    'if CPSR.M == Monitor then SCR.NS = 0' step, as the pseudocode does."""
    m = e.m
    cp = e.cpsr()
    scr = e.cur(P + 'scr.value', m.view('scr'))
    sec, virt = m.cfg('have_security_ext'), m.cfg('have_virt_ext')
    set_a = m.OR(m.NOT(sec), virt, m.NOT(scr.bits[0]), scr.bits[5]) if a_rule else 0
    set_f = m.OR(m.NOT(sec), virt, m.NOT(scr.bits[0]), scr.bits[4]) if f_rule else 0
    cp = m.setf(cp, 4, 0, m.c(MODES[bank], 5))
    e.set_spsr_of(bank, new_spsr, cond)
    e.set_lr_of(bank, new_lr, cond)
    cp = m.setb(cp, 7, 1)
    cp = m.setb(cp, 6, m.OR(cp.bits[6], set_f))
    cp = m.setb(cp, 8, m.OR(cp.bits[8], set_a))
    cp = m.setf(cp, 26, 25, m.c(0, 2))
    cp = m.setf(cp, 15, 10, m.c(0, 6))
    cp = m.setb(cp, 24, 0)
    cp = m.setb(cp, 5, m.vbit('sctlr', 30))
    cp = m.setb(cp, 9, m.vbit('sctlr', 25))
    e.set_cpsr(cp, cond)
    target = m.add32(m.exc_vector_base(), vect_offset)
    if impdef_vector is not None:
        ve = m.vbit('sctlr', 24)
        target = m.ite(ve, impdef_vector, target)
    e.set_pc(target, cond)


def _common(m):
    cp0 = m.cpsr()
    sec, virt = m.cfg('have_security_ext'), m.cfg('have_virt_ext')
    scr = m.view('scr')
    hcr = m.view('hcr')
    is_hyp = m.mode_is(cp0, 'hyp')
    is_usr = m.mode_is(cp0, 'usr')
    is_mon = m.mode_is(cp0, 'mon')
    return cp0, sec, virt, scr, hcr, is_hyp, is_usr, is_mon


def take_undef(m):
    e = Entry(m)
    cp0, sec, virt, scr, hcr, is_hyp, is_usr, is_mon = _common(m)
    T = cp0.bits[5]
    pc = m.pc_value()
    new_lr = m.ite(T, m.sub32(pc, 2), m.sub32(pc, 4))
    pref = m.ite(T, m.sub32(new_lr, 2), m.sub32(new_lr, 4))
    take_to_hyp = m.AND(virt, sec, scr.bits[0], is_hyp)
    route_to_hyp = m.AND(virt, sec, m.NOT(m.is_secure()), hcr.bits[27], is_usr)
    c1 = take_to_hyp
    c2 = m.AND(m.NOT(c1), route_to_hyp)
    c3 = m.AND(m.NOT(c1), m.NOT(route_to_hyp))
    e.set_scr_ns0(m.AND(c3, is_mon))
    enter_mode(e, c3, 'und', cp0, new_lr, 4)
    enter_hyp_two(e, c1, c2, cp0, pref, 4)
    return e


def enter_hyp_two(e, c_take, c_route, new_spsr, pref, vect_offset):
    """EnterHypMode with the exception's own vector (take_to_hyp) or the Hyp-trap vector 20."""
    m = e.m
    c = m.OR(c_take, c_route)
    if c == 0:
        return
    off = m.ite(c_take, m.c(vect_offset, 32), m.c(20, 32))
    # both calls perform the same updates except for the vector
    enter_hyp(e, c, new_spsr, pref, off)


def take_svc(m):
    e = Entry(m)
    cp0, sec, virt, scr, hcr, is_hyp, is_usr, is_mon = _common(m)
    cp_adv = m.it_advance(cp0)
    e.set_cpsr(cp_adv)
    T = cp0.bits[5]
    pc = m.pc_value()
    new_lr = m.ite(T, m.sub32(pc, 2), m.sub32(pc, 4))
    new_spsr = cp_adv
    take_to_hyp = m.AND(virt, sec, scr.bits[0], is_hyp)
    route_to_hyp = m.AND(virt, sec, m.NOT(m.is_secure()), hcr.bits[27], is_usr)
    c1 = take_to_hyp
    c2 = m.AND(m.NOT(c1), route_to_hyp)
    c3 = m.AND(m.NOT(c1), m.NOT(route_to_hyp))
    e.set_scr_ns0(m.AND(c3, is_mon))
    enter_mode(e, c3, 'svc', new_spsr, new_lr, 8)
    enter_hyp_two(e, c1, c2, new_spsr, new_lr, 8)
    return e


def take_smc(m):
    e = Entry(m)
    cp0, sec, virt, scr, hcr, is_hyp, is_usr, is_mon = _common(m)
    cp_adv = m.it_advance(cp0)
    e.set_cpsr(cp_adv)
    T = cp0.bits[5]
    pc = m.pc_value()
    new_lr = m.ite(T, pc, m.sub32(pc, 4))
    e.set_scr_ns0(is_mon)
    enter_monitor(e, 1, cp_adv, new_lr, 8)
    return e


def take_hyp_trap(m):
    e = Entry(m)
    cp0 = m.cpsr()
    T = cp0.bits[5]
    pc = m.pc_value()
    pref = m.ite(T, m.sub32(pc, 4), m.sub32(pc, 8))
    enter_hyp(e, 1, cp0, pref, 20)
    return e


def take_data_abort(m):
    e = Entry(m)
    B = m.B
    cp0, sec, virt, scr, hcr, is_hyp, is_usr, is_mon = _common(m)
    T = cp0.bits[5]
    pc = m.pc_value()
    new_lr = m.ite(T, m.add32(pc, 4), pc)
    pref = m.sub32(new_lr, 8)
    ext, asy, dbg = B.var('MOCK.external_abort'), B.var('MOCK.async_abort'), B.var('MOCK.debug_exception')
    second = B.var('DABT.second_stage[0]')
    align = B.var('DABT.is_alignment')
    hdcr = m.view('hdcr')
    route_to_monitor = m.AND(sec, scr.bits[3], ext)
    take_to_hyp = m.AND(virt, sec, scr.bits[0], is_hyp)
    route_to_hyp = m.AND(virt, sec, m.NOT(m.is_secure()), m.OR(
        second,
        m.OR(m.AND(m.NOT(is_hyp), m.AND(ext, asy, hcr.bits[5])), m.AND(dbg, hdcr.bits[8])),
        m.AND(is_usr, hcr.bits[27], m.OR(align, m.AND(ext, m.NOT(asy))))))
    c0 = route_to_monitor
    c1 = m.AND(m.NOT(c0), take_to_hyp)
    c2 = m.AND(m.NOT(c0), m.NOT(take_to_hyp), route_to_hyp)
    c3 = m.AND(m.NOT(c0), m.NOT(take_to_hyp), m.NOT(route_to_hyp))
    e.set_scr_ns0(m.AND(c0, is_mon))
    e.set_scr_ns0(m.AND(c3, sec, is_mon))
    enter_mode(e, c3, 'abt', cp0, new_lr, 16, a_rule=True)
    enter_monitor(e, c0, cp0, new_lr, 16)
    enter_hyp_two(e, c1, c2, cp0, pref, 16)
    return e


def _irq_fiq(m, which):
    e = Entry(m)
    cp0, sec, virt, scr, hcr, is_hyp, is_usr, is_mon = _common(m)
    T = cp0.bits[5]
    pc = m.pc_value()
    new_lr = m.ite(T, pc, m.sub32(pc, 4))
    if which == 'irq':
        scr_bit, hcr_bit, off, bank = scr.bits[1], hcr.bits[4], 24, 'irq'
        imp = m.m.sym('CFG.impdef_irq_vector', 32)
    else:
        scr_bit, hcr_bit, off, bank = scr.bits[2], hcr.bits[3], 28, 'fiq'
        imp = m.m.sym('CFG.impdef_fiq_vector', 32)
    route_to_monitor = m.AND(sec, scr_bit)
    route_to_hyp = m.OR(m.AND(virt, sec, m.NOT(scr_bit), hcr_bit, m.NOT(m.is_secure())), is_hyp)
    c0 = route_to_monitor
    c1 = m.AND(m.NOT(c0), route_to_hyp)
    c3 = m.AND(m.NOT(c0), m.NOT(route_to_hyp))
    e.set_scr_ns0(m.AND(c0, is_mon))
    e.set_scr_ns0(m.AND(c3, is_mon))
    enter_mode(e, c3, bank, cp0, new_lr, off, a_rule=True, f_rule=(which == 'fiq'), impdef_vector=imp)
    enter_monitor(e, c0, cp0, new_lr, off)
    enter_hyp(e, c1, cp0, m.sub32(new_lr, 4), off)
    e.unknown.append((P + 'hsr.value', c1))
    return e


def take_irq(m):
    return _irq_fiq(m, 'irq')


def take_fiq(m):
    return _irq_fiq(m, 'fiq')


ENTRY_MODELS = {
    'take_undef_instr_exception': take_undef,
    'take_svc_exception': take_svc,
    'take_smc_exception': take_smc,
    'take_hyp_trap_exception': take_hyp_trap,
    'take_data_abort_exception': take_data_abort,
    'take_physical_irq_exception': take_irq,
    'take_physical_fiq_exception': take_fiq,
}

# bit positions used above (audited against the register view classes by rule C17-V):
# SCR: NS 0, IRQ 1, FIQ 2, EA 3, FW 4, AW 5 ; HCR: FMO 3, IMO 4, AMO 5, TGE 27 ; HDCR: TDE 8
# SCTLR: V 13, VE 24, EE 25, TE 30 ; HSCTLR: EE 25, TE 30
