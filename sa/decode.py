"""Decode layer extraction (M2 applied to decoders and from_bitarray).

* :func:`partition` - every path of the decoder functions from one root, giving
  the exact region of instruction words per leaf (class / raise / None), plus
  the per-arm reachability (dead arms) over the union of calling contexts.
* :func:`analyse_from_bitarray` - per concrete class: accepting region, kwargs
  as per-bit functions of instruction bits and state atoms, raise / None
  (unpredictable) regions, possible host errors.
"""
import ast

from . import bitdom
from .bdd import BDD
from .bitdom import Interp, Policy, V, Value, Int, Tup, UF, Top, NONE, State, Unsupported
from .report import AnalysisError
from .srcmodel import norm_stmt

DEC_PKG = 'armulator.armv6.opcodes.decoders'
ROOTS = {
    'ARM': (DEC_PKG + '.arm_instruction_set', 32),
    'T16': (DEC_PKG + '.thumb_instruction_set_encoding_16_bit', 16),
    'T32': (DEC_PKG + '.thumb_instruction_set_encoding_32_bit', 32),
}

# helpers whose *results* are run-time arithmetic: kept as uninterpreted symbols, their
# arguments are compared bit for bit
UNINTERPRETED = frozenset({
    'arm_expand_imm_c', 'arm_expand_imm', 'thumb_expand_imm_c', 'thumb_expand_imm',
    'shift_c', 'shift', 'add_with_carry', 'lsl_c', 'lsr_c', 'asr_c', 'ror_c', 'rrx_c',
    'lsl', 'lsr', 'asr', 'ror', 'rrx',
})

CONFIG_BOOL_ATOMS = ('have_security_ext', 'have_virt_ext', 'have_lpae', 'have_mp_ext', 'have_adv_simd_or_vfp',
                     'have_thumbee', 'have_jazelle', 'jazelle_accepts_execution', 'is_armv7r_profile',
                     'has_imp_def_reset_vector', 'implementation_supports_transient')


class MachinePolicy(Policy):
    """Symbolic machine state: every attribute of the processor / registers object graph is
    a named atom; configuration functions are named atoms; ``arch_version`` is a 3-bit
    symbol constrained to 4..7 by the caller."""
    uninterpreted = UNINTERPRETED
    opaque_conditions = False

    def __init__(self, repo, B):
        self.repo = repo
        self.B = B
        self.reg_types = None
        self.widths = {}
        self.opcode_kwargs = []

    def registers_typing(self):
        if self.reg_types is None:
            ci = self.repo.cls('Registers')
            init = ci.find_method('__init__')
            types = {}
            # __init__ and the private helpers it calls on self (state built in a helper is still constructor state)
            nodes = list(ast.walk(init.node))
            for c in list(nodes):
                if isinstance(c, ast.Call) and isinstance(c.func, ast.Attribute) and isinstance(c.func.value, ast.Name) \
                        and c.func.value.id == 'self':
                    h = ci.find_method(c.func.attr)
                    if h is not None and h is not init:
                        nodes += list(ast.walk(h.node))
            for node in nodes:
                if isinstance(node, ast.Assign) and len(node.targets) == 1:
                    t = node.targets[0]
                    if isinstance(t, ast.Attribute) and isinstance(t.value, ast.Name) and t.value.id == 'self':
                        v = node.value
                        if isinstance(v, ast.Call) and isinstance(v.func, ast.Name):
                            r = self.repo.resolve_name(ci.module, v.func.id)
                            if r and r[0] == 'class':
                                types[t.attr] = ('obj', r[1].name)
                                continue
                        if isinstance(v, ast.ListComp) and isinstance(v.elt, ast.Call) and isinstance(v.elt.func, ast.Name):
                            r = self.repo.resolve_name(ci.module, v.elt.func.id)
                            if r and r[0] == 'class':
                                types[t.attr] = ('list', r[1].name)
                                continue
                        if isinstance(v, ast.Constant) and isinstance(v.value, int):
                            # width from the literal's spelled length is lost in the ast; use 64 for *_64, httbr, vttbr
                            types[t.attr] = ('int', 64 if (t.attr.endswith('_64') or t.attr in ('httbr', 'vttbr')) else 32)
                            continue
                        if isinstance(v, ast.Constant) and isinstance(v.value, bool):
                            types[t.attr] = ('int', 1)
                            continue
                        types[t.attr] = ('other', None)
            self.reg_types = types
        return self.reg_types

    epoch = ''        # 'EARLIER.' while a scratch snapshot is being evaluated (scratch_snapshot)

    def sym(self, name, width):
        return bitdom.sym_int(self.B, self.epoch + name, width)

    def scratch_snapshot(self, it, obj, attr, st):
        """A processor-local attribute the model does not know (a scratch field some change added): its value is whatever
        a method assigned to it at an EARLIER moment, i.e. the assigned expressions evaluated over a havocked copy of the
        machine state (symbols EARLIER.*), chosen by a free selector.  A result that depends on it is then visibly not a
        function of the current architectural state.  None (the old `unknown value`) when an assignment cannot be evaluated."""
        import ast as _ast
        if self.epoch:
            return None
        ci = self.repo.cls('ArmV6')
        exprs = []
        for m in ci.methods.values():
            for n in _ast.walk(m.node):
                if isinstance(n, _ast.Assign) and len(n.targets) == 1 and isinstance(n.targets[0], _ast.Attribute) and \
                        n.targets[0].attr == attr and isinstance(n.targets[0].value, _ast.Name) and n.targets[0].value.id == 'self':
                    exprs.append((m, n.value))
        if not exprs:
            return None
        B = self.B
        width = max(1, (len(exprs) - 1).bit_length())
        sel = bitdom.sym_int(B, 'EARLIER.writer.' + attr, width)
        cases = []
        saved = it.cur_func
        self.epoch = 'EARLIER.'
        try:
            for i, (m, e) in enumerate(exprs):
                it.cur_func = m
                v = it._eval(e, bitdom.State(1, {'self': V(obj)}, {}))
                c = it.i_eq(sel, it.const(i)) if i < len(exprs) - 1 else B.NOT(it.i_lt(sel, it.const(i)))
                for cc, pp in v.cases:
                    cases.append((B.AND(c, cc), pp))
        except (bitdom.Unsupported, AnalysisError, KeyError):
            return None
        finally:
            self.epoch = ''
            it.cur_func = saved
        return bitdom.Value(it.coalesce(cases))

    def attr(self, it, obj, attr, st):
        path, cls = obj[1], obj[2]
        if cls == 'ArmV6':
            if attr == 'registers':
                return V(('obj', path + '.registers', 'Registers'))
            if attr == 'opcode':
                return V(self.sym(path + '.opcode', 32))
            if attr == 'opcode_len':
                return V(self.sym(path + '.opcode_len', 6))
            if attr in ('is_wait_for_event', 'is_wait_for_interrupt', 'run'):
                return V(self.sym(path + '.' + attr, 1))
            if attr == 'mem':
                return V(('obj', path + '.mem', 'MemoryControllerHub'))
            if attr == 'executed_opcode':
                return V(('obj', path + '.executed_opcode', 'Opcode'))
            return self.scratch_snapshot(it, obj, attr, st)
        if cls == 'Registers':
            t = self.registers_typing().get(attr)
            if t is None:
                return None
            if t[0] == 'obj':
                return V(('obj', path + '.' + attr, t[1]))
            if t[0] == 'int':
                return V(self.sym(path + '.' + attr, t[1]))
            if t[0] == 'list':
                return V(('objlist', path + '.' + attr, t[1]))
            return None
        if cls == 'Configurations':
            if attr == 'arch_version':
                return V(self.sym('ARCH', 3))
            if attr == 'memory_system_architecture':
                return V(('str', 'VMSA')) if False else Value([
                    (self.B.var('CFG.memarch_is_vmsa'), ('str', 'VMSA')),
                    (self.B.NOT(self.B.var('CFG.memarch_is_vmsa')), ('str', 'PMSA'))])
            if attr in ('number_of_mpu_regions', 'processor_id'):
                return V(self.sym('CFG.' + attr, 5))
            if attr.startswith('impdef_') or attr in ('dfsr_string_12', 'data_abort_hsr_9'):
                return V(self.sym('CFG.' + attr, 32 if attr.startswith('impdef_') else 1))
            return V(self.sym('CFG.' + attr, 1))
        ci = self.repo.classes.get(cls)
        if ci and ci[0].is_subclass_of('AbstractRegister'):
            if attr == 'value':
                return V(self.sym(path + '.value', 32))
            if attr == 'length':
                return V(it.const(32))
        return None

    def call(self, it, target, recv, args, kwargs, node, st):
        if isinstance(target, tuple) and target[0] == 'class':
            ci = self.repo.classes.get(target[1])
            if ci and ci[0].is_subclass_of('Opcode'):
                self.opcode_kwargs.append((target[1], args, kwargs))
                return V(('opobj', target[1], len(self.opcode_kwargs) - 1))
        return None


def instr_bits(B, nbits):
    """Instruction bits are the first variables, MSB at the root."""
    for k in reversed(range(32)):
        B.var_index('i[%d]' % k)
    bits = [B.var('i[%d]' % k) for k in range(nbits)]
    return Int(bits)


def arch_constraint(it):
    """ARCH in 4..7 (3-bit symbol with bit 2 set)."""
    a = bitdom.sym_int(it.B, 'ARCH', 3)
    return a.bits[2]


class Leaf:
    def __init__(self, kind, payload, module, node):
        self.kind = kind          # class | raise | none
        self.payload = payload
        self.module = module
        self.node = node
        self.cond = 0


class Partition:
    def __init__(self, root):
        self.root = root
        self.nbits = ROOTS[root][1]
        self.domain = 1
        self.classes = {}      # class name -> region bdd
        self.raises = {}       # exception name -> region
        self.none = 0
        self.arms = {}         # (module relpath, If test text, ordinal) -> [taken bdd, skipped bdd, node, funcinfo]
        self.leaves = {}       # (relpath, return text, ordinal) -> Leaf
        self.hosterrors = []
        self.prints = []


class DecoderInterp(Interp):
    def __init__(self, repo, B, policy, part):
        super().__init__(repo, B, policy)
        self.part = part
        self.ordinals = {}

    def ordinal(self, node):
        return self.ordinals.setdefault(id(node), len(self.ordinals))

    def on_branch(self, node, st, ct, cf):
        f = self.cur_func
        if f is None or not f.module.name.startswith(DEC_PKG):
            return
        key = id(node)
        a = self.part.arms.get(key)
        if a is None:
            a = self.part.arms[key] = [0, 0, node, f]
        a[0] = self.B.OR(a[0], ct)
        a[1] = self.B.OR(a[1], cf)


def partition(repo, root, B=None):
    B = B or BDD()
    modname, nbits = ROOTS[root]
    part = Partition(root)
    pol = MachinePolicy(repo, B)
    it = DecoderInterp(repo, B, pol, part)
    instr = instr_bits(B, nbits)
    fi = repo.func(modname, 'decode_instruction')
    dom = 1
    if root == 'T32':
        top5 = Int(instr.bits[27:32])
        dom = B.all_or(it.i_eq(top5, it.const(v)) for v in (0b11101, 0b11110, 0b11111))
    part.domain = dom
    rets = it.run_function(fi, [V(instr)], cond=dom)
    for c, v, _ in rets:
        for cc, p in v.cases:
            cond = B.AND(c, cc)
            if cond == 0:
                continue
            if isinstance(p, tuple) and p[0] == 'class':
                part.classes[p[1]] = B.OR(part.classes.get(p[1], 0), cond)
            elif p == NONE:
                part.none = B.OR(part.none, cond)
            elif isinstance(p, Top):
                raise AnalysisError('decoder %s returns a value outside the idiom: %s' % (root, p.why))
            else:
                raise AnalysisError('decoder %s returns unexpected value %r' % (root, p))
    for o in it.outcomes:
        if o.kind == 'raise':
            part.raises[o.payload] = B.OR(part.raises.get(o.payload, 0), o.cond)
        elif o.kind in ('hosterror', 'unbound', 'assert_fail'):
            part.hosterrors.append(o)
        elif o.kind == 'print':
            part.prints.append(o)
    part.interp = it
    part.B = B
    return part


def ivars(B, nbits):
    return [B.var_index('i[%d]' % k) for k in range(nbits)]


def pattern(B, u, nbits):
    """Diagram-like pattern of a region: 0/1 where the bit is fixed, '.' where free."""
    s = ''
    for k in reversed(range(nbits)):
        v = B.var('i[%d]' % k)
        if B.AND(u, v) == 0:
            s += '0'
        elif B.AND(u, B.NOT(v)) == 0:
            s += '1'
        else:
            s += '.'
    return s


class FBResult:
    def __init__(self, cls):
        self.cls = cls
        self.accept = []       # list of (cond, kwargs dict name->Value)
        self.raises = {}       # exc name -> cond
        self.none = 0          # implicit None (unpredictable) region
        self.prints = 0
        self.hosterrors = []   # Outcome list (unbound locals, asserts, type errors)
        self.tops = []         # kwargs / conditions outside the idiom
        self.support = set()


def analyse_from_bitarray(repo, ci, region, nbits, B):
    """Analyse ``ci.from_bitarray`` for the instruction words in `region`."""
    pol = MachinePolicy(repo, B)
    it = Interp(repo, B, pol)
    fb = ci.find_method('from_bitarray')
    if fb is None or fb.cls.name == 'Opcode':
        raise AnalysisError('class %s has no from_bitarray' % ci.name)
    instr = instr_bits(B, nbits)
    proc = V(('obj', 'processor', 'ArmV6'))
    cond = B.AND(region, arch_constraint(it))
    res = FBResult(ci.name)
    try:
        rets = it.run_function(fb, [V(instr), proc], cond=cond)
    except Unsupported as u:
        raise AnalysisError('%s.from_bitarray outside the idiom: %s' % (ci.name, u))
    for c, v, _ in rets:
        for cc, p in v.cases:
            k = B.AND(c, cc)
            if k == 0:
                continue
            if isinstance(p, tuple) and p[0] == 'opobj':
                clsname, args, kwargs = pol.opcode_kwargs[p[2]]
                res.accept.append((k, clsname, args, kwargs))
            elif p == NONE:
                res.none = B.OR(res.none, k)
            else:
                res.tops.append(('return', repr(p)))
    for o in it.outcomes:
        if o.kind == 'raise':
            res.raises[o.payload] = B.OR(res.raises.get(o.payload, 0), o.cond)
        elif o.kind == 'print':
            if o.func is fb:
                res.prints = B.OR(res.prints, o.cond)
        elif o.kind in ('unbound', 'assert_fail', 'hosterror'):
            res.hosterrors.append(o)
    res.interp = it
    return res


# ---------------------------------------------------------------------------
# combined model of one root: partition + per-encoding operand extraction
# ---------------------------------------------------------------------------
class EncodingModel:
    def __init__(self, name):
        self.name = name
        self.region = 0
        self.accept = 0
        self.undef = 0        # raise UndefinedInstructionException
        self.other_raise = {}  # any other exception class -> cond
        self.unpred = 0       # implicit None
        self.kwargs = {}
        self.ctor = {}        # constructed class name -> cond
        self.hosterrors = []
        self.impure = []
        self.abstract = None
        self.file = None


class RootModel:
    def __init__(self, root, part):
        self.root = root
        self.part = part
        self.nbits = part.nbits
        self.encodings = {}


def build(repo, root, B):
    part = partition(repo, root, B)
    rm = RootModel(root, part)
    for cname, region in sorted(part.classes.items()):
        ci = repo.cls(cname)
        r = analyse_from_bitarray(repo, ci, region, part.nbits, B)
        em = EncodingModel(cname)
        em.file = ci.relpath
        em.abstract = ci.bases[0].name if ci.bases else None
        em.region = region
        em.unpred = r.none
        for exc, c in r.raises.items():
            if exc == 'UndefinedInstructionException':
                em.undef = B.OR(em.undef, c)
            else:
                em.other_raise[exc] = c
        em.hosterrors = r.hosterrors
        if r.tops:
            raise AnalysisError('%s.from_bitarray returns a value outside the idiom: %s' % (cname, r.tops[:2]))
        kws = {}
        for cond, clsname, args, kwargs in r.accept:
            em.accept = B.OR(em.accept, cond)
            em.ctor[clsname] = B.OR(em.ctor.get(clsname, 0), cond)
            for k, v in kwargs.items():
                kws.setdefault(k, []).extend((B.AND(cond, c), p) for c, p in v.cases)
            for i, a in enumerate(args):
                kws.setdefault('#%d' % i, []).extend((B.AND(cond, c), p) for c, p in a.cases)
        it = r.interp
        for k, cases in kws.items():
            em.kwargs[k] = Value(it.coalesce(cases))
        em.interp = it
        rm.encodings[cname] = em
    return rm


def all_instr_only(B, u, nbits):
    iv = set(ivars(B, nbits))
    return not (B.support(u) - iv)
