"""M1 - source model and resolver.

Parses every ``*.py`` under ``<repo>/armulator`` with :mod:`ast` (nothing is
imported or executed) and offers: module table with resolved imports, class
table with MRO, function table, property getter/setter lookup.
"""
import ast
import os

from .report import AnalysisError

PKG = 'armulator'


class ModuleInfo:
    def __init__(self, name, path, relpath, tree, source):
        self.name = name
        self.path = path
        self.relpath = relpath
        self.tree = tree
        self.source = source
        self.imports = {}     # local name -> ('module', dotted) | ('symbol', dotted module, name)
        self.star = []        # modules star-imported
        self.classes = {}
        self.functions = {}
        self.assigns = {}     # module-level NAME = value (ast node)


class FuncInfo:
    def __init__(self, module, node, cls=None):
        self.module = module
        self.node = node
        self.cls = cls
        self.name = node.name

    @property
    def qualname(self):
        return (self.cls.name + '.' if self.cls else '') + self.name

    @property
    def relpath(self):
        return self.module.relpath

    def is_static(self):
        return any(isinstance(d, ast.Name) and d.id == 'staticmethod' for d in self.node.decorator_list)

    def params(self):
        return [a.arg for a in self.node.args.args]


class ClassInfo:
    def __init__(self, module, node):
        self.module = module
        self.node = node
        self.name = node.name
        self.methods = {}
        self.getters = {}
        self.setters = {}
        self.class_assigns = {}
        self.base_names = []
        self.bases = []  # resolved ClassInfo (repo classes only)
        for item in node.body:
            if isinstance(item, ast.FunctionDef):
                fi = FuncInfo(module, item, self)
                decos = [ast.unparse(d) for d in item.decorator_list]
                if 'property' in decos:
                    self.getters[item.name] = fi
                elif any(d.endswith('.setter') for d in decos):
                    self.setters[item.name] = fi
                else:
                    self.methods[item.name] = fi
            elif isinstance(item, ast.Assign):
                for t in item.targets:
                    if isinstance(t, ast.Name):
                        self.class_assigns[t.id] = item.value

    @property
    def relpath(self):
        return self.module.relpath

    def mro(self):
        out = [self]
        for b in self.bases:
            for c in b.mro():
                if c not in out:
                    out.append(c)
        return out

    def find_method(self, name):
        for c in self.mro():
            if name in c.methods:
                return c.methods[name]
        return None

    def find_getter(self, name):
        for c in self.mro():
            if name in c.getters:
                return c.getters[name]
        return None

    def find_setter(self, name):
        for c in self.mro():
            if name in c.setters:
                return c.setters[name]
        return None

    def is_subclass_of(self, name):
        return any(c.name == name for c in self.mro())

    def is_enum(self):
        return any(b in ('Enum', 'enum.Enum') for b in self.base_names) or any(
            c.is_enum() for c in self.bases)

    def enum_members(self):
        return [k for k in self.class_assigns]


class _Desugar(ast.NodeTransformer):
    """`return next((E for T in IT if C), D)` and `x = next((E for T in IT if C), D)` are rewritten into the first-match
    loop they abbreviate (for T in IT: if C: return E / x = E; break), which every engine already understands."""

    @staticmethod
    def _match(v):
        if isinstance(v, ast.Call) and isinstance(v.func, ast.Name) and v.func.id == 'next' and len(v.args) == 2 and not v.keywords \
                and isinstance(v.args[0], ast.GeneratorExp) and len(v.args[0].generators) == 1 \
                and not v.args[0].generators[0].is_async:
            g = v.args[0].generators[0]
            test = None
            if g.ifs:
                test = g.ifs[0] if len(g.ifs) == 1 else ast.BoolOp(op=ast.And(), values=list(g.ifs))
            return g.target, g.iter, test, v.args[0].elt, v.args[1]
        return None

    def visit_Return(self, node):
        m = self._match(node.value)
        if m is None:
            return node
        target, it, test, elt, default = m
        hit = ast.Return(value=elt)
        body = [ast.If(test=test, body=[hit], orelse=[])] if test is not None else [hit]
        loop = ast.For(target=target, iter=it, body=body, orelse=[], type_comment=None)
        out = [loop, ast.Return(value=default)]
        for n in out:
            for sub in ast.walk(n):
                if not hasattr(sub, 'lineno'):
                    ast.copy_location(sub, node)
        return out

    def visit_Assign(self, node):
        m = self._match(node.value)
        if m is None or len(node.targets) != 1 or not isinstance(node.targets[0], ast.Name):
            return node
        target, it, test, elt, default = m
        name = node.targets[0].id
        hit = [ast.Assign(targets=[ast.Name(id=name, ctx=ast.Store())], value=elt, type_comment=None), ast.Break()]
        body = [ast.If(test=test, body=hit, orelse=[])] if test is not None else hit
        out = [ast.Assign(targets=[ast.Name(id=name, ctx=ast.Store())], value=default, type_comment=None),
               ast.For(target=target, iter=it, body=body, orelse=[], type_comment=None)]
        for n in out:
            for sub in ast.walk(n):
                if not hasattr(sub, 'lineno'):
                    ast.copy_location(sub, node)
        return out


class Repo:
    def __init__(self, root, overrides=None):
        self.root = os.path.abspath(root)
        self.overrides = overrides or {}   # relpath -> replacement source (in-memory mutants)
        self.modules = {}
        self.classes = {}   # name -> [ClassInfo]
        self._load()
        self._resolve()

    # ------------------------------------------------------------------
    def _load(self):
        pkgroot = os.path.join(self.root, PKG)
        if not os.path.isdir(pkgroot):
            raise AnalysisError('package directory %s not found' % pkgroot)
        for dirpath, dirnames, filenames in os.walk(pkgroot):
            dirnames[:] = sorted(d for d in dirnames if d != '__pycache__')
            for fn in sorted(filenames):
                if not fn.endswith('.py'):
                    continue
                path = os.path.join(dirpath, fn)
                rel = os.path.relpath(path, self.root)
                parts = rel[:-3].split(os.sep)
                if parts[-1] == '__init__':
                    parts = parts[:-1]
                name = '.'.join(parts)
                if rel in self.overrides:
                    src = self.overrides[rel]
                else:
                    with open(path, encoding='utf-8') as f:
                        src = f.read()
                try:
                    tree = ast.parse(src, filename=path)
                except SyntaxError as e:
                    raise AnalysisError('syntax error in %s: %s' % (rel, e))
                if 'next(' in src:
                    tree = _Desugar().visit(tree)
                    ast.fix_missing_locations(tree)
                self.modules[name] = ModuleInfo(name, path, rel, tree, src)

    def _resolve(self):
        for m in self.modules.values():
            for node in m.tree.body:
                if isinstance(node, ast.ImportFrom):
                    mod = node.module or ''
                    if node.level:
                        base = m.name.split('.')
                        base = base[:len(base) - node.level + (1 if m.relpath.endswith('__init__.py') else 0)]
                        mod = '.'.join(base + ([mod] if mod else []))
                    for a in node.names:
                        if a.name == '*':
                            m.star.append(mod)
                        elif (mod + '.' + a.name) in self.modules:
                            m.imports[a.asname or a.name] = ('module', mod + '.' + a.name)
                        else:
                            m.imports[a.asname or a.name] = ('symbol', mod, a.name)
                elif isinstance(node, ast.Import):
                    for a in node.names:
                        m.imports[a.asname or a.name.split('.')[0]] = ('module', a.name)
                elif isinstance(node, ast.ClassDef):
                    ci = ClassInfo(m, node)
                    ci.base_names = [ast.unparse(b) for b in node.bases]
                    m.classes[node.name] = ci
                    self.classes.setdefault(node.name, []).append(ci)
                elif isinstance(node, ast.FunctionDef):
                    m.functions[node.name] = FuncInfo(m, node)
                elif isinstance(node, ast.Assign):
                    for t in node.targets:
                        if isinstance(t, ast.Name):
                            m.assigns[t.id] = node.value
        for m in self.modules.values():
            for ci in m.classes.values():
                for b in ci.node.bases:
                    r = self.resolve_expr(m, b)
                    if r and r[0] == 'class':
                        ci.bases.append(r[1])

    # ------------------------------------------------------------------
    def module_all(self, m):
        node = m.assigns.get('__all__')
        if node is not None and isinstance(node, (ast.List, ast.Tuple)):
            return [e.value for e in node.elts if isinstance(e, ast.Constant)]
        names = list(m.classes) + list(m.functions) + [k for k in m.assigns if not k.startswith('_')]
        names += [k for k in m.imports if not k.startswith('_')]
        return names

    def resolve_name(self, m, name, _depth=0):
        """-> ('class', ClassInfo) | ('func', FuncInfo) | ('module', ModuleInfo)
              | ('const', ModuleInfo, ast node) | ('external', dotted) | None"""
        if _depth > 8:
            return None
        if name in m.classes:
            return ('class', m.classes[name])
        if name in m.functions:
            return ('func', m.functions[name])
        if name in m.assigns:
            return ('const', m, m.assigns[name])
        imp = m.imports.get(name)
        if imp:
            if imp[0] == 'module':
                mod = self.modules.get(imp[1])
                return ('module', mod) if mod else ('external', imp[1])
            mod = self.modules.get(imp[1])
            if mod is None:
                return ('external', imp[1] + '.' + imp[2])
            return self.resolve_name(mod, imp[2], _depth + 1)
        for s in m.star:
            mod = self.modules.get(s)
            if mod is None:
                continue
            if name in self.module_all(mod):
                r = self.resolve_name(mod, name, _depth + 1)
                if r:
                    return r
        return None

    def resolve_expr(self, m, node):
        """Resolve a Name or dotted Attribute chain rooted at a module name."""
        if isinstance(node, ast.Name):
            return self.resolve_name(m, node.id)
        if isinstance(node, ast.Attribute):
            base = self.resolve_expr(m, node.value)
            if base and base[0] == 'module':
                return self.resolve_name(base[1], node.attr)
            if base and base[0] == 'class':
                ci = base[1]
                if node.attr in ci.class_assigns:
                    return ('enum_member', ci, node.attr)
                f = ci.find_method(node.attr)
                if f:
                    return ('func', f)
        return None

    # ------------------------------------------------------------------
    def cls(self, name):
        lst = self.classes.get(name)
        if not lst:
            raise AnalysisError('anchor vanished: class %s not found' % name)
        if len(lst) > 1:
            raise AnalysisError('ambiguous class name %s (%s)' % (name, [c.relpath for c in lst]))
        return lst[0]

    def module(self, name):
        m = self.modules.get(name)
        if m is None:
            raise AnalysisError('anchor vanished: module %s not found' % name)
        return m

    def func(self, modname, fname):
        m = self.module(modname)
        f = m.functions.get(fname)
        if f is None:
            raise AnalysisError('anchor vanished: function %s.%s not found' % (modname, fname))
        return f

    def method(self, clsname, mname):
        c = self.cls(clsname)
        f = c.find_method(mname)
        if f is None:
            raise AnalysisError('anchor vanished: method %s.%s not found' % (clsname, mname))
        return f

    # convenience for the opcode layer ----------------------------------
    def modules_under(self, prefix):
        return [m for n, m in sorted(self.modules.items()) if n.startswith(prefix + '.')]

    def concrete_classes(self):
        out = []
        for m in self.modules_under(PKG + '.armv6.opcodes.concrete'):
            out.extend(m.classes.values())
        return out

    def abstract_opcode_classes(self):
        out = []
        for m in self.modules_under(PKG + '.armv6.opcodes.abstract_opcodes'):
            out.extend(m.classes.values())
        return out

    def decoder_modules(self):
        return self.modules_under(PKG + '.armv6.opcodes.decoders')


def norm_stmt(node, limit=160):
    """Normalised statement/expression text used in finding keys (no line numbers)."""
    s = ast.unparse(node) if not isinstance(node, str) else node
    s = ' '.join(s.split())
    return s[:limit]
